"""C02 - conversion, cloning, transposition and permutation preserve the matrix.

Case line (see harness/c02/main.cpp):  IT <init> nops op_1 .. op_n
The oracle below tracks the *dense* Fraction matrix through the chain by the textbook operation (transpose,
row/column relabelling, identity for every conversion / clone / rebuild) and judges every segment of the
implementation output against it: dimensions, structural validity of the raw layout arrays, the matrix the raw
arrays represent, the matrix operator()(i,j) shows, and the aliasing flags of clones.
"""
import itertools
import json
import math
import os
import random
import struct
import time
from fractions import Fraction

import vlib

PROP = "C02"
BLOCKS = [(2, 2), (2, 3), (3, 2)]
CLONE_NAMES = {0: "shallow", 1: "layout", 2: "weak", 3: "deep", 4: "allocate"}


# ---------------------------------------------------------------------------------------------
# textbook state: dense matrix + stored pattern (the pattern is only used to recognise the documented
# preconditions / known-defect input classes, never to judge a result)
# ---------------------------------------------------------------------------------------------

class State:
    def __init__(self, fmt, rows, cols, M, pat, bh=1, bw=1):
        self.fmt, self.rows, self.cols, self.M, self.pat, self.bh, self.bw = fmt, rows, cols, M, pat, bh, bw

    def copy(self):
        return State(self.fmt, self.rows, self.cols, [r[:] for r in self.M], set(self.pat), self.bh, self.bw)

    def nnz(self):
        return len(self.pat)

    def arrayless(self):
        return self.fmt in ("csr", "cscr", "bcsr") and not self.pat

    def row_has(self):
        h = [False] * self.rows
        for (i, _) in self.pat:
            h[i] = True
        return h


def round_dt(x):
    """Q -> double (mpq_get_d: truncation to 53 significant bits) -> float (IEEE round to nearest even) -> Q, written
    with integer arithmetic and the C cast of struct.pack (independent of the Lean model)"""
    if x == 0:
        return Fraction(0)
    n, d = abs(x.numerator), x.denominator
    e = n.bit_length() - d.bit_length()
    if (n << max(-e, 0)) < (d << max(e, 0)):
        e -= 1                                   # 2^e <= n/d < 2^(e+1)
    sh = 52 - e
    m = (n << sh) // d if sh >= 0 else n // (d << -sh)
    dbl = math.ldexp(m, -sh)                     # exact: m has 53 bits
    flt = struct.unpack("f", struct.pack("f", dbl))[0]
    r = Fraction(flt)
    return -r if x < 0 else r


def trunc53(x):
    """Q -> double (mpq_get_d truncates to 53 significant bits) -> Q"""
    if x == 0:
        return Fraction(0)
    n, d = abs(x.numerator), x.denominator
    e = n.bit_length() - d.bit_length()
    if (n << max(-e, 0)) < (d << max(e, 0)):
        e -= 1
    sh = 52 - e
    m = (n << sh) // d if sh >= 0 else n // (d << -sh)
    r = Fraction(m, 1 << sh) if sh >= 0 else Fraction(m * (1 << -sh))
    return -r if x < 0 else r


def zeros(r, c):
    return [[Fraction(0)] * c for _ in range(r)]


def band_slots(rows, cols, offs):
    return {(i, i + o + 1 - rows) for o in offs for i in range(rows) if 0 <= i + o + 1 - rows < cols}


class Tk:
    def __init__(self, s):
        self.t = s.split() if isinstance(s, str) else s
        self.p = 0

    def tok(self):
        self.p += 1
        return self.t[self.p - 1]

    def peek(self):
        return self.t[self.p] if self.p < len(self.t) else None

    def nat(self):
        return int(self.tok())

    def nats(self):
        return [self.nat() for _ in range(self.nat())]

    def fr(self):
        return vlib.parse_frac(self.tok())

    def frs(self):
        return [self.fr() for _ in range(self.nat())]


def expand_csr(rows, cols, rp, ci, val):
    M = zeros(rows, cols)
    pat = set()
    if val:
        for i in range(rows):
            for k in range(rp[i], rp[i + 1]):
                M[i][ci[k]] += val[k]
                pat.add((i, ci[k]))
    return M, pat


def parse_init(c):
    fmt = c.tok()
    if fmt == "csr":
        r, cc = c.nat(), c.nat()
        rp, ci, val = c.nats(), c.nats(), c.frs()
        M, pat = expand_csr(r, cc, rp, ci, val)
        return State("csr", r, cc, M, pat)
    if fmt == "cscr":
        r, cc = c.nat(), c.nat()
        rp, ci, val, rn = c.nats(), c.nats(), c.frs(), c.nats()
        M, pat = zeros(r, cc), set()
        if val:
            for z, i in enumerate(rn):
                for k in range(rp[z], rp[z + 1]):
                    M[i][ci[k]] += val[k]
                    pat.add((i, ci[k]))
        return State("cscr", r, cc, M, pat)
    if fmt == "banded":
        r, cc = c.nat(), c.nat()
        off, val = c.nats(), c.frs()
        M = zeros(r, cc)
        for b, o in enumerate(off):
            for i in range(r):
                j = i + o + 1 - r
                if 0 <= j < cc:
                    M[i][j] += val[b * r + i]
        return State("banded", r, cc, M, band_slots(r, cc, off))
    if fmt == "dense":
        r, cc = c.nat(), c.nat()
        val = c.frs()
        return State("dense", r, cc, [val[i * cc:(i + 1) * cc] for i in range(r)], set())
    if fmt == "bcsr":
        bh, bw = c.nat(), c.nat()
        r, cc = c.nat(), c.nat()
        rp, ci, val = c.nats(), c.nats(), c.frs()
        M, pat = zeros(r * bh, cc * bw), set()
        if val:
            for i in range(r):
                for k in range(rp[i], rp[i + 1]):
                    for h in range(bh):
                        for w in range(bw):
                            M[i * bh + h][ci[k] * bw + w] += val[k * bh * bw + h * bw + w]
                            pat.add((i * bh + h, ci[k] * bw + w))
        return State("bcsr", r * bh, cc * bw, M, pat, bh, bw)
    raise ValueError("bad format " + fmt)


def transpose_state(s):
    t = s.copy()
    t.rows, t.cols = s.cols, s.rows
    t.M = [[s.M[i][j] for i in range(s.rows)] for j in range(s.cols)]
    t.pat = {(j, i) for (i, j) in s.pat}
    t.bh, t.bw = s.bw, s.bh
    return t


def apply_op(s, c):
    """textbook effect of the next operation of token cursor c on state s.
    returns (new_state, tag): tag None = must succeed; 'abort:<why>' = the input is outside the operation's domain
    (an assertion is the specified outcome); 'defect:Dk:<why>' = input class of the known finding c02-edge:Dk (inside
    the property's quantifier, judged like every other case); 'bad' = operation does not exist."""
    op = c.tok()
    if op == "tocsr":
        if s.fmt == "dense":
            return s, "bad"
        t = s.copy()
        t.fmt, t.bh, t.bw = "csr", 1, 1
        if s.fmt == "cscr":
            if s.nnz() == 0:
                return t, "defect:D10:cscr->csr of an entry-free matrix aborts (XASSERT used_elements > 0)"
        return t, None
    if op == "tobanded":
        if s.fmt not in ("csr", "banded"):
            return s, "bad"
        t = s.copy()
        t.fmt = "banded"
        if s.fmt == "csr":
            if s.nnz() == 0:
                t.pat = set()
                return t, "defect:D7:csr->banded of an entry-free matrix aborts"
            offs = sorted({j + s.rows - 1 - i for (i, j) in s.pat})
            t.pat = band_slots(s.rows, s.cols, offs)
        return t, None
    if op == "tocscr":
        if s.fmt not in ("csr", "cscr"):
            return s, "bad"
        t = s.copy()
        t.fmt = "cscr"
        if s.fmt == "csr":
            pass        # an entry-free source yields the entry-free CSCR matrix (D3, fixed in /repo by 59f054b00)
        return t, None
    if op == "clone":
        m = c.nat()
        return (s.copy(), None) if m <= 4 else (s, "bad")
    if op == "xclone":
        d, i, m = c.nat(), c.nat(), c.nat()
        if d > 1 or i > 1 or m > 4 or (d == 0 and i == 0):
            return s, "bad"
        t = s.copy()
        if d:
            t.M = [[trunc53(x) for x in row] for row in s.M]    # the values pass through double once
        return t, None
    if op in ("layoutz", "layouta"):
        if op == "layouta" and c.nat() not in (0, 1, 3, 4):
            return s, "bad"
        if s.fmt == "dense":
            return s, "bad"
        t = s.copy()
        t.M = zeros(s.rows, s.cols)          # same pattern, fresh zero values
        return t, None
    if op == "graphz":
        if s.fmt != "csr":
            return s, "bad"
        t = s.copy()
        t.M = zeros(s.rows, s.cols)
        if s.nnz() == 0:
            return t, "defect:D5:Graph(as_is, csr) of an entry-free matrix throws"
        return t, None
    if op == "layout":
        return (s, "bad") if s.fmt == "dense" else (s.copy(), None)
    if op == "graph":
        if s.fmt != "csr":
            return s, "bad"
        if s.nnz() == 0:
            return s.copy(), "defect:D5:Graph(as_is, csr) of an entry-free matrix throws"
        return s.copy(), None
    if op in ("tr", "tri"):
        if s.fmt not in (("csr", "dense", "bcsr") if op == "tr" else ("csr", "dense")):
            return s, "bad"
        return transpose_state(s), None
    if op == "perm":
        p, q = c.nats(), c.nats()
        if s.fmt not in ("csr", "bcsr"):
            return s, "bad"
        if not p and not q:
            return s.copy(), None
        bh, bw = (s.bh, s.bw) if s.fmt == "bcsr" else (1, 1)      # BCSR: permutations of the block rows / columns
        if len(p) != s.rows // bh or len(q) != s.cols // bw:
            return s.copy(), "abort:permutation size does not match the matrix (XASSERTM)"
        t = s.copy()       # (an entry-free matrix is its own permutation: D1 / D9, fixed in /repo by 59f054b00)
        P = [p[i // bh] * bh + i % bh for i in range(s.rows)]
        Qc = [q[j // bw] * bw + j % bw for j in range(s.cols)]
        t.M = [[s.M[P[i]][Qc[j]] for j in range(s.cols)] for i in range(s.rows)]       # B(i,j) = A(pr i, pc j)
        t.pat = {(i, j) for i in range(s.rows) for j in range(s.cols) if (P[i], Qc[j]) in s.pat}
        return t, None
    if op == "trs":
        if s.fmt not in ("csr", "dense") and not (s.fmt == "bcsr" and s.bh == s.bw):
            return s, "bad"
        return transpose_state(s), None
    if op == "trt":
        k = c.nat()
        if s.fmt in ("csr", "dense") or (s.fmt == "bcsr" and s.bh == s.bw):
            return (transpose_state(s), None) if k <= 4 else (s, "bad")
        if s.fmt == "bcsr":
            return (transpose_state(s), None) if k in (0, 2, 3) else (s, "bad")
        return s, "bad"
    if op == "convs":
        return s.copy(), None          # self-assignment is a no-op (D8, fixed in /repo by 5f789ddc8)
    if op == "convt":
        k, f = c.nat(), c.tok()
        if f not in ("csr", "banded", "cscr", "dense", "bcsr"):
            return s, "bad"
        if f == s.fmt:
            return (s.copy(), None) if k in (0, 1, 3, 4) else (s, "bad")
        if k not in (0, 1, 3) or (f, s.fmt) not in (("csr", "banded"), ("csr", "bcsr"), ("csr", "cscr"), ("banded", "csr"),
                                                     ("cscr", "csr")):
            return s, "bad"
        return apply_op(s, Tk({"csr": "tocsr", "banded": "tobanded", "cscr": "tocscr"}[f]))
    if op == "clones":
        m = c.nat()
        return (s.copy(), "abort:self-clone (XABORTM)") if m <= 3 else (s, "bad")
    if op == "clonet":
        k, m = c.nat(), c.nat()
        return (s.copy(), None) if k in (0, 1, 3, 4) and m <= 3 else (s, "bad")
    if op == "copys":
        return s.copy(), None
    if op == "copyt":
        k = c.nat()
        return (s.copy(), None) if k in (1, 2, 4) else (s, "bad")
    if op == "it":
        return s.copy(), None
    if op == "dtw":
        if s.fmt not in ("csr", "dense", "banded"):
            return s, "bad"
        t = s.copy()
        t.M = [[round_dt(x) for x in row] for row in s.M]      # narrow once; widening and narrowing again changes nothing
        return t, None
    if op == "dt":
        if s.fmt not in ("csr", "dense", "banded"):
            return s, "bad"
        t = s.copy()
        t.M = [[round_dt(x) for x in row] for row in s.M]      # every stored value goes through float once
        return t, None
    return s, "bad"


def simulate(case):
    """-> (it, [states], [ops], tag, k): states[0] = initial, states[i] after op i; tag/k = first tagged op"""
    c = Tk(case)
    it = c.nat()
    s = parse_init(c)
    n = c.nat()
    states, ops = [s], []
    for k in range(n):
        p0 = c.p
        s, tag = apply_op(s, c)
        ops.append(c.t[p0:c.p])
        if tag is not None:
            return it, states, ops, tag, k
        states.append(s)
    return it, states, ops, None, None


# ---------------------------------------------------------------------------------------------
# generator
# ---------------------------------------------------------------------------------------------

def rand_val(rng, dyadic):
    if dyadic:
        return Fraction(rng.randint(-40, 40), rng.choice([1, 1, 2, 4, 8]))
    return Fraction(rng.randint(-9, 9), rng.choice([1, 1, 1, 2, 3, 5, 7]))


def fl(l):
    return ("%d " % len(l) + " ".join(map(str, l))).strip()


def flq(l):
    return ("%d " % len(l) + " ".join(vlib.frac_str(x) for x in l)).strip()


def gen_pattern(rng, rows, cols):
    """sorted pattern as list of column lists; many empty rows in all positions"""
    style = rng.choice(["free", "one", "sparse", "sparse", "sparse", "full", "diag", "lead-empty", "trail-empty", "mid-empty"])
    rowsl = [[] for _ in range(rows)]
    if rows == 0 or cols == 0 or style == "free":
        return rowsl
    if style == "one":
        rowsl[rng.randrange(rows)] = [rng.randrange(cols)]
    elif style == "full":
        rowsl = [list(range(cols)) for _ in range(rows)]
    elif style == "diag":
        rowsl = [[i] if i < cols else [] for i in range(rows)]
    else:
        for i in range(rows):
            if rng.random() < 0.25:
                continue
            rowsl[i] = sorted(rng.sample(range(cols), rng.randint(1, min(cols, 4))))
        if style == "lead-empty":
            rowsl[0] = []
        elif style == "trail-empty":
            for i in range(rng.randint(1, rows), rows):
                rowsl[i] = []
            rowsl[0] = rowsl[0] or [rng.randrange(cols)]
        elif style == "mid-empty" and rows >= 3:
            rowsl[rng.randrange(1, rows - 1)] = []
    return rowsl


def gen_init(rng, big, dyadic):
    dims = [0, 1, 1, 2, 2, 3, 3, 4, 5, 6] + ([8, 11, 14] if big else [])
    k = rng.random()
    if k < 0.45:
        rows, cols = rng.choice(dims), rng.choice(dims)
        pl = gen_pattern(rng, rows, cols)
        rp, ci = [0], []
        for l in pl:
            ci += l
            rp.append(len(ci))
        val = [rand_val(rng, dyadic) for _ in ci]
        return "csr %d %d %s %s %s" % (rows, cols, fl(rp), fl(ci), flq(val))
    if k < 0.55:
        rows, cols = rng.choice(dims), rng.choice(dims)
        pl = gen_pattern(rng, rows, cols)
        rp, ci, rn = [0], [], []
        for i, l in enumerate(pl):
            if l:
                ci += l
                rp.append(len(ci))
                rn.append(i)
        val = [rand_val(rng, dyadic) for _ in ci]
        return "cscr %d %d %s %s %s %s" % (rows, cols, fl(rp), fl(ci), flq(val), fl(rn))
    if k < 0.72:
        rows, cols = rng.choice(dims[1:]), rng.choice(dims[1:])
        allo = list(range(rows + cols - 1))
        style = rng.choice(["none", "one", "some", "some", "all", "lower", "upper", "diag"])
        if style == "none":
            off = []
        elif style == "one":
            off = [rng.choice(allo)]
        elif style == "all":
            off = allo
        elif style == "lower":
            off = [o for o in allo if o + 1 < rows and rng.random() < 0.7]
        elif style == "upper":
            off = [o for o in allo if o + 1 > rows and rng.random() < 0.7]
        elif style == "diag":
            off = [rows - 1]
        else:
            off = [o for o in allo if rng.random() < 0.4]
        val = [rand_val(rng, dyadic) for _ in range(rows * len(off))]
        return "banded %d %d %s %s" % (rows, cols, fl(off), flq(val))
    if k < 0.84:
        rows, cols = rng.choice(dims[1:]), rng.choice(dims[1:])
        val = [rand_val(rng, dyadic) if rng.random() < 0.7 else Fraction(0) for _ in range(rows * cols)]
        return "dense %d %d %s" % (rows, cols, flq(val))
    bh, bw = rng.choice(BLOCKS)
    bd = [0, 1, 1, 2, 2, 3, 4] + ([6] if big else [])
    rows, cols = rng.choice(bd), rng.choice(bd)
    pl = gen_pattern(rng, rows, cols)
    rp, ci = [0], []
    for l in pl:
        ci += l
        rp.append(len(ci))
    val = [rand_val(rng, dyadic) for _ in range(len(ci) * bh * bw)]
    return "bcsr %d %d %d %d %s %s %s" % (bh, bw, rows, cols, fl(rp), fl(ci), flq(val))


def rand_perm(rng, n):
    p = list(range(n))
    k = rng.random()
    if k < 0.15:
        return p
    if k < 0.3:
        return p[::-1]
    rng.shuffle(p)
    return p


def gen_op(rng, s):
    """one random operation that exists for the current format (as a token string)"""
    f = s.fmt
    if f == "csr":
        ops = ["tocsr", "tobanded", "tobanded", "tocscr", "tocscr", "clone", "clone", "layout", "graph", "tr", "tr", "tri",
               "perm", "perm", "perm", "it", "dt", "dtw", "layoutz", "layouta", "graphz"]
    elif f == "banded":
        ops = ["tocsr", "tocsr", "tocsr", "tobanded", "clone", "layout", "it", "dt", "layoutz", "layouta"]
    elif f == "cscr":
        ops = ["tocsr", "tocsr", "tocscr", "clone", "layout", "it", "layoutz", "layouta"]
    elif f == "dense":
        ops = ["tr", "tr", "tri", "clone", "it", "dt"]
    else:
        ops = ["tocsr", "tocsr", "tr", "tr", "clone", "layout", "it", "perm", "perm", "layoutz", "layouta"]
    if rng.random() < 0.08:
        d, i = rng.choice([(0, 1), (0, 1), (1, 0), (1, 1)])
        return "xclone %d %d %d" % (d, i, rng.randrange(5))
    if rng.random() < 0.3:
        # the two-argument members with an aliased or pre-existing target
        alias = ["clonet", "clonet", "copyt", "copys", "convt-same", "convt-same"]
        if f in ("csr", "dense", "bcsr"):
            alias += ["trs", "trs", "trt", "trt", "trt", "trt"]
        if f in ("banded", "bcsr", "cscr"):
            alias += ["convt-csr", "convt-csr"]
        if f == "csr":
            alias += ["convt-banded", "convt-cscr"]
        if rng.random() < 0.03:
            alias += ["convs", "clones"]
        a = rng.choice(alias)
        if a == "trt":
            return "trt %d" % rng.randrange(5)
        if a == "clonet":
            return "clonet %d %d" % (rng.choice([0, 1, 3, 4]), rng.randrange(4))
        if a == "clones":
            return "clones %d" % rng.randrange(4)
        if a == "copyt":
            return "copyt %d" % rng.choice([1, 2, 4])
        if a == "convt-same":
            return "convt %d %s" % (rng.choice([0, 1, 3, 4]), f)
        if a.startswith("convt-"):
            return "convt %d %s" % (rng.choice([0, 1, 3]), a[6:])
        return a
    op = rng.choice(ops)
    if op == "clone":
        return "clone %d" % rng.randrange(5)
    if op == "layouta":
        return "layouta %d" % rng.choice([0, 1, 3, 4])
    if op == "perm":
        nr, nc = (s.rows // s.bh, s.cols // s.bw) if f == "bcsr" else (s.rows, s.cols)
        if rng.random() < 0.03:
            return "perm %s %s" % (fl(rand_perm(rng, nr + 1)), fl(rand_perm(rng, nc)))
        return "perm %s %s" % (fl(rand_perm(rng, nr)), fl(rand_perm(rng, nc)))
    return op


def gen_case(rng, big):
    has_dt = rng.random() < 0.25
    init = gen_init(rng, big, has_dt and rng.random() < 0.5)   # dt: float-representable values or arbitrary rationals
    s = parse_init(Tk(init))
    n = rng.choice([0, 1, 1, 2, 2, 3, 3, 4, 5, 6, 8, 12])
    ops = []
    tries = 0
    while len(ops) < n and tries < 60:
        tries += 1
        o = gen_op(rng, s)
        if o in ("dt", "dtw") and not has_dt:
            continue
        t, tag = apply_op(s, Tk(o))
        if tag is None:
            ops.append(o)
            s = t
        elif tag.startswith("abort:") and rng.random() < 0.3:
            ops.append(o)  # outside the operation's domain: the chain ends with the specified abort
            break
        elif tag.startswith("defect:") and rng.random() < 0.15:
            ops.append(o)  # input class of an open known finding: executed and judged (the chain ends here)
            break
    return "%d %s %d %s" % (rng.choice([32, 64]), init, len(ops), " ".join(ops))


def gen_vec_case(rng):
    n = rng.choice([0, 1, 2, 3, 5, 8])
    x = [rand_val(rng, False) for _ in range(n)]
    ops = []
    for _ in range(rng.randrange(1, 4)):
        k = rng.random()
        ops.append("vperm %s" % fl([] if k < 0.1 else rand_perm(rng, n + 1) if k < 0.15 else rand_perm(rng, n)))
        if k >= 0.1 and k < 0.15:
            break
    return "%d vec %s %d %s" % (rng.choice([32, 64]), flq(x), len(ops), " ".join(ops))


def gen_vecx_case(rng):
    kind = rng.choice(["dv", "dvb", "sv"])
    if kind == "sv":
        n = rng.choice([1, 3, 6, 9])
        ix = sorted(rng.sample(range(n), rng.randint(0, min(n, 4))))
        init = "sv %d %s %s" % (n, fl(ix), flq([rand_val(rng, False) for _ in ix]))
    else:
        n = rng.choice([0, 1, 2, 5]) * (2 if kind == "dvb" else 1)
        init = "%s %s" % (kind, flq([rand_val(rng, False) for _ in range(n)]))
    ops = []
    for _ in range(rng.randrange(1, 5)):
        d, i = rng.choice([(0, 1), (0, 1), (1, 0), (1, 1)])
        ops.append("xclone %d %d %d" % (d, i, rng.randrange(5)) if rng.random() < 0.7 else "xconv %d %d" % (d, i))
    return "%d vecx %s %d %s" % (rng.choice([32, 64]), init, len(ops), " ".join(ops))


def gen_cases(rng, count, big=False):
    return [(gen_vec_case(rng) if rng.random() < 0.02 else gen_vecx_case(rng) if rng.random() < 0.03 else
             gen_case(rng, big)).strip() for _ in range(count)]


def perm_enumeration():
    """deterministic part of every run: EVERY pair of a row and a column permutation on a rectangular CSR matrix with
    an empty row (3x4: 6 x 24 pairs) and on a 2x3-block BCSR matrix (2 x 6 pairs, both block shapes), each judged entry
    by entry against B(i,j) = A(pr i, pc j) and layout-checked; plus every permutation of a 4-vector"""
    out = []
    csr = "csr 3 4 4 0 3 3 5 5 0 1 3 0 2 5 1/2 -3/1 5/7 2/1 -1/3"
    for p in itertools.permutations(range(3)):
        for q in itertools.permutations(range(4)):
            out.append("32 %s 1 perm %s %s" % (csr, fl(list(p)), fl(list(q))))
    for bh, bw in ((2, 3), (3, 2)):
        vals = flq([Fraction(k + 1, 1 + k % 3) for k in range(4 * bh * bw)])
        b = "bcsr %d %d 2 3 3 0 3 4 4 0 1 2 1 %s" % (bh, bw, vals)
        for p in itertools.permutations(range(2)):
            for q in itertools.permutations(range(3)):
                out.append("64 %s 2 perm %s %s tocsr" % (b, fl(list(p)), fl(list(q))))
    for p in itertools.permutations(range(4)):
        out.append("32 vec 4 1/1 2/1 3/1 4/1 1 vperm %s" % fl(list(p)))
    # every cross-type clone: 5 formats x (data type, index type) in {same/different}^2 minus same/same x 5 clone modes,
    # each as a chain X<Q,IT> -> X<DT2,IT2> -> X<Q,IT> with write-after-clone and format-source observations
    inits = ["csr 2 3 3 0 2 3 3 0 2 1 3 1/3 2/1 3/1", "dense 2 2 4 1/3 2/1 3/1 4/1", "banded 3 4 2 1 3 6 1/3 2/1 3/1 4/1 5/1 6/1",
             "cscr 4 3 3 0 1 3 3 2 0 1 3 5/1 6/1 7/1 2 1 3", "bcsr 2 3 1 2 2 0 1 1 1 6 1/3 2/1 3/1 4/1 5/1 6/1"]
    for k, ini in enumerate(inits):
        for d, i in ((0, 1), (1, 0), (1, 1)):
            for m in range(5):
                out.append("%d %s 2 xclone %d %d %d clone %d" % (32 if (k + m) % 2 else 64, ini, d, i, m, m))
    # the same Container code path on vectors: 3 vector kinds x 3 type combinations x (5 clone modes + convert)
    for k, ini in enumerate(["dv 3 1/3 2/1 3/1", "dvb 4 1/3 2/1 3/1 4/1", "sv 6 2 1 4 2 5/1 1/3"]):
        for d, i in ((0, 1), (1, 0), (1, 1)):
            for m in range(5):
                out.append("%d vecx %s 1 xclone %d %d %d" % (32 if (k + m) % 2 else 64, ini, d, i, m))
            out.append("%d vecx %s 2 xconv %d %d xclone %d %d 2" % (64, ini, d, i, d, i))
    return out


# past failures and the corner cases of the property text, replayed first on every run
CORPUS = [
    "32 csr 3 5 0 0 0 1 tr",                      # F5: entry-free 3x5 (fixed: dimensions swapped)
    "64 csr 3 5 0 0 0 2 tri tr",
    "32 csr 0 3 0 0 0 1 tr",
    "32 csr 2 3 3 0 2 3 3 0 2 1 3 1/1 2/1 3/1 2 tr tr",
    "32 csr 4 1 5 0 1 1 2 2 2 0 0 2 5/1 7/1 3 tr tr tri",       # single column (cols - 1 = 0 in the prefix loop)
    "32 csr 1 4 2 0 2 2 0 3 2 5/1 7/1 2 tr tobanded",
    "64 csr 3 3 4 0 1 2 2 2 1 2 2 5/1 7/1 2 tocscr clone 3",    # trailing empty row
    "32 banded 3 4 2 1 3 6 1/1 2/1 3/1 4/1 5/1 6/1 2 tocsr tobanded",
    "32 banded 3 3 0 0 2 tocsr tr",
    "32 bcsr 2 3 1 2 2 0 1 1 1 6 1/1 2/1 3/1 4/1 5/1 6/1 3 tr tocsr tr",
    "32 bcsr 2 2 2 2 0 0 0 2 tr tocsr",
    "32 dense 2 3 6 1/1 2/1 3/1 4/1 5/1 6/1 4 tr tri clone 0 dt",
    "32 csr 2 3 3 0 2 3 3 0 2 1 3 1/1 2/1 3/1 4 clone 0 clone 1 clone 2 clone 3",
    "32 csr 2 3 3 0 2 3 3 0 2 1 3 1/1 2/1 3/1 3 perm 2 1 0 3 2 0 1 perm 2 1 0 3 1 2 0 graph",
    "32 csr 2 2 3 0 1 2 2 0 1 2 1/1 2/1 1 perm 1 0 2 0 1",      # specified abort (size mismatch)
]

# regression cases of repaired defects (D2 ed19cf584, D4 0f251956b, D8 5f789ddc8, D6 3df59c4a0, D1 / D3 / D9 59f054b00)
# and one input per open known finding (c02-edge:D5, D7, D10 of KNOWN_FINDINGS.json) - all executed and judged on every run
CORPUS += [
    "64 csr 3 3 4 0 0 1 2 2 1 2 2 5/1 7/1 1 tocscr",
    "32 csr 4 3 5 0 0 2 2 3 3 0 2 1 3 1/2 1/3 1/5 3 tocscr clone 3 it",
    "32 csr 2 2 3 0 0 1 1 1 1 3/1 1 tocscr",
    "32 bcsr 2 3 1 2 0 0 0 1 tr",
    "64 bcsr 3 2 3 1 0 0 0 2 tr tr",
    "32 csr 2 3 0 0 0 1 perm 2 1 0 3 2 0 1",
    "32 csr 0 3 0 0 0 1 perm 0 3 2 1 0",
    "32 csr 2 3 0 0 0 1 tocscr",
    "32 csr 2 3 0 0 0 1 graph",
    "64 cscr 3 3 3 0 1 2 2 1 2 2 5/1 7/1 2 1 2 1 tocsr",
    "64 csr 3 3 4 0 1 2 2 2 1 2 2 5/1 7/1 2 tocscr tocsr",
    "64 cscr 3 3 0 0 0 0 1 tocsr",
    "32 csr 2 3 0 0 0 1 tobanded",
    # aliased / pre-existing targets (same object, shallow clone, same / transposed / other shape)
    "32 dense 2 3 6 1/1 2/1 3/1 4/1 5/1 6/1 6 trs trs trt 1 trt 2 trt 3 trt 4",
    "64 dense 3 3 9 1/1 2/1 3/1 4/1 5/1 6/1 7/1 8/1 9/1 5 trt 4 trs trt 2 trt 0 trt 1",
    "32 dense 1 4 4 1/1 2/1 3/1 4/1 3 trt 3 trt 3 trt 2",
    "32 csr 2 3 3 0 2 3 3 0 2 1 3 1/1 2/1 3/1 7 trs trt 0 trt 1 trt 2 trt 3 trt 4 copyt 2",
    "32 csr 2 3 3 0 2 3 3 0 2 1 3 1/1 2/1 3/1 6 convt 4 csr convt 1 csr convt 3 csr convt 1 banded convt 3 csr convt 1 cscr",
    "32 csr 2 3 3 0 2 3 3 0 2 1 3 1/1 2/1 3/1 6 clonet 4 3 clonet 3 0 clonet 1 2 clonet 0 1 copys copyt 4",
    "32 bcsr 2 2 1 1 2 0 1 1 0 4 1/1 2/1 3/1 4/1 4 trs trt 4 trt 2 trt 1",
    "32 bcsr 2 3 1 2 2 0 1 1 1 6 1/1 2/1 3/1 4/1 5/1 6/1 3 trt 2 trt 3 trt 0",
    "32 banded 3 4 2 1 3 6 1/1 2/1 3/1 4/1 5/1 6/1 4 convt 1 csr convt 3 banded convt 4 banded copyt 1",
    "32 csr 2 3 0 0 0 4 trs trt 1 trt 3 convt 4 csr",
    "32 csr 2 3 3 0 2 3 3 0 2 1 3 1/1 2/1 3/1 1 clones 2",      # specified abort (self-clone)
    "32 csr 2 3 3 0 2 3 3 0 2 1 3 1/1 2/1 3/1 1 convs",          # D8 (fixed by 5f789ddc8): a.convert(a) is a no-op
    "32 banded 3 4 2 1 3 6 1/1 2/1 3/1 4/1 5/1 6/1 2 convs tocsr",
    # extension round: rebuilds, Allocate clones, block / vector permutation, non-exact data-type round trip
    "32 csr 2 3 3 0 2 3 3 0 2 1 3 1/1 2/1 3/1 3 layoutz clone 4 graphz",
    "32 csr 2 3 3 0 2 3 3 0 2 1 3 1/1 2/1 3/1 2 layouta 3 layouta 4",
    "32 bcsr 2 3 1 2 2 0 1 1 1 6 1/1 2/1 3/1 4/1 5/1 6/1 3 layoutz layouta 1 clone 4",
    "32 bcsr 3 2 2 1 3 0 1 2 2 0 0 12 1/1 2/1 3/1 4/1 5/1 6/1 7/1 8/1 9/1 10/1 11/1 12/1 2 layoutz layouta 0",
    "32 banded 3 4 2 1 3 6 1/1 2/1 3/1 4/1 5/1 6/1 2 layoutz layouta 0",
    "64 cscr 4 3 3 0 1 3 3 2 0 1 3 5/1 6/1 7/1 2 1 3 2 layoutz clone 4",
    "32 csr 2 3 0 0 0 2 layoutz clone 4",
    "32 csr 2 3 3 0 2 3 3 0 2 1 3 1/3 -2/7 123456789/1000 2 dt it",
    "32 dense 2 2 4 1/3 16777217/1 -33554435/2 5/1 2 dt tri",
    "32 banded 3 4 2 1 3 6 1/10 2/3 3/1 4/1 5/1 1/1048577 1 dt",
    "32 bcsr 2 3 2 2 0 0 0 1 perm 2 1 0 2 1 0",               # D9 (fixed)
    "64 cscr 5 4 3 0 2 3 3 0 3 1 3 1/2 1/3 1/5 2 1 3 3 tocsr tr tocscr",     # D6 (fixed): rows 0, 2, 4 empty
    "32 csr 2 3 0 0 0 3 perm 2 1 0 3 2 0 1 tocscr clone 3",               # D1 / D3 (fixed) in one chain
    "64 cscr 0 3 0 0 0 0 1 tocsr",                                        # c02-edge:D10
    # CSR <-> banded on RECTANGULAR shapes (band of (i,j) = j - i + rows - 1; a seeded `cols - 1` variant is only right
    # for square matrices): tall and wide, entries in the corners, both round trips
    "32 csr 4 2 5 0 1 2 3 5 5 0 1 0 0 1 5 1/2 3/1 -5/7 2/1 7/3 3 tobanded tocsr tobanded",
    "64 csr 2 4 3 0 2 5 5 0 3 0 2 3 5 1/2 3/1 -5/7 2/1 7/3 3 tobanded tocsr tr",
    "32 csr 5 1 6 0 1 1 2 2 3 3 0 0 0 3 4/1 5/1 6/1 2 tobanded tocsr",
    "32 csr 1 5 2 0 3 3 0 2 4 3 4/1 5/1 6/1 2 tobanded tocsr",
    "64 banded 4 2 3 0 2 4 12 1/1 2/1 3/1 4/1 5/1 6/1 7/1 8/1 9/1 10/1 11/1 12/1 2 tocsr tobanded",
    "64 banded 2 4 3 0 2 4 6 1/1 2/1 3/1 4/1 5/1 6/1 2 tocsr tobanded",
    "32 csr 2 3 0 0 0 1 graphz",                               # c02-edge:D5
    # cross-type clones (seeded change missed before: weak clone across index types aliasing the source's values)
    "32 csr 2 3 3 0 2 3 3 0 2 1 3 1/3 2/1 3/1 3 xclone 0 1 2 xclone 0 1 0 xclone 1 1 3",
    "64 dense 2 2 4 1/1 2/1 3/1 4/1 3 xclone 0 1 2 xclone 1 0 4 xclone 0 1 1",
    "32 csr 2 3 0 0 0 2 xclone 0 1 2 xclone 1 0 0",
    "32 csr 2 3 3 0 2 3 3 0 2 1 3 1/3 -2/7 123456789/1000 2 dtw dt",          # narrow, widen, narrow = narrow
    "32 dense 2 2 4 1/3 16777217/1 -33554435/2 5/1 1 dtw",
    "32 vecx dv 0 1 xclone 0 1 2",
    "32 vecx sv 6 0 0 2 xclone 0 1 2 xconv 1 1",
    "32 dense 2 2 4 1/1 2/1 3/1 4/1 1 convs",
]


# ---------------------------------------------------------------------------------------------
# independent oracle
# ---------------------------------------------------------------------------------------------

def is_abnormal(out):
    return out.split(":")[0] in ("ABORT", "EXC", "TIMEOUT", "SIGNAL", "SANITIZER", "EXIT") or out in ("HANG", "BAD-OP", "CRASH")


def check_rowptr(rp, n_rows, nnz, what):
    if len(rp) != n_rows + 1:
        return "%s: row pointer has %d entries, expected %d" % (what, len(rp), n_rows + 1)
    if rp[0] != 0 or rp[-1] != nnz or any(rp[i] > rp[i + 1] for i in range(n_rows)):
        return "%s: row pointers %s are not a monotone offset array ending at %d" % (what, rp, nnz)
    return None


def check_cols(rp, ci, n_cols, what):
    for i in range(len(rp) - 1):
        seg = ci[rp[i]:rp[i + 1]]
        if any(k >= n_cols for k in seg):
            return "%s: column index out of range in row %d: %s" % (what, i, seg)
        if any(seg[k] >= seg[k + 1] for k in range(len(seg) - 1)):
            return "%s: column indices of row %d not strictly sorted: %s" % (what, i, seg)
    return None


def parse_segment(seg):
    """'[K a b c d] [S <dump of the source afterwards>] <dump>' -> dict of the (target) dump + K + src (dict or None)"""
    c = Tk(seg)
    K = None
    AL = None
    if c.peek() in ("AL0", "AL1"):
        AL = c.tok() == "AL1"
    if c.peek() == "K":
        c.tok()
        K = (c.nat(), c.nat(), c.nat(), c.nat())
    X = None
    if c.peek() == "X":
        c.tok()
        X = tuple(c.nat() for _ in range(13))
    src = None
    if c.peek() == "S":
        c.tok()
        src = parse_dump(c)
    r = parse_dump(c)
    r["K"], r["src"], r["AL"], r["X"] = K, src, AL, X
    if c.p != len(c.t):
        raise ValueError("trailing tokens in segment")
    return r


def parse_dump(c):
    """-> dict(fmt, rows, cols (scalar dims), bh, bw, raw matrix from arrays, D matrix, has_val, has_idx, err)"""
    r = {"err": None, "bh": 1, "bw": 1}
    p_start = c.p
    fmt = c.tok()
    r["fmt"] = fmt
    if fmt == "csr":
        rows, cols, ue = c.nat(), c.nat(), c.nat()
        ci, rp, val = c.nats(), c.nats(), c.frs()
        r["has_val"], r["has_idx"] = bool(val), bool(ci) and bool(rp)
        raw = zeros(rows, cols)
        if not ci and not rp and not val:
            if ue != 0:
                r["err"] = "no arrays but used_elements = %d" % ue
        else:
            r["err"] = (("used_elements %d but %d values / %d column indices" % (ue, len(val), len(ci)))
                        if not (ue == len(val) == len(ci)) else None) or check_rowptr(rp, rows, len(val), "csr") \
                or check_cols(rp, ci, cols, "csr")
            if r["err"] is None:
                raw, _ = expand_csr(rows, cols, rp, ci, val)
    elif fmt == "cscr":
        rows, cols, ue, ur = c.nat(), c.nat(), c.nat(), c.nat()
        ci, rp, rn, val = c.nats(), c.nats(), c.nats(), c.frs()
        r["has_val"], r["has_idx"] = bool(val), bool(ci) and bool(rp)
        raw = zeros(rows, cols)
        if not ci and not rp and not val and not rn:
            if ue != 0 or ur != 0:
                r["err"] = "no arrays but used_elements/used_rows non-zero"
        else:
            e = None
            if not (ue == len(val) == len(ci)) or ur != len(rn):
                e = "cscr: scalar counts do not match the arrays"
            e = e or check_rowptr(rp, len(rn), len(val), "cscr") or check_cols(rp, ci, cols, "cscr")
            if e is None and (any(x >= rows for x in rn) or any(rn[k] >= rn[k + 1] for k in range(len(rn) - 1))):
                e = "cscr: row numbers %s not strictly increasing / out of range" % rn
            r["err"] = e
            if e is None:
                for z, i in enumerate(rn):
                    for k in range(rp[z], rp[z + 1]):
                        raw[i][ci[k]] += val[k]
    elif fmt == "banded":
        rows, cols, ue, noo = c.nat(), c.nat(), c.nat(), c.nat()
        off, val = c.nats(), c.frs()
        r["has_val"], r["has_idx"] = bool(val), bool(off)
        raw = zeros(rows, cols)
        e = None
        if noo != len(off) or len(val) != rows * len(off):
            e = "banded: %d offsets, %d values for %d rows" % (len(off), len(val), rows)
        elif any(o + 2 > rows + cols for o in off) or any(off[k] >= off[k + 1] for k in range(len(off) - 1)):
            e = "banded: offsets %s not strictly increasing / out of the matrix" % off
        elif ue != len(band_slots(rows, cols, off)):
            e = "banded: used_elements %d is not the number of band positions inside the matrix" % ue
        r["err"] = e
        if e is None:
            for b, o in enumerate(off):
                for i in range(rows):
                    j = i + o + 1 - rows
                    if 0 <= j < cols:
                        raw[i][j] += val[b * rows + i]
    elif fmt == "dense":
        rows, cols = c.nat(), c.nat()
        val = c.frs()
        r["has_val"], r["has_idx"] = bool(val), False
        raw = zeros(rows, cols)
        if len(val) != rows * cols:
            r["err"] = "dense: %d values for %dx%d" % (len(val), rows, cols)
        else:
            raw = [val[i * cols:(i + 1) * cols] for i in range(rows)]
    elif fmt == "bcsr":
        bh, bw = c.nat(), c.nat()
        br, bc, ue = c.nat(), c.nat(), c.nat()
        ci, rp, val = c.nats(), c.nats(), c.frs()
        r["bh"], r["bw"] = bh, bw
        r["has_val"], r["has_idx"] = bool(val), bool(ci) and bool(rp)
        rows, cols = br * bh, bc * bw
        raw = zeros(rows, cols)
        if not ci and not rp and not val:
            if ue != 0:
                r["err"] = "no arrays but used_elements = %d" % ue
        else:
            e = None
            if ue != len(ci) or len(val) != ue * bh * bw:
                e = "bcsr: scalar counts do not match the arrays"
            e = e or check_rowptr(rp, br, len(ci), "bcsr") or check_cols(rp, ci, bc, "bcsr")
            r["err"] = e
            if e is None:
                for i in range(br):
                    for k in range(rp[i], rp[i + 1]):
                        for h in range(bh):
                            for w in range(bw):
                                raw[i * bh + h][ci[k] * bw + w] += val[k * bh * bw + h * bw + w]
    else:
        raise ValueError("unknown format in output: " + fmt)
    r["rows"], r["cols"], r["raw"] = rows, cols, raw
    r["nval"] = len(val)
    # everything before the value array: format, dimensions, scalars, index arrays (= the layout)
    toks = c.t[p_start:c.p]
    r["layout"] = tuple(toks[:len(toks) - len(val) - 1])
    v = c.tok()
    if v not in ("V0", "V1"):
        raise ValueError("V flag expected")
    r["V"] = (v == "V1")
    if c.tok() != "D":
        raise ValueError("D expected")
    d = [c.fr() for _ in range(rows * cols)]
    r["D"] = [d[i * cols:(i + 1) * cols] for i in range(rows)]
    return r


def expected_K(opname, mode, seg):
    """aliasing flags the property demands (value arrays / index arrays / write-through both ways)"""
    hv, hi = seg["has_val"], seg["has_idx"]
    if opname == "layout":
        mode = 1
    if mode == 0:
        return (int(hv), int(hi), int(hv), int(hv))
    if mode in (1, 2):
        return (0, int(hi), 0, 0)
    return (0, 0, 0, 0)


def expected_X(d, i, mode, seg):
    """aliasing table of the cross-type clone chain a -> b -> c (and a/c), from the documentation of CloneMode and of
    assign/convert: arrays of a changed type are converted copies; arrays of an unchanged type are shared exactly as the
    clone mode says (values: shallow only; indices: shallow, layout, weak).  Per pair: value array shared, number of
    shared index arrays, write-through both ways; last: formatting the source changes the final clone."""
    hv = seg["has_val"]
    nidx = {"csr": 2, "bcsr": 2, "cscr": 3, "banded": 1, "dense": 0}[seg["fmt"]] if seg["has_idx"] else 0
    sv = int(mode == 0 and not d and hv)
    si = nidx if (mode in (0, 1, 2) and not i) else 0
    pair = (sv, si, sv, sv)
    return pair + pair + pair + (sv,)


TARGET_OPS = ("trt", "convt", "clonet", "copyt", "layouta")


def judge_dump(s, g):
    """one reported container against the expected textbook state"""
    if g["fmt"] != s.fmt:
        return "format %s, expected %s" % (g["fmt"], s.fmt)
    if (g["rows"], g["cols"]) != (s.rows, s.cols):
        return "dimensions %dx%d, expected %dx%d" % (g["rows"], g["cols"], s.rows, s.cols)
    if s.fmt == "bcsr" and (g["bh"], g["bw"]) != (s.bh, s.bw):
        return "block size %dx%d, expected %dx%d" % (g["bh"], g["bw"], s.bh, s.bw)
    if g["err"]:
        return "invalid layout: %s" % g["err"]
    if not g["V"]:
        return "the implementation-side validity flag is V0 for a layout the oracle finds valid"
    if g["raw"] != s.M:
        return "the raw arrays represent a different matrix"
    if g["D"] != s.M:
        return "operator()(i,j) shows a different matrix"
    return None


def oracle_vec(case, out):
    c = Tk(case)
    c.nat(); c.tok()
    x = c.frs()
    n = c.nat()
    exp = [x]
    for _ in range(n):
        if c.tok() != "vperm":
            return None if out == "BAD-OP" else "bad vector case accepted"
        p = c.nats()
        if p and len(p) != len(x):
            return None if out.startswith("ABORT") else "permutation of the wrong size not rejected"
        if p:
            x = [x[k] for k in p]            # DenseVector::permute: x'[i] = x[perm[i]]
        exp.append(x)
    if is_abnormal(out):
        return "vector permutation ended with " + out[:60]
    segs = out.split("|")[1:]
    if len(segs) != len(exp):
        return "%d vector segments, expected %d" % (len(segs), len(exp))
    for i, (g, e) in enumerate(zip(segs, exp)):
        t = Tk(g)
        if t.tok() != "vec" or t.frs() != e:
            return "vector after %d permutations is %s, expected %s" % (i, g.strip(), [str(v) for v in e])
    return None


def oracle_vecx(case, out):
    """vectors through the cross-type clone / convert chain: same content (values through double when the data type
    changes), sharing table of Container::clone / assign; SparseVector::convert is documented as a deep copy"""
    c = Tk(case)
    c.nat(); c.tok()
    kind = c.tok()
    if kind == "sv":
        size, idx, val = c.nat(), c.nats(), c.frs()
        if not val:
            idx = []
    else:
        val = c.frs()
        idx, size = [], (len(val) // 2 if kind == "dvb" else len(val))
    n = c.nat()
    if is_abnormal(out):
        return "vector clone / convert chain ended with " + out[:60]
    segs = out.split("|")[1:]
    if len(segs) != n + 1:
        return "%d vector segments, expected %d" % (len(segs), n + 1)
    for k, g in enumerate(segs):
        t = Tk(g)
        X = None
        if t.peek() == "X":
            t.tok()
            X = tuple(t.nat() for _ in range(13))
        if k > 0:
            op = c.tok()
            d, i = c.nat(), c.nat()
            mode = c.nat() if op == "xclone" else (3 if kind == "sv" else 0)      # convert: assign = shares like shallow
            if d:
                val = [trunc53(x) for x in val]
            hv, hi = bool(val), bool(idx)
            sv = int(mode == 0 and not d and hv)
            si = 1 if (mode in (0, 1, 2) and not i and hi) else 0
            exp = (sv, si, sv, sv) * 3 + (sv,)
            if X != exp:
                return "vector %s step %d (%s, data type %s, index type %s): aliasing observations %s, expected %s" % (
                    kind, k, op + ("" if op == "xconv" else ":" + CLONE_NAMES[mode]), "different" if d else "same",
                    "different" if i else "same", X, exp)
        if t.tok() != kind or t.nat() != size or t.nats() != idx or t.frs() != val:
            return "vector %s after step %d is '%s', expected size %d idx %s val %s" % (kind, k, g.strip()[:120], size, idx, [str(v) for v in val])
    return None


def is_vecx(case):
    t = case.split(None, 2)
    return len(t) > 1 and t[1] == "vecx"


def is_vec(case):
    t = case.split(None, 2)
    return len(t) > 1 and t[1] in ("vec", "vecx")


def oracle(case, out):
    if is_vec(case):
        try:
            return oracle_vecx(case, out) if is_vecx(case) else oracle_vec(case, out)
        except (IndexError, ValueError) as e:
            return "unparsable vector output (%s)" % e
    try:
        it, states, ops, tag, k = simulate(case)
    except Exception as e:
        return None if out == "BAD-OP" else "malformed case accepted (%s)" % e
    if tag == "bad":
        return None if out == "BAD-OP" else "harness accepted an operation that does not exist for the format"
    if is_abnormal(out):
        if tag is not None and tag.startswith("abort:") and out.startswith("ABORT"):
            return None  # outside the operation's domain, reported by an assertion
        if tag is not None and tag.startswith("defect:"):
            return "%s (%s)" % (tag.split(":", 2)[2], out.split(":")[0])
        return "a chain of valid operations ended with %s" % out[:80]
    try:
        segs = [parse_segment(x) for x in out.split("|")[1:]]
    except (IndexError, ValueError, ZeroDivisionError) as e:
        return "unparsable implementation output (%s)" % e
    n_expected = len(states) if tag is None else k + 2
    if tag is not None and tag.startswith("defect:") and len(segs) == n_expected:
        # the defect class produced output: judge it like any other result (states has no entry for it)
        s_last, _ = apply_op(states[-1], Tk(ops[k]))
        states = states + [s_last]
    elif tag is not None and len(segs) == n_expected:
        s_last, _ = apply_op(states[-1], Tk(ops[k]))   # abort class that did not abort: must then be right
        states = states + [s_last]
    if len(segs) != len(states):
        return "%d output segments for %d operations" % (len(segs), len(states) - 1)
    for idx, (s, g) in enumerate(zip(states, segs)):
        where = "initial matrix" if idx == 0 else "after op %d (%s)" % (idx, " ".join(ops[idx - 1][:3]))
        e = judge_dump(s, g)
        if e:
            return "%s: %s" % (where, e)
        if idx > 0:
            o = ops[idx - 1]
            if o[0] in TARGET_OPS:
                # the source of a two-argument member call must still represent its matrix afterwards; only a target
                # that is a shallow clone of the source (documented to share the data arrays) may show the result
                if g["src"] is None:
                    return "%s: the source was not reported" % where
                allowed = [states[idx - 1]] + ([s] if o[1] == "4" else [])
                errs = [judge_dump(a, g["src"]) for a in allowed]
                if all(errs):
                    return "%s: SOURCE afterwards: %s" % (where, errs[0])
            elif g["src"] is not None:
                return "%s: unexpected source report" % where
            if o[0] == "xclone":
                if g["X"] is None:
                    return "%s: no aliasing observation" % where
                exp = expected_X(int(o[1]), int(o[2]), int(o[3]), g)
                if g["X"] != exp:
                    names = ("a/b", "b/c", "a/c")
                    for q in range(3):
                        if g["X"][4 * q:4 * q + 4] != exp[4 * q:4 * q + 4]:
                            return ("%s: cross-type clone (data type %s, index type %s, mode %s), containers %s: (values shared, "
                                    "index arrays shared, write seen forward, backward) = %s, expected %s" % (
                                        where, "different" if o[1] == "1" else "same", "different" if o[2] == "1" else "same",
                                        CLONE_NAMES[int(o[3])], names[q], g["X"][4 * q:4 * q + 4], exp[4 * q:4 * q + 4]))
                    return "%s: formatting the source changed the cross-type clone" % where
            if o[0] in ("layoutz", "layouta", "graphz"):
                # rebuilt from the layout / graph: exactly the source's layout (same scalars and index arrays), a value
                # array of the same length, zero values; the pool allocation must cover the claimed length
                prev = segs[idx - 1]
                if g["layout"] != prev["layout"] or g["nval"] != prev["nval"]:
                    return "%s: the rebuilt container has another layout / value count than its source" % where
                if o[0] != "graphz" and g["AL"] is not True:
                    return "%s: value array allocation smaller than the number of values" % where
            if o[0] in ("clone", "layout", "clonet", "layoutz", "layouta"):
                if g["K"] is None:
                    return "%s: no aliasing observation" % where
                exp = expected_K("layout" if o[0].startswith("layout") else o[0],
                                 int(o[2]) if o[0] == "clonet" else int(o[1]) if o[0] == "clone" else 1, g)
                if g["K"] != exp:
                    return "%s: aliasing flags (val shared, idx shared, src->clone, clone->src) = %s, expected %s" % (
                        where, g["K"], exp)
    return None


def nontrivial(case):
    if is_vec(case):
        return len(case.split()) > 6
    try:
        it, states, ops, tag, k = simulate(case)
    except Exception:
        return False
    if tag == "bad":
        return False
    fmts = {s.fmt for s in states}
    return len(ops) >= 2 or len(fmts) >= 2 or (states[0].fmt != "dense" and states[0].nnz() == 0)


def describe(case):
    if is_vecx(case):
        return ["init:vecx:" + case.split()[2]] + ["op:vec-" + w for w in case.split() if w in ("xclone", "xconv")]
    if is_vec(case):
        return ["init:vec", "op:vperm"]
    try:
        it, states, ops, tag, k = simulate(case)
    except Exception:
        return ["malformed"]
    s0 = states[0]
    keys = ["it:%d" % it, "init:" + s0.fmt, "len:%d" % len(ops)]
    for o in ops:
        keys.append("op:" + o[0] + ((":" + CLONE_NAMES.get(int(o[1]), "?")) if o[0] == "clone" else "")
                    + ((":kind%s" % o[1]) if o[0] in TARGET_OPS else "")
                    + ((":dt%s:it%s:%s" % (o[1], o[2], CLONE_NAMES.get(int(o[3]), "?"))) if o[0] == "xclone" else ""))
    if s0.fmt != "dense" and s0.nnz() == 0:
        keys.append("entry-free")
    if s0.fmt in ("csr", "cscr", "bcsr") and s0.nnz() > 0 and not all(s0.row_has()):
        keys.append("empty-row")
    if s0.rows != s0.cols:
        keys.append("rectangular")
    if s0.rows == 0 or s0.cols == 0:
        keys.append("zero-dimension")
    if tag is not None:
        keys.append("tag:" + ":".join(tag.split(":")[:2 if tag.startswith("defect:") else 1]))
    for a, b in zip(states, states[1:]):
        if a.fmt != b.fmt:
            keys.append("conv:%s->%s" % (a.fmt, b.fmt))
    keys.append("max-dim:%d" % max([max(s.rows, s.cols) for s in states]))
    return keys


def signature(case, out, why):
    """known findings are keyed by the input class of the operation at which the chain stops (c02-edge:Dk); any
    other failure by format + operation + reason"""
    if is_vec(case):
        return "vec:vperm:" + (why or "")[:40]
    try:
        it, states, ops, tag, k = simulate(case)
    except Exception:
        return "malformed:" + (why or "")[:40]
    if tag is not None and tag.startswith("defect:") and is_abnormal(out):
        return "c02-edge:" + tag.split(":")[1]
    last = ops[k][0] if k is not None else (ops[-1][0] if ops else "init")
    return "%s:%s:%s" % (states[-1].fmt, last, (why or "")[:60])


def model_filter(case):
    """the Lean model of the code as it is reproduces every open finding (aborts D7 / D10, crash D5)"""
    if is_vec(case):
        return True
    try:
        it, states, ops, tag, k = simulate(case)
    except Exception:
        return True
    return True      # `Mat.stepCode` / `Mat.crashesX` reproduce the D5 crash of `graph` / `graphz`, the aborts are modelled



# ---------------------------------------------------------------------------------------------
# boundary-sizes sub-stream: the Lean models use unbounded Nat / exact rationals, so narrowing, scratch arrays, allocation
# steps and O(n^2) in-row sorts of the C++ code are only visible to the correspondence - and only if sizes cross them
# ---------------------------------------------------------------------------------------------

def _val(k):
    return Fraction(2 * (k % 17) + 3, 1 + k % 5) * (-1 if k % 3 == 0 else 1)


def _csr(rows, cols, ent):
    """ent: dict (i, j) -> value"""
    rp, ci, val = [0], [], []
    byrow = {}
    for (i, j), v in ent.items():
        byrow.setdefault(i, []).append((j, v))
    for i in range(rows):
        for j, v in sorted(byrow.get(i, [])):
            ci.append(j)
            val.append(v)
        rp.append(len(ci))
    return "csr %d %d %s %s %s" % (rows, cols, fl(rp), fl(ci), flq(val))


def boundary_cases(tier):
    sizes = [127, 128, 129, 255, 256, 257, 1000, 1001]
    big = [32767, 32768, 65535, 65536, 65537] if tier == "thorough" else []
    out = []
    k = 0
    for n in sizes + big:
        it = 32 if n % 2 else 64
        small = n <= 1001
        rev = list(range(n))[::-1]
        rot = [(i + 2) % n for i in range(n)]
        # tall n x 3 and wide 3 x n CSR, entries only at the HIGH end (last rows / highest columns)
        tall = {(n - 1, 0): _val(k), (n - 1, 2): _val(k + 1), (n - 2, 1): _val(k + 2), (n - 3, 0): _val(k + 3), (0, 2): _val(k + 4)}
        wide = {(0, n - 1): _val(k), (2, n - 1): _val(k + 1), (2, n - 2): _val(k + 2), (1, n - 3): _val(k + 3), (2, 0): _val(k + 4)}
        k += 5
        out.append("%d %s 2 tr tr" % (it, _csr(n, 3, tall)))
        out.append("%d %s 2 tri it" % (it, _csr(3, n, wide)))
        out.append("%d %s 2 perm %s %s tr" % (it, _csr(n, 3, tall), fl(rot), fl([2, 0, 1])))
        out.append("%d %s 1 perm %s %s" % (it, _csr(3, n, wide), fl([1, 2, 0]), fl(rev)))
        out.append("%d %s 3 tocscr tocsr xclone 0 1 2" % (it, _csr(n, 3, tall)))          # row_numbers lookup at the high end
        out.append("32 %s 2 it clone 3" % _csr(3, n, wide))                                  # u32 column indices up to n-1
        # CSCR given directly, only the last rows stored
        out.append("%d cscr %d 3 %s %s %s %s 2 tocsr tr" % (it, n, fl([0, 1, 3]), fl([1, 0, 2]), flq([_val(k), _val(k + 1), _val(k + 2)]),
                                                             fl([n - 2, n - 1])))
        # dense n x 2: out-of-place, self and in-place transposes
        dv = [_val(k + t) if t >= 2 * n - 6 else Fraction(0) for t in range(2 * n)]
        out.append("%d dense %d 2 %s 3 tr trs tri" % (it, n, flq(dv)))
        # banded: n x 1 and 1 x n with the two extreme offsets 0 and rows+cols-2, and n x 2 with all offsets near the end
        if small:
            out.append("%d banded %d 1 %s %s 2 tocsr tobanded" % (it, n, fl([0, n - 1]), flq([_val(k + t) if t in (n - 1, n, 2 * n - 1) else Fraction(0) for t in range(2 * n)])))
            out.append("%d banded 1 %d %s %s 2 tocsr tr" % (it, n, fl([0, n - 1]), flq([_val(k), _val(k + 1)])))
            out.append("%d %s 2 tobanded tocsr" % (it, _csr(n, 3, tall)))                  # offsets up to rows + cols - 2
            out.append("%d %s 2 tobanded tocsr" % (it, _csr(3, n, wide)))
            # one row with n entries (>= 256 entries in one row for n >= 256), reversed by the column permutation:
            # worst case of the in-row insertion sort; counting sort with n + 1 buckets
            long_row = {(1, j): _val(k + j) for j in range(n)}
            long_row[(0, n - 1)] = _val(k)
            out.append("%d %s 2 perm %s %s tr" % (it, _csr(2, n, long_row), fl([1, 0]), fl(rev)))
            out.append("%d %s 2 tr tocscr" % (it, _csr(2, n, long_row)))
            # every row stored except two near the end: n - 2 used rows in the CSCR row_numbers lookup, then back to CSR
            many = {(i, i % 2): _val(k + i) for i in range(n) if i not in (n - 3, n - 5)}
            out.append("%d %s 3 tocscr tocsr tr" % (it, _csr(n, 2, many)))
            # vectors: permutation of n entries, SparseVector beyond its 1000-slot allocation step
            out.append("%d vec %s 1 vperm %s" % (it, flq([_val(t) for t in range(n)]), fl(rot)))
            out.append("%d vecx sv %d %s %s 2 xclone 0 1 2 xconv 1 1" % (it, n + 7, fl(list(range(7, n + 7))), flq([_val(t) for t in range(n)])))
            out.append("%d vecx dv %s 1 xclone 0 1 3" % (it, flq([_val(t) for t in range(n)])))
        k += 8
    # one cheap case beyond 2^16 also in the quick tier: u32 column indices 65535 / 65536 through the index-type round trip
    w = {(0, 65536): _val(1), (1, 65535): _val(2), (1, 65536): _val(3), (0, 0): _val(4)}
    out.append("32 %s 1 it" % _csr(2, 65537, w))
    # allocation rounding of MemoryPool (multiples of 4 elements): value / index arrays of 1..9 elements
    for nnz in range(1, 10):
        ent = {(t // 3, t % 3): _val(t) for t in range(nnz)}
        out.append("32 %s 3 clone 3 tr tocscr" % _csr(3, 3, ent))
    return out


def permuted_rows_cases():
    """rows with 3..6 entries (CSR) / blocks (BCSR) under ALL column permutations (in-row re-sort: elements moved by
    >= 2 slots), with a second shorter row; 6 + 24 + 120 + 720 permutations per format"""
    out = []
    for nb in (3, 4, 5, 6):
        ent = {(0, j): _val(j) for j in range(nb)}
        ent.update({(1, j): _val(10 + j) for j in range(1, nb)})
        c = _csr(2, nb, ent)
        bh, bw = (2, 3) if nb % 2 else (2, 2)
        nblk = 2 * nb - 1
        b = "bcsr %d %d 2 %d %s %s %s" % (bh, bw, nb, fl([0, nb, nblk]), fl(list(range(nb)) + list(range(1, nb))),
                                          flq([_val(t) for t in range(nblk * bh * bw)]))
        for q in itertools.permutations(range(nb)):
            out.append("32 %s 1 perm %s %s" % (c, fl([1, 0]), fl(list(q))))
            out.append("64 %s 1 perm %s %s" % (b, fl([1, 0]), fl(list(q))))
    return out


def describe_boundary(case):
    t = case.split()
    dims = []
    if t[1] in ("vec", "vecx"):
        dims = [int(t[2])] if t[1] == "vec" else [int(t[3])]
        kind = t[1]
    elif t[1] == "bcsr":
        dims = [int(t[4]), int(t[5])]
        kind = "bcsr-row-blocks"
    else:
        dims = [int(t[2]), int(t[3])]
        kind = t[1]
    return ["size:%d" % max(dims), "fmt:" + kind] + ["op:" + w for w in set(t) if w in (
        "tr", "trs", "tri", "perm", "tocsr", "tocscr", "tobanded", "it", "xclone", "xconv", "vperm", "clone")]


def canon(out):
    if out.startswith("ABORT"):
        return "ABORT"
    if out.startswith("SIGNAL:11") or out.startswith("EXC:"):
        return "CRASH"          # the model of the code as it is says CRASH for the classes D1 / D3 / D5
    return out


def main(argv):
    args = vlib.std_args(argv)
    t0 = time.time()
    rng = random.Random(args.seed * 1000003 + 2)
    lean = None if args.no_lean else vlib.lean_check(PROP, leanchecker=(args.tier == "thorough"))
    binary, err = vlib.build_harness("c02", os.path.join(vlib.VERIF, "harness", "c02", "main.cpp"))
    if binary is None:
        v = [{"property": PROP, "kind": "harness-build-failure", "detail": err, "failing_input": None,
              "broken": "harness c02 does not compile against the current tree"}]
        return vlib.finish(PROP, args.tier, args.seed, t0, lean, [], [], v, [])
    if args.replay:
        cases = [json.load(open(args.replay))["input"]]
    else:
        extra = []
        cdir = os.path.join(vlib.CORPUS, "c02")
        if os.path.isdir(cdir):
            for fn in sorted(os.listdir(cdir)):
                extra += [l.strip() for l in open(os.path.join(cdir, fn)) if l.strip() and not l.startswith("#")]
        cases = CORPUS + extra + perm_enumeration() + (gen_cases(rng, 6000) if args.tier == "quick" else gen_cases(rng, 150000, big=True))
    st = vlib.Stream("chains", cases, [binary], vlib.driver_cmd(PROP), oracle=oracle, nontrivial=nontrivial,
                     describe=describe, signature=signature, canon=canon, model_filter=model_filter)
    streams = [st]
    if not args.replay:
        # sizes / indices / counts just below, at and above 128, 256, 1000 (thorough: 32768, 65536 = 2^16 for the u32
        # index type), the content at the high end; rows with 3..6 entries / blocks under all column permutations
        bcases = boundary_cases(args.tier) + permuted_rows_cases()
        streams.append(vlib.Stream("boundary-sizes", bcases, [binary], vlib.driver_cmd(PROP), oracle=oracle,
                                   nontrivial=lambda c: True, describe=describe_boundary, signature=signature, canon=canon,
                                   model_filter=model_filter))
    stats_rule = ("random matrices in CSR / CSCR / banded / BCSR(2x2,2x3,3x2) / dense form (dims 0..6, thorough ..14; entry-free, "
                  "single entry, empty rows in leading/middle/trailing position, rectangular, all band sets) followed by "
                  "chains of 0..12 operations (format conversion, the 4 clone modes, layout/graph rebuild, transpose in and "
                  "out of place, row/column permutation, index- and data-type round trips, and the two-argument members "
                  "transpose/convert/clone/copy called on the object itself or on a pre-existing target: fresh, same shape, "
                  "transposed shape, other shape, shallow clone of the source - source and target are both judged; cross-type clone "
                  "chains X<Q,IT> -> X<DT2,IT2> -> X<Q,IT> for every format, type combination and the 5 clone modes with "
                  "write-after-clone and format-source observations); non-trivial = chain length >= 2 "
                  "or a format change or an entry-free matrix")
    rc = vlib.run_pipeline(PROP, args.tier, args.seed, lean, streams, t0, assumptions=[
        "Index / IT_ (u32, u64) / array sizes are modelled as unbounded Nat and scalars as exact rationals: narrowing casts IT_(...), "
        "scratch arrays (transpose's counting-sort buckets, permute's new IT_[rows+1] / new DT_[nnz]), MemoryPool's rounding of "
        "allocations to multiples of 4, SparseVector's 1000-slot allocation step, the O(n^2) in-row insertion sort and the CSCR "
        "row_numbers search are invisible to the theorems; the boundary-sizes stream (sizes 127..1001, thorough ..65537, content at "
        "the high end) is what ties them; index values >= 2^32 are not reachable (memory)",
        "data-type round trip Q -> double -> float -> Q: compared exactly against truncation to 53 bits followed by "
        "round-to-nearest-even to 24 bits (what mpq_get_d and the C cast do); exponent range not exercised",
        "index-type round trip u32 <-> u64: every index that can occur is < 2^32 (dimensions of allocatable matrices), "
        "the model passes them through mod 2^32 (C02.stepX_itx_eq: identity when they fit)",
        "input classes of the open known findings c02-edge:D5/D7/D10 are generated and judged; the model of the code "
        "as it is reproduces all of them (aborts D7 / D10, crash D5 through `graph` and `graphz`)",
        "a target that is a shallow clone of the source may show the result in the source as well (documented sharing "
        "of the data arrays); every other source must be unchanged after a two-argument member call"],
        extra_cov={"rule": stats_rule})
    return rc
