"""C03 - matrix algebra operations equal their dense definitions.

Two streams: `matalg` (the regular input classes) and `edge` (an input class on which the *property* fails on the
current tree; it is executed and judged on every run, the failures carry the signature below and are matched against
the open entries of KNOWN_FINDINGS.json by vlib.run_pipeline; full text in FINDINGS_C03.md):

 c03-edge:F3  any operand is an entry-free matrix (array-less SparseMatrixCSR/BCSR(rows, cols)): the row-loop members
              and max/min(_abs)_element dereference null arrays.  Oracle: a valid entry-free matrix must not crash,
              the results are the zero / empty results.  The Lean model returns the zero results and is not compared
              on this class.

Formerly c03-edge:F1 (BCSR row_norm2 took the square root per block), c03-edge:F2 (CSR scaled row_norm2sqr used
scal[row]) and c03-edge:F4 (BCSR extract_diag accepted non-square blocks and read m[i][i] outside the block) are fixed
in /repo (371e809c8, 43103d013, 214562810); the non-square-block extract_diag inputs stay in the edge stream as ordinary
"must be reported" cases, compared with the model; their input classes (several blocks per row; general scal with
rows <, =, > cols) are part of the regular stream and their original inputs are in the corpus.
"""
import json
import math
import os
import random
import time
from fractions import Fraction

import vlib

PROP = "C03"
BLOCKS = [(2, 2), (3, 3), (2, 3), (3, 2)]
SQUARE_BLOCKS = [(2, 2), (3, 3)]


# ---------------------------------------------------------------------------------------------
# helpers
# ---------------------------------------------------------------------------------------------

def fs(q):
    return vlib.frac_str(Fraction(q))


def fl(v):
    return ("%d " % len(v) + " ".join(fs(q) for q in v)).strip()


def nl(v):
    return ("%d " % len(v) + " ".join(map(str, v))).strip()


def qsqrt(x):
    """harness/common/exact_q.hpp q_sqrt: floor(sqrt(n*d*2^80)) / (d*2^40)"""
    n, d = x.numerator, x.denominator
    return Fraction(math.isqrt((n * d) << 80), d << 40)


def rval(rng, nonzero=False):
    while True:
        q = Fraction(rng.randint(-9, 9), rng.choice([1, 1, 1, 2, 3, 4, 7]))
        if q != 0 or not nonzero:
            return q


def ralpha(rng):
    k = rng.random()
    if k < 0.12:
        return Fraction(0)
    if k < 0.3:
        return Fraction(1)
    if k < 0.4:
        return Fraction(-1)
    return rval(rng, nonzero=True) * rng.choice([1, 1, 1, 10, Fraction(1, 100)])


class Mat:
    """sparse matrix as generated: pat = list of sorted column lists, vals = list (per row) of lists of values
    (scalars, or blocks = lists of bh*bw scalars)"""

    def __init__(self, rows, cols, pat, vals, bh=1, bw=1, blocked=False):
        self.rows, self.cols, self.pat, self.vals = rows, cols, pat, vals
        self.bh, self.bw, self.blocked = bh, bw, blocked

    def nnz(self):
        return sum(len(r) for r in self.pat)

    def flat(self):
        out = []
        for r in self.vals:
            for v in r:
                if self.blocked:
                    out.extend(v)
                else:
                    out.append(v)
        return out

    def tok(self):
        rp, ci = [0], []
        for r in self.pat:
            ci.extend(r)
            rp.append(len(ci))
        return "%d %d %s %s %s" % (self.rows, self.cols, nl(rp), nl(ci), fl(self.flat()))


def gen_pattern(rng, rows, cols, style=None):
    if rows == 0 or cols == 0:
        return [[] for _ in range(rows)]
    style = style or rng.choice(["one", "sparse", "sparse", "sparse", "dense", "full", "diag", "diagplus", "lastcol",
                                 "firstcol", "emptyrows"])
    pat = [[] for _ in range(rows)]
    if style == "one":
        pat[rng.randrange(rows)] = [rng.randrange(cols)]
    elif style in ("sparse", "dense", "emptyrows"):
        dens = {"sparse": rng.choice([0.15, 0.3]), "dense": 0.6, "emptyrows": 0.5}[style]
        pe = 0.5 if style == "emptyrows" else 0.15
        for i in range(rows):
            if rng.random() < pe:
                continue
            pat[i] = [j for j in range(cols) if rng.random() < dens]
    elif style == "full":
        pat = [list(range(cols)) for _ in range(rows)]
    elif style == "diag":
        pat = [[i] if i < cols else [] for i in range(rows)]
    elif style == "diagplus":
        pat = [sorted({j for j in range(cols) if rng.random() < 0.25} | ({i} if i < cols and rng.random() < 0.8 else set()))
               for i in range(rows)]
    elif style == "upper":        # strictly upper triangular: no row has a diagonal entry, some have entries right of it
        pat = [[j for j in range(i + 1, cols) if rng.random() < 0.6] for i in range(rows)]
    elif style == "lower":        # strictly lower triangular
        pat = [[j for j in range(min(i, cols)) if rng.random() < 0.6] for i in range(rows)]
    elif style == "noself":       # dense without any (i, i)
        pat = [[j for j in range(cols) if j != i and rng.random() < 0.6] for i in range(rows)]
    elif style == "somediag":     # upper / lower / both sides, the diagonal entry present in about half of the rows
        pat = [sorted({j for j in range(cols) if j != i and rng.random() < 0.4} | ({i} if i < cols and rng.random() < 0.5 else set()))
               for i in range(rows)]
    elif style == "lastcol":
        pat = [[cols - 1] if rng.random() < 0.7 else [] for _ in range(rows)]
    elif style == "firstcol":
        pat = [[0] if rng.random() < 0.7 else [] for _ in range(rows)]
    return pat


def gen_vals(rng, pat, bh=1, bw=1, blocked=False, pzero=0.15):
    def one():
        return rval(rng, nonzero=rng.random() > pzero)
    if blocked:
        return [[[one() for _ in range(bh * bw)] for _ in r] for r in pat]
    return [[one() for _ in r] for r in pat]


def gen_mat(rng, rows, cols, bh=1, bw=1, blocked=False, style=None, need_entries=True):
    for _ in range(50):
        pat = gen_pattern(rng, rows, cols, style)
        if not need_entries or sum(len(r) for r in pat) > 0:
            break
        style = None
    else:
        pat = [[] for _ in range(rows)]
        if rows and cols:
            pat[0] = [0]
    return Mat(rows, cols, pat, gen_vals(rng, pat, bh, bw, blocked), bh, bw, blocked)


def same_layout(rng, m):
    return Mat(m.rows, m.cols, m.pat, gen_vals(rng, m.pat, m.bh, m.bw, m.blocked), m.bh, m.bw, m.blocked)


def rdim(rng, sizes, allow0=False):
    while True:
        n = rng.choice(sizes)
        if n > 0 or allow0:
            return n


def product_pattern(rows, chain):
    """structural pattern of the product of the patterns in `chain` (list of pattern lists)"""
    out = []
    for i in range(rows):
        cur = {i}
        for k, p in enumerate(chain):
            nxt = set()
            for c in cur:
                nxt |= set(p[c])
            cur = nxt
        out.append(sorted(cur))
    return out


def x_pattern(rng, prod, cols):
    """pattern of X relative to the product pattern: exact / richer / poorer / disjoint / random / full"""
    style = rng.choice(["exact", "exact", "richer", "richer", "poorer", "poorer1", "disjoint", "random", "full", "mixed", "overlap"])
    pat = []
    for r in prod:
        s = set(r)
        st = style if style != "mixed" else rng.choice(["exact", "richer", "poorer", "disjoint", "full", "overlap"])
        if st == "richer":
            s |= {j for j in range(cols) if rng.random() < 0.35}
        elif st == "poorer":
            s = {j for j in s if rng.random() < 0.6}
        elif st == "overlap":
            s = {j for j in s if rng.random() < 0.6} | {j for j in range(cols) if rng.random() < 0.3}
        elif st == "poorer1":
            if s and rng.random() < 0.5:
                s.discard(rng.choice([min(s), max(s), rng.choice(sorted(s))]))
        elif st == "disjoint":
            s = {j for j in range(cols) if j not in s and rng.random() < 0.5}
        elif st == "random":
            s = {j for j in range(cols) if rng.random() < 0.4}
        elif st == "full":
            s = set(range(cols))
        pat.append(sorted(s))
    if style == "poorer1" and rng.random() < 0.5 and pat:
        # X richer at the front/back but missing one product entry in the middle
        i = rng.randrange(len(pat))
        pat[i] = sorted(set(pat[i]) | ({0} if cols else set()))
    return pat, style


def ensure_entries(rng, pat, cols):
    if sum(len(r) for r in pat) == 0 and pat and cols:
        pat[rng.randrange(len(pat))] = [rng.randrange(cols)]
    return pat


# ---------------------------------------------------------------------------------------------
# case generation
# ---------------------------------------------------------------------------------------------

def gen_product(rng, sizes, fmt, blk):
    bh, bw = blk
    blocked = fmt == "bcsr"
    if blocked:
        op = rng.choice(["dmm", "dmm_csr"])
    else:
        op = rng.choice(["mm", "mm", "dmm", "dmm", "dgm"])
    m, k, l, n = (rdim(rng, sizes) for _ in range(4))
    if op in ("mm", "dgm"):
        l = k
    dblk = blocked and op == "dmm"
    D = gen_mat(rng, m, k, bh, bw, dblk)
    B = gen_mat(rng, l, n, bh, bw, dblk)
    A = gen_mat(rng, k, l, bh, bw, blocked) if op in ("dmm", "dmm_csr") else None
    chain = [D.pat] + ([A.pat] if A is not None else []) + [B.pat]
    prod = product_pattern(m, chain)
    xp, _ = x_pattern(rng, prod, n)
    xp = ensure_entries(rng, xp, n)
    X = Mat(m, n, xp, gen_vals(rng, xp, bh, bw, blocked), bh, bw, blocked)
    allow = rng.choice([0, 1])
    # a sprinkle of dimension mismatches (must be reported by XASSERT)
    if rng.random() < 0.03:
        which = rng.choice(["X", "D", "B"])
        if which == "X":
            X = gen_mat(rng, m + 1, n, bh, bw, blocked)
        elif which == "D":
            D = gen_mat(rng, m, k + 1, bh, bw, dblk)
        else:
            B = gen_mat(rng, l + 1, n, bh, bw, dblk)
    alpha = ralpha(rng)
    head = "%s %d " % (fmt, rng.choice([32, 64])) + ("%d %d " % (bh, bw) if blocked else "")
    if op == "mm":
        return head + "mm %s %s %s %s %d" % (X.tok(), D.tok(), B.tok(), fs(alpha), allow)
    if op == "dgm":
        a = [rval(rng) for _ in range(k)]
        return head + "dgm %s %s %s %s %s %d" % (X.tok(), D.tok(), fl(a), B.tok(), fs(alpha), allow)
    return head + "%s %s %s %s %s %s %d" % (op, X.tok(), D.tok(), A.tok(), B.tok(), fs(alpha), allow)


def gen_case(rng, sizes):
    fmt = "csr" if rng.random() < 0.65 else "bcsr"
    blocked = fmt == "bcsr"
    bh, bw = rng.choice(BLOCKS) if blocked else (1, 1)
    if blocked:
        sizes = [s for s in sizes if s <= 8] or [1, 2, 3]
    head = "%s %d " % (fmt, rng.choice([32, 64])) + ("%d %d " % (bh, bw) if blocked else "")
    k = rng.random()
    if k < 0.45:
        return gen_product(rng, sizes, fmt, rng.choice(SQUARE_BLOCKS) if blocked else (1, 1))
    rows, cols = rdim(rng, sizes), rdim(rng, sizes)
    if rng.random() < 0.3:
        cols = rows
    if k < 0.60:
        op = rng.choice(["axpy", "scale", "scale_rows", "scale_cols"])
        T = gen_mat(rng, rows, cols, bh, bw, blocked)
        X = same_layout(rng, T)
        alias = 1 if rng.random() < 0.3 else 0
        mism = rng.random() < 0.04
        if mism:
            X = gen_mat(rng, rows, cols + 1, bh, bw, blocked)
            alias = 0
        if op in ("axpy", "scale"):
            return head + "%s %s %s %s %d" % (op, T.tok(), X.tok(), fs(ralpha(rng)), alias)
        ns = rows * bh if op == "scale_rows" else cols * bw
        if rng.random() < 0.03:
            ns += bh if op == "scale_rows" else bw      # one block too many
        s = [rval(rng) for _ in range(ns)]
        return head + "%s %s %s %s %d" % (op, T.tok(), X.tok(), fl(s), alias)
    if k < 0.70:
        # square: extract_diag
        if blocked and bh != bw:
            bh = bw = rng.choice([2, 3])
            head = "%s %d %d %d " % (fmt, rng.choice([32, 64]), bh, bw)
        n = rows
        A = gen_mat(rng, n, n if rng.random() > 0.03 else n + 1, bh, bw, blocked,
                    style=rng.choice(["diag", "diagplus", "diagplus", "sparse", "full", "firstcol", "lastcol", "upper", "upper",
                                      "lower", "lower", "noself", "somediag", "somediag"]))
        return head + "diag %s" % A.tok()
    if k < 0.86:
        op = rng.choice(["lump", "rownorm2", "rownorm2sqr", "rownorm2sqr_s", "frob"])
        A = gen_mat(rng, rows, cols, bh, bw, blocked)
        if op == "rownorm2" and blocked and cols >= 2 and rng.random() < 0.5:
            # several blocks per row (the class of the former finding c03-edge:F1)
            A = gen_mat(rng, rows, cols, bh, bw, True, style=rng.choice(["full", "dense", "diagplus"]))
        if op == "rownorm2sqr_s":
            # scal has one entry per (scalar) column; rows < cols, rows == cols and rows > cols all occur
            # (the class of the former finding c03-edge:F2)
            s = [rval(rng) for _ in range(cols * bw)]
            return head + "rownorm2sqr_s %s %s" % (A.tok(), fl(s))
        return head + "%s %s" % (op, A.tok())
    if k < 0.94 or blocked:
        op = rng.choice(["maxabs", "minabs", "max", "min"])
        A = gen_mat(rng, rows, cols, bh, bw, blocked)
        if rng.random() < 0.3:
            # ties and sign patterns: few distinct magnitudes
            pool = [Fraction(2), Fraction(-2), Fraction(1), Fraction(-1), Fraction(0)]
            if blocked:
                A.vals = [[[rng.choice(pool) for _ in b] for b in r] for r in A.vals]
            else:
                A.vals = [[rng.choice(pool) for _ in r] for r in A.vals]
        return head + "%s %s" % (op, A.tok())
    A = gen_mat(rng, rows, cols)
    eps = rng.choice([Fraction(0), Fraction(1), Fraction(2), Fraction(3, 2), Fraction(100), abs(rval(rng)), Fraction(-1)])
    return head + "shrink %s %s" % (A.tok(), fs(eps))


def gen_cases(rng, count, sizes):
    return [gen_case(rng, sizes) for _ in range(count)]


CORPUS = [
    # X = product pattern, richer, poorer (allow / not), end-of-row-of-X, X > B first, empty rows of D
    "csr 64 mm 1 1 2 0 1 1 0 1 1/1 1 1 2 0 1 1 0 1 2/1 1 1 2 0 1 1 0 1 3/1 1/1 0",
    "csr 64 mm 1 3 2 0 2 2 0 2 2 1/1 1/1 1 1 2 0 1 1 0 1 2/1 1 3 2 0 3 3 0 1 2 3 1/1 1/1 1/1 1/1 0",
    "csr 64 mm 1 3 2 0 2 2 0 2 2 1/1 1/1 1 1 2 0 1 1 0 1 2/1 1 3 2 0 3 3 0 1 2 3 1/1 1/1 1/1 1/1 1",
    "csr 32 mm 1 3 2 0 1 1 1 1 5/1 1 1 2 0 1 1 0 1 2/1 1 3 2 0 2 2 0 2 2 1/1 1/1 1/2 1",
    "csr 32 mm 1 3 2 0 1 1 1 1 5/1 1 1 2 0 1 1 0 1 2/1 1 3 2 0 2 2 0 2 2 1/1 1/1 1/2 0",
    "csr 32 mm 1 3 2 0 1 1 0 1 5/1 1 1 2 0 1 1 0 1 2/1 1 3 2 0 2 2 1 2 2 1/1 1/1 1/2 1",
    "csr 64 mm 2 2 3 0 1 2 2 0 1 2 1/1 1/1 2 2 3 0 0 1 1 0 1 3/1 2 2 3 0 1 2 2 0 1 2 1/1 1/1 -1/1 0",
    "csr 64 dmm 2 2 3 0 2 4 4 0 1 0 1 4 1/1 2/1 3/1 4/1 2 2 3 0 1 2 2 0 1 2 1/1 1/1 2 2 3 0 2 3 3 0 1 1 3 1/1 2/1 3/1 "
    "2 2 3 0 1 2 2 1 0 2 5/1 7/1 2/1 0",
    "csr 64 dgm 2 2 3 0 2 4 4 0 1 0 1 4 1/1 2/1 3/1 4/1 2 2 3 0 1 2 2 0 1 2 1/1 1/1 2 3/1 5/1 2 2 3 0 2 3 3 0 1 1 3 "
    "1/1 2/1 3/1 2/1 0",
    "csr 64 mm 1 2 2 0 1 1 0 1 1/1 2 1 3 0 1 1 1 0 1 2/1 1 2 2 0 1 1 0 1 3/1 1/1 0",
    "csr 64 axpy 2 2 3 0 1 2 2 0 1 2 1/1 2/1 2 2 3 0 1 2 2 0 1 2 3/1 4/1 2/1 0",
    "csr 64 axpy 2 2 3 0 1 2 2 0 1 2 1/1 2/1 2 2 3 0 1 2 2 0 1 2 3/1 4/1 2/1 1",
    "csr 32 scale 2 2 3 0 1 2 2 0 1 2 1/1 2/1 2 2 3 0 1 2 2 0 1 2 3/1 4/1 -1/2 1",
    "csr 32 scale_rows 2 3 3 0 2 3 3 0 2 1 3 1/1 2/1 3/1 2 3 3 0 2 3 3 0 2 1 3 4/1 5/1 6/1 2 2/1 3/1 0",
    "csr 32 scale_cols 2 3 3 0 2 3 3 0 2 1 3 1/1 2/1 3/1 2 3 3 0 2 3 3 0 2 1 3 4/1 5/1 6/1 3 2/1 3/1 5/1 0",
    "csr 64 lump 3 3 4 0 2 2 3 3 0 2 1 3 1/1 2/1 3/1",
    "csr 64 diag 3 3 4 0 2 2 3 3 0 2 1 3 1/1 2/1 3/1",
    "csr 64 diag 3 3 4 0 2 3 5 5 0 2 1 1 2 5 1/1 2/1 3/1 4/1 5/1",
    "csr 64 frob 2 2 3 0 1 2 2 0 1 2 3/1 4/1",
    "csr 64 rownorm2 2 2 3 0 2 2 2 0 1 2 3/1 4/1",
    "csr 64 rownorm2sqr 2 2 3 0 2 2 2 0 1 2 3/1 4/1",
    "csr 64 maxabs 2 2 3 0 1 2 2 0 1 2 3/1 -4/1",
    "csr 64 minabs 2 2 3 0 1 2 2 0 1 2 3/1 -4/1",
    "csr 64 max 2 2 3 0 1 2 2 0 1 2 -3/1 -4/1",
    "csr 64 min 2 2 3 0 1 2 2 0 1 2 3/1 4/1",
    "csr 64 shrink 2 2 3 0 1 2 2 0 1 2 3/1 -1/2 1/1",
    "csr 64 shrink 2 2 3 0 1 2 2 0 1 2 1/3 -1/2 1/1",
    "csr 64 shrink 3 2 4 0 2 2 3 3 0 1 1 3 1/1 1/1 -1/1 1/1",
    # entry-free matrices (array-less SparseMatrixCSR(rows, cols)) where the code has no row loop over them
    "csr 64 frob 2 2 3 0 0 0 0 0",
    "csr 64 axpy 2 2 3 0 0 0 0 0 2 2 3 0 0 0 0 0 2/1 0",
    "csr 64 scale 2 3 3 0 0 0 0 0 2 3 3 0 0 0 0 0 2/1 1",
    "csr 64 lump 0 2 1 0 0 0",
    "csr 32 rownorm2sqr 0 0 1 0 0 0",
    "bcsr 64 2 2 lump 1 1 2 0 1 1 0 4 1/1 2/1 3/1 4/1",
    "bcsr 64 2 3 rownorm2sqr 1 1 2 0 1 1 0 6 1/1 2/1 3/1 4/1 5/1 6/1",
    "bcsr 64 2 2 rownorm2 1 1 2 0 1 1 0 4 3/1 4/1 0/1 1/1",
    # the inputs of the former findings c03-edge:F1 / F2 (fixed in /repo: 371e809c8, 43103d013); documented results
    # "V 2 5/1 0/1" (sqrt(3^2 + 4^2) over two blocks) and "V 2 5/1 0/1" (2*1 + 3*1), rows > cols and rows < cols too
    "bcsr 64 2 2 rownorm2 1 2 2 0 2 2 0 1 8 3/1 0/1 0/1 0/1 4/1 0/1 0/1 0/1",
    "csr 64 rownorm2sqr_s 2 2 3 0 2 2 2 0 1 2 1/1 1/1 2 2/1 3/1",
    "csr 64 rownorm2sqr_s 3 2 4 0 2 2 3 3 0 1 1 3 1/1 2/1 3/1 2 2/1 5/1",
    "csr 64 rownorm2sqr_s 1 3 2 0 2 2 0 2 2 1/1 2/1 3 2/1 7/1 5/1",
    "bcsr 64 2 2 diag 1 1 2 0 1 1 0 4 1/1 2/1 3/1 4/1",
    "bcsr 32 2 2 dmm 1 1 2 0 1 1 0 4 1/1 0/1 0/1 1/1 1 1 2 0 1 1 0 4 1/1 2/1 3/1 4/1 1 1 2 0 1 1 0 4 0/1 1/1 1/1 0/1 "
    "1 1 2 0 1 1 0 4 2/1 0/1 0/1 3/1 1/2 0",
    "bcsr 32 2 2 dmm_csr 1 1 2 0 1 1 0 4 1/1 0/1 0/1 1/1 1 1 2 0 1 1 0 1 2/1 1 1 2 0 1 1 0 4 0/1 1/1 1/1 0/1 "
    "1 1 2 0 1 1 0 1 3/1 1/2 0",
]


# ---------------------------------------------------------------------------------------------
# deterministic corner cases of the five sorted-merge products (always part of the corpus, every tier)
# ---------------------------------------------------------------------------------------------

def corner_cases():
    """Every product (CSR mm / dmm / dgm, BCSR dmm / dmm_csr) x allow_incomplete in {0,1} x the pattern relations that
    steer the branches of the merge loop: the column X lacks lies to the RIGHT of every stored column of the row (the
    "row of X exhausted" branch), to the left / in the middle (the "X > B" branch), an empty row of X, empty rows of D,
    A, B, X exhausted by its last entry, complete and richer patterns.  Values are fixed non-zero rationals."""
    cnt = [0]

    def val():
        cnt[0] += 1
        return Fraction(cnt[0] % 7 + 1, cnt[0] % 3 + 1) * (-1 if cnt[0] % 4 == 0 else 1)

    def mk(rows, cols, pat, bh=1, bw=1, blocked=False):
        vals = [[[val() for _ in range(bh * bw)] if blocked else val() for _ in r] for r in pat]
        return Mat(rows, cols, pat, vals, bh, bw, blocked)

    # name: (D pattern 2x2, A pattern 2x2, B pattern 2x3, X pattern 2x3)
    full = [[0, 1, 2], [0, 1, 2]]
    scen = {
        "right-missing": ([[0, 1], [1]], [[0], [1]], [[0, 2], [1, 2]], [[0, 1], [1]]),
        "right-missing-row0-only": ([[0, 1], [1]], [[0], [1]], [[0, 2], [1, 2]], [[0, 1], [1, 2]]),
        "x-row-exhausted-by-last": ([[0, 1], [1]], [[0], [1]], [[0, 2], [1, 2]], [[0], [1]]),
        "empty-x-row": ([[0, 1], [1]], [[0], [1]], [[0, 2], [1, 2]], [[0, 1, 2], []]),
        "empty-x-row0": ([[0, 1], [1]], [[0], [1]], [[0, 2], [1, 2]], [[], [1, 2]]),
        "empty-d-row": ([[0, 1], []], [[0], [1]], [[0, 2], [1, 2]], [[0, 1, 2], [0]]),
        "empty-a-row": ([[0, 1], [1]], [[0], []], [[0, 2], [1, 2]], [[0, 2], [1]]),
        "empty-b-row": ([[0, 1], [1]], [[0], [1]], [[0, 2], []], [[0, 2], [1]]),
        "empty-b-row-x-richer": ([[0, 1], [1]], [[0], [1]], [[], [1, 2]], full),
        "left-missing": ([[0, 1], [1]], [[0], [1]], [[0, 2], [1, 2]], [[1, 2], [1, 2]]),
        "middle-missing": ([[0, 1], [1]], [[0], [1]], [[0, 1, 2], [1]], [[0, 2], [1]]),
        "complete-exact": ([[0, 1], [1]], [[0], [1]], [[0, 2], [1, 2]], [[0, 1, 2], [1, 2]]),
        "complete-richer": ([[0, 1], [1]], [[0], [1]], [[0, 2], [1, 2]], full),
        "a-offdiag": ([[0], [1]], [[1], [0]], [[0], [2]], [[2], [0]]),
        "a-offdiag-right-missing": ([[0], [1]], [[1], [0]], [[0], [1, 2]], [[1], [0]]),
    }
    out = []
    for name, (dp, ap, bp, xp) in scen.items():
        for allow in (0, 1):
            alpha = fs(Fraction(2))
            for op in ("mm", "dmm", "dgm"):
                if op != "dmm" and name.startswith(("empty-a", "a-offdiag")):
                    continue
                X, D, B = mk(2, 3, xp), mk(2, 2, dp), mk(2, 3, bp)
                if op == "mm":
                    out.append("csr 64 mm %s %s %s %s %d" % (X.tok(), D.tok(), B.tok(), alpha, allow))
                elif op == "dgm":
                    out.append("csr 32 dgm %s %s %s %s %s %d" % (X.tok(), D.tok(), fl([val(), val()]), B.tok(), alpha, allow))
                else:
                    out.append("csr 64 dmm %s %s %s %s %s %d" % (X.tok(), D.tok(), mk(2, 2, ap).tok(), B.tok(), alpha, allow))
            for bs in (2, 3):
                X = mk(2, 3, xp, bs, bs, True)
                out.append("bcsr 64 %d %d dmm %s %s %s %s %s %d" % (
                    bs, bs, X.tok(), mk(2, 2, dp, bs, bs, True).tok(), mk(2, 2, ap, bs, bs, True).tok(),
                    mk(2, 3, bp, bs, bs, True).tok(), alpha, allow))
                X = mk(2, 3, xp, bs, bs, True)
                out.append("bcsr 32 %d %d dmm_csr %s %s %s %s %s %d" % (
                    bs, bs, X.tok(), mk(2, 2, dp).tok(), mk(2, 2, ap, bs, bs, True).tok(), mk(2, 3, bp).tok(), alpha, allow))
    # extract_diag: rows with only upper / only lower / both-sided entries without (i, i), empty rows, full diagonal
    dpats = {
        "strict-upper": [[1, 2], [2], []],
        "strict-lower": [[], [0], [0, 1]],
        "no-self": [[1, 2], [0, 2], [0, 1]],
        "upper-only-row-then-diag": [[1], [1], [0, 2]],
        "diag-last-in-row": [[0], [0, 1], [0, 1, 2]],
        "diag-first-in-row": [[0, 1, 2], [1, 2], [2]],
        "empty-rows": [[], [1], []],
        "right-neighbour-only": [[1], [2], [0]],
    }
    for name, pat in dpats.items():
        out.append("csr 64 diag %s" % mk(3, 3, pat).tok())
        out.append("csr 32 diag %s" % mk(3, 3, pat).tok())
        for bs in (2, 3):
            out.append("bcsr 64 %d %d diag %s" % (bs, bs, mk(3, 3, pat, bs, bs, True).tok()))
    return out


# ---------------------------------------------------------------------------------------------
# independent oracle: dense Fraction meaning of the stored arrays, the textbook formula, restricted to the pattern
# ---------------------------------------------------------------------------------------------

class Tk:
    def __init__(self, s):
        self.t = s.split()
        self.p = 0

    def tok(self):
        self.p += 1
        return self.t[self.p - 1]

    def nat(self):
        return int(self.tok())

    def nats(self):
        return [self.nat() for _ in range(self.nat())]

    def frac(self):
        return vlib.parse_frac(self.tok())

    def fracs(self):
        return [self.frac() for _ in range(self.nat())]

    def done(self):
        return self.p >= len(self.t)


class PM:
    """parsed matrix: raw arrays + dense scalar meaning"""

    def __init__(self, c, bh=1, bw=1):
        self.rows, self.cols = c.nat(), c.nat()
        self.rp, self.ci, self.val = c.nats(), c.nats(), c.fracs()
        self.bh, self.bw = bh, bw
        self.nb = len(self.ci)
        bs = bh * bw
        assert len(self.rp) == self.rows + 1 and self.rp[0] == 0 and self.rp[-1] == self.nb
        assert len(self.val) == self.nb * bs
        self.pat = [self.ci[self.rp[i]:self.rp[i + 1]] for i in range(self.rows)]
        for r in self.pat:
            assert all(a < b for a, b in zip(r, r[1:])) and all(0 <= j < self.cols for j in r)
        self.dense = {}
        for i in range(self.rows):
            for k in range(self.rp[i], self.rp[i + 1]):
                for h in range(bh):
                    for w in range(bw):
                        self.dense[(i * bh + h, self.ci[k] * bw + w)] = self.val[k * bs + h * bw + w]

    def get(self, i, j):
        return self.dense.get((i, j), Fraction(0))

    def shape(self):
        return (self.rows, self.cols, self.nb)


def dense_mul(a, b):
    """product of two dict-dense matrices"""
    brow = {}
    for (k, j), v in b.items():
        brow.setdefault(k, []).append((j, v))
    out = {}
    for (i, k), v in a.items():
        for j, w in brow.get(k, ()):
            out[(i, j)] = out.get((i, j), Fraction(0)) + v * w
    return out


class Case:
    def __init__(self, line):
        c = Tk(line)
        self.fmt = c.tok()
        self.it = c.nat()
        self.bh = self.bw = 1
        if self.fmt == "bcsr":
            self.bh, self.bw = c.nat(), c.nat()
        self.op = op = c.tok()
        bh, bw = self.bh, self.bw
        self.mats = {}
        m = self.mats
        if op in ("axpy", "scale"):
            m["T"], m["X"] = PM(c, bh, bw), PM(c, bh, bw)
            self.alpha, self.alias = c.frac(), c.nat()
        elif op in ("scale_rows", "scale_cols"):
            m["T"], m["X"] = PM(c, bh, bw), PM(c, bh, bw)
            self.s, self.alias = c.fracs(), c.nat()
        elif op == "mm":
            m["X"], m["D"], m["B"] = PM(c), PM(c), PM(c)
            self.alpha, self.allow = c.frac(), c.nat()
        elif op == "dmm":
            m["X"], m["D"], m["A"], m["B"] = PM(c, bh, bw), PM(c, bh, bw), PM(c, bh, bw), PM(c, bh, bw)
            self.alpha, self.allow = c.frac(), c.nat()
        elif op == "dmm_csr":
            m["X"], m["D"], m["A"], m["B"] = PM(c, bh, bw), PM(c), PM(c, bh, bw), PM(c)
            self.alpha, self.allow = c.frac(), c.nat()
        elif op == "dgm":
            m["X"], m["D"] = PM(c), PM(c)
            self.a = c.fracs()
            m["B"] = PM(c)
            self.alpha, self.allow = c.frac(), c.nat()
        elif op == "rownorm2sqr_s":
            m["A"] = PM(c, bh, bw)
            self.s = c.fracs()
        elif op == "shrink":
            m["A"] = PM(c)
            self.eps = c.frac()
        elif op in ("lump", "rownorm2", "rownorm2sqr", "frob", "diag", "maxabs", "minabs", "max", "min"):
            m["A"] = PM(c, bh, bw)
        else:
            raise ValueError("op " + op)
        assert c.done()

    def is_product(self):
        return self.op in ("mm", "dmm", "dmm_csr", "dgm")

    # ----- products
    def product_info(self):
        """(dims_ok, complete, product_pattern rows (block level), dense scalar product)"""
        m = self.mats
        X, D, B = m["X"], m["D"], m["B"]
        A = m.get("A")
        if self.op in ("mm", "dgm"):
            inner_ok = D.cols == B.rows and (self.op == "mm" or len(self.a) == D.cols)
            chain = [D.pat, B.pat]
        else:
            inner_ok = D.cols == A.rows and A.cols == B.rows
            chain = [D.pat, A.pat, B.pat]
        dims_ok = X.rows == D.rows and inner_ok and B.cols == X.cols
        if not dims_ok:
            return False, False, None, None
        prod = product_pattern(X.rows, chain)
        complete = all(set(prod[i]) <= set(X.pat[i]) for i in range(X.rows))
        bh, bw = self.bh, self.bw
        if self.op == "mm":
            p = dense_mul(D.dense, B.dense)
        elif self.op == "dgm":
            da = {(i, k): v * self.a[k] for (i, k), v in D.dense.items()}
            p = dense_mul(da, B.dense)
        elif self.op == "dmm":
            p = dense_mul(dense_mul(D.dense, A.dense), B.dense)
        else:
            # scalar CSR factors act block-wise: D (x) I_bh, B (x) I_bw
            dd = {(i * bh + h, k * bh + h): v for (i, k), v in D.dense.items() for h in range(bh)}
            bb = {(l * bw + w, j * bw + w): v for (l, j), v in B.dense.items() for w in range(bw)}
            p = dense_mul(dense_mul(dd, A.dense), bb)
        return True, complete, prod, p


def is_abnormal(out):
    return out.split(":")[0] in ("ABORT", "EXC", "TIMEOUT", "SIGNAL", "SANITIZER", "EXIT", "UNDEF") or out.startswith("BAD-OP")


def stored_positions(M):
    """(pod row, pod col) of every stored scalar, in storage (pod) order"""
    out = []
    for i in range(M.rows):
        for k in range(M.rp[i], M.rp[i + 1]):
            for h in range(M.bh):
                for w in range(M.bw):
                    out.append((i * M.bh + h, M.ci[k] * M.bw + w))
    return out


def expect_vec(out, exp, what):
    o = Tk(out)
    if o.tok() != "V":
        return "unparsable output"
    r = o.fracs()
    if len(r) != len(exp):
        return "%s: %d values, expected %d" % (what, len(r), len(exp))
    for k, (a, b) in enumerate(zip(r, exp)):
        if a != b:
            return "%s: value %d is %s, the dense formula gives %s" % (what, k, a, b)
    return o


def oracle(case, out):
    try:
        c = Case(case)
    except Exception as e:  # malformed case line: generator bug
        return "unparsable case (%r)" % (e,)
    try:
        m = c.mats
        op = c.op
        if c.is_product():
            dims_ok, complete, prod, p = c.product_info()
            if not dims_ok:
                return None if out == "ABORT" else "incompatible dimensions not reported: " + out[:80]
            if not complete and not c.allow:
                return None if out == "ABORT" else "incomplete output pattern with allow_incomplete=false not reported: " + out[:80]
            if is_abnormal(out):
                return "%s on a %s pattern (allow_incomplete=%d) ended with %s" % (op, "complete" if complete else "incomplete", c.allow, out)
            X = m["X"]
            exp = [X.get(i, j) + c.alpha * p.get((i, j), Fraction(0)) for (i, j) in stored_positions(X)]
            r = expect_vec(out, exp, op)
            return r if isinstance(r, str) else None
        if op in ("axpy", "scale", "scale_rows", "scale_cols"):
            T, X = m["T"], (m["T"] if c.alias else m["X"])
            ok = X.shape() == T.shape()
            if op == "scale_rows":
                ok = ok and len(c.s) == T.rows * T.bh
            if op == "scale_cols":
                ok = ok and len(c.s) == T.cols * T.bw
            if not ok:
                return None if out == "ABORT" else "incompatible operands not reported: " + out[:80]
            if is_abnormal(out):
                return "%s on compatible operands ended with %s" % (op, out)
            if X.pat != T.pat:
                return None   # "assumes the same layout silently": outside the property
            pos = stored_positions(T)
            if op == "axpy":
                exp = [T.get(i, j) + c.alpha * X.get(i, j) for (i, j) in pos]
            elif op == "scale":
                exp = [c.alpha * X.get(i, j) for (i, j) in pos]
            elif op == "scale_rows":
                exp = [X.get(i, j) * c.s[i] for (i, j) in pos]
            else:
                exp = [X.get(i, j) * c.s[j] for (i, j) in pos]
            r = expect_vec(out, exp, op)
            return r if isinstance(r, str) else None
        A = m["A"]
        nr, nc = A.rows * A.bh, A.cols * A.bw
        if op == "diag":
            if A.rows != A.cols:
                return None if out == "ABORT" else "non-square matrix not reported: " + out[:80]
            if A.bh != A.bw:
                # %dx%d blocks: the scalar matrix is not square, it has no main diagonal (c03-edge:F4)
                return None if out == "ABORT" else "non-square blocks (the scalar matrix is not square) not reported: " + out[:60]
            if is_abnormal(out):
                return "extract_diag ended with " + out
            r = expect_vec(out, [A.get(i, i) for i in range(nr)], "diag")
            if isinstance(r, str):
                return r
            if c.fmt == "csr":
                if r.tok() != "I":
                    return "no diagonal indices"
                idx = r.nats()
                for i in range(A.rows):
                    want = A.rp[i] + A.pat[i].index(i) if i in A.pat[i] else A.nb
                    if idx[i] != want:
                        return "diag index of row %d is %d, expected %d" % (i, idx[i], want)
            return None
        if is_abnormal(out):
            return "%s ended with %s" % (op, out)
        if op in ("lump", "rownorm2", "rownorm2sqr", "rownorm2sqr_s"):
            if op == "rownorm2sqr_s" and len(c.s) != nc:
                return "generator: scal has the wrong size"
            byrow = {}
            for (i, j), v in A.dense.items():      # entries that are not stored are zero: they do not contribute
                byrow.setdefault(i, []).append((j, v))
            exp = []
            for i in range(nr):
                ent = byrow.get(i, ())
                if op == "lump":
                    exp.append(sum((v for _, v in ent), Fraction(0)))
                elif op == "rownorm2sqr_s":
                    exp.append(sum((c.s[j] * v ** 2 for j, v in ent), Fraction(0)))
                else:
                    s = sum((v ** 2 for _, v in ent), Fraction(0))
                    exp.append(qsqrt(s) if op == "rownorm2" else s)
            r = expect_vec(out, exp, op)
            return r if isinstance(r, str) else None
        if op in ("frob", "maxabs", "minabs", "max", "min"):
            o = Tk(out)
            if o.tok() != "S":
                return "unparsable output"
            v = o.frac()
            vals = A.val
            if op == "frob":
                want = qsqrt(sum((x * x for x in vals), Fraction(0)))
            elif not vals:
                want = Fraction(0)      # the zero matrix
            else:
                want = {"maxabs": max(abs(x) for x in vals), "minabs": min(abs(x) for x in vals),
                        "max": max(vals), "min": min(vals)}[op]
            return None if v == want else "%s = %s, expected %s" % (op, v, want)
        if op == "shrink":
            o = Tk(out)
            if o.tok() != "M" or o.nat() != A.rows or o.nat() != A.cols:
                return "shrink changed the dimensions"
            rp, ci, val = o.nats(), o.nats(), o.fracs()
            erp, eci, eval_ = [0], [], []
            for i in range(A.rows):
                for k in range(A.rp[i], A.rp[i + 1]):
                    if abs(A.val[k]) >= c.eps:
                        eci.append(A.ci[k])
                        eval_.append(A.val[k])
                erp.append(len(eci))
            if not eval_:
                erp = []
            if (rp, ci, val) != (erp, eci, eval_):
                return "shrink result differs from the entries with |v| >= eps: got %s %s %s" % (rp, ci, [str(x) for x in val])
            return None
        return "oracle: unknown op " + op
    except (IndexError, ValueError, AssertionError, ZeroDivisionError) as e:
        return "unparsable implementation output (%r): %s" % (e, out[:200])


def _info(case):
    c = Case(case)
    keys = ["fmt:" + c.fmt, "op:%s/%s" % (c.fmt, c.op), "it:%d" % c.it]
    if c.fmt == "bcsr":
        keys.append("block:%dx%d" % (c.bh, c.bw))
    nt = False
    if c.is_product():
        dims_ok, complete, prod, p = c.product_info()
        X = c.mats["X"]
        keys.append("allow:%d" % c.allow)
        if not dims_ok:
            keys.append("product:dims-mismatch")
        else:
            npe = sum(len(r) for r in prod)
            rel = set()
            for i in range(X.rows):
                xs, ps = set(X.pat[i]), set(prod[i])
                rel.add("equal" if xs == ps else "richer" if xs > ps else "poorer" if xs < ps else
                        "disjoint" if not (xs & ps) else "overlap")
            for r in sorted(rel):
                keys.append("Xrow-vs-product:" + r)
            keys.append("product:" + ("complete" if complete else "incomplete"))
            keys.append("expect:" + ("abort" if (not complete and not c.allow) else "value"))
            if any(not r for r in c.mats["D"].pat):
                keys.append("flag:empty-row-of-D")
            if "A" in c.mats and any(not r for r in c.mats["A"].pat):
                keys.append("flag:empty-row-of-A")
            if any(not r for r in c.mats["B"].pat):
                keys.append("flag:empty-row-of-B")
            if any(not r for r in X.pat):
                keys.append("flag:empty-row-of-X")
            keys.append("alpha:" + ("0" if c.alpha == 0 else "+-1" if abs(c.alpha) == 1 else "general"))
            nt = npe >= 1 and bool(rel - {"equal"})
        size = max(X.rows, X.cols)
    else:
        M = c.mats.get("A") or c.mats["T"]
        size = max(M.rows, M.cols)
        if hasattr(c, "alias"):
            keys.append("alias:%d" % c.alias)
        if any(not r for r in M.pat):
            keys.append("flag:empty-row")
        if M.rows != M.cols:
            keys.append("flag:rect")
        nt = M.nb >= 1
        if c.op in ("axpy", "scale", "scale_rows", "scale_cols") and not c.alias and c.mats["X"].shape() != M.shape():
            keys.append("operands:mismatch")
    keys.append("size:" + ("<=3" if size <= 3 else "<=8" if size <= 8 else ">8"))
    return keys, nt


def nontrivial(case):
    try:
        return _info(case)[1]
    except Exception:
        return False


def describe(case):
    try:
        return _info(case)[0]
    except Exception:
        return ["unparsable"]


def canon(out):
    return "ABORT" if out.startswith("ABORT") else out


# ---------------------------------------------------------------------------------------------
# boundary sizes: Index / IT_ are unbounded Nat in the Lean model, only this stream crosses the C++ size boundaries
# ---------------------------------------------------------------------------------------------

BOUNDARY_QUICK = [3, 4, 5, 127, 128, 129, 255, 256, 257, 1000, 1001]
BOUNDARY_THOROUGH = [32767, 32768, 65535, 65536, 65537]


def boundary_cases(rng, tier):
    """Sizes / row lengths / column indices / storage positions just below, at and above 2^7, 2^8, 1000, 2^15, 2^16
    (and n mod 4 in {3, 0, 1}: MemoryPool rounds allocations up to multiples of 4).  Sparse data; the content that
    steers the special paths (extreme values and their ties, the diagonal entries, the missing column of a product, the
    entries shrink drops) sits at the HIGH end: last rows, highest column indices, last storage positions."""
    out = []
    for N in BOUNDARY_QUICK + (BOUNDARY_THOROUGH if tier == "thorough" else []):
        big = N > 2000
        it = 32 if (big or N % 2) else 64

        def v():
            return Fraction(rng.randint(1, 9) * rng.choice([1, -1]), rng.choice([1, 2, 3]))
        # ---- (a) one row with N entries (> 255 entries per row), ending in the last column N+1
        cols = N + 2
        pat = [[0, cols - 1], list(range(2, N + 2))]
        r1 = [v() for _ in range(N)]
        if N >= 8:
            r1[N - 6] = Fraction(1, 11); r1[N - 5] = Fraction(-1, 11)       # min-abs tie: first occurrence wins
            r1[N - 4] = Fraction(40); r1[N - 3] = Fraction(40)             # max tie
            r1[N - 2] = Fraction(-41); r1[N - 1] = Fraction(-41)           # min / max-abs tie at the very end
        W = Mat(2, cols, pat, [[Fraction(3), Fraction(-2)], r1])
        W2 = same_layout(rng, W)
        ops = ["lump", "max", "minabs", "shrink", "rownorm2sqr"] if big else \
            ["lump", "rownorm2sqr", "rownorm2", "rownorm2sqr_s", "max", "min", "maxabs", "minabs", "frob", "shrink",
             "scale_cols", "scale_rows", "axpy", "scale"]
        head = "csr %d " % it
        for op in ops:
            if op == "shrink":
                out.append(head + "shrink %s %s" % (W.tok(), fs(Fraction(41))))      # keeps only the last two entries
                out.append(head + "shrink %s %s" % (W.tok(), fs(Fraction(1, 10))))   # drops only N-6, N-5
            elif op == "rownorm2sqr_s":
                out.append(head + "rownorm2sqr_s %s %s" % (W.tok(), fl([Fraction(j % 5 - 2) for j in range(cols)])))
            elif op == "scale_cols":
                out.append(head + "scale_cols %s %s %s 0" % (W.tok(), W2.tok(), fl([Fraction(j % 7 - 3) for j in range(cols)])))
            elif op == "scale_rows":
                out.append(head + "scale_rows %s %s %s 1" % (W.tok(), W2.tok(), fl([Fraction(2), Fraction(-3)])))
            elif op in ("axpy", "scale"):
                out.append(head + "%s %s %s %s 0" % (op, W.tok(), W2.tok(), fs(Fraction(-3, 2))))
            else:
                out.append(head + "%s %s" % (op, W.tok()))
        # ---- (b) n x n with n = N + 1 rows, entries only in row 0 and in the last six rows
        n = N + 1
        if n < 8:
            continue
        tp = [[] for _ in range(n)]
        tp[0] = [0, n - 1]
        tp[n - 6] = [n - 6]              # diagonal only
        tp[n - 5] = [n - 4]              # upper only: no diagonal entry, an entry right of it
        tp[n - 4] = [0, n - 4]           # diagonal last in the row
        tp[n - 3] = [n - 5]              # lower only
        tp[n - 2] = [n - 2, n - 1]       # diagonal first
        tp[n - 1] = [0, n - 2, n - 1]    # diagonal at the last storage position
        T = Mat(n, n, tp, [[v() for _ in r] for r in tp])
        for op in (["diag", "lump"] if big else ["diag", "lump", "rownorm2sqr", "shrink"]):
            out.append(head + ("shrink %s %s" % (T.tok(), fs(Fraction(2))) if op == "shrink" else "%s %s" % (op, T.tok())))
        out.append(head + "scale_rows %s %s %s 1" % (T.tok(), T.tok(), fl([Fraction(i % 9 - 4) for i in range(n)])))
        for bs in ((2,) if big else (2, 3)):
            TB = Mat(n, n, tp, [[[v() for _ in range(bs * bs)] for _ in r] for r in tp], bs, bs, True)
            out.append("bcsr %d %d %d diag %s" % (it, bs, bs, TB.tok()))
            out.append("bcsr %d %d %d lump %s" % (it, bs, bs, TB.tok()))
        # products: the rows D_i, B_k that matter are the last ones; X lacks either nothing, or the LAST column of its
        # last row ("row of X exhausted"), or column 0 of row n-2 ("X > B")
        dp = [[] for _ in range(n)]; dp[0] = [n - 1]; dp[n - 2] = [n - 1]; dp[n - 1] = [n - 2, n - 1]
        bp = [[] for _ in range(n)]; bp[n - 2] = [n - 2, n - 1]; bp[n - 1] = [0, n - 1]
        ap = [[] for _ in range(n)]; ap[n - 2] = [n - 2]; ap[n - 1] = [n - 2, n - 1]
        xc = [[] for _ in range(n)]; xc[0] = [0, n - 1]; xc[n - 2] = [0, n - 2, n - 1]; xc[n - 1] = [0, n - 2, n - 1]
        xr = [list(r) for r in xc]; xr[n - 1] = [0, n - 2]             # last column missing in the last row
        xl = [list(r) for r in xc]; xl[n - 2] = [n - 2, n - 1]         # column 0 missing in row n-2

        def m(p, bs=1, blocked=False):
            return Mat(n, n, p, [[[v() for _ in range(bs * bs)] if blocked else v() for _ in r] for r in p], bs, bs, blocked)
        for xp in (xc, xr, xl):
            for allow in (0, 1):
                out.append(head + "mm %s %s %s 2/1 %d" % (m(xp).tok(), m(dp).tok(), m(bp).tok(), allow))
                if not big or xp is xr:
                    out.append(head + "dmm %s %s %s %s 2/1 %d" % (m(xp).tok(), m(dp).tok(), m(ap).tok(), m(bp).tok(), allow))
                    out.append(head + "dgm %s %s %s %s 2/1 %d" % (m(xp).tok(), m(dp).tok(), fl([Fraction(i % 5 + 1) for i in range(n)]),
                                                                 m(bp).tok(), allow))
                    out.append("bcsr %d 2 2 dmm_csr %s %s %s %s 2/1 %d" % (it, m(xp, 2, True).tok(), m(dp).tok(), m(ap, 2, True).tok(),
                                                                          m(bp).tok(), allow))
                if not big:
                    out.append("bcsr %d 2 2 dmm %s %s %s %s 2/1 %d" % (it, m(xp, 2, True).tok(), m(dp, 2, True).tok(),
                                                                      m(ap, 2, True).tok(), m(bp, 2, True).tok(), allow))
    return out


def boundary_describe(case):
    t = case.split()
    k = 5 if t[0] == "bcsr" else 3
    return describe(case)[:2] + ["bsize:rows=%s" % t[k], "bsize:cols=%s" % t[k + 1]]


# ---------------------------------------------------------------------------------------------
# T3: double-precision conformance of norm_frobenius / row_norm2 (supporting evidence, never a proof)
# ---------------------------------------------------------------------------------------------

U = Fraction(1, 2 ** 53)


def gen_fp_case(rng, sizes):
    rows, cols = rdim(rng, sizes), rdim(rng, sizes)
    pat = gen_pattern(rng, rows, cols, rng.choice(["sparse", "dense", "full", "diagplus", "emptyrows"]))
    pat = ensure_entries(rng, pat, cols)
    spread = rng.choice([0, 0, 10, 40, 200])

    def dy():
        # dyadic rationals with <= 30 significant bits and a wide magnitude spread: exactly representable
        return Fraction(rng.randint(-2 ** 30, 2 ** 30)) * Fraction(2) ** rng.randint(-spread, spread)
    vals = [[dy() for _ in r] for r in pat]
    return "csrd %d %s %s" % (rng.choice([32, 64]), rng.choice(["frob", "rownorm2"]), Mat(rows, cols, pat, vals).tok())


def fp_oracle(case, out):
    """|r^2 - S| <= gamma_(n+3) S with gamma_k = k u / (1 - k u): n squarings and additions, one square root"""
    try:
        t = Tk(case)
        t.tok(); t.nat()
        op = t.tok()
        A = PM(t)
        if is_abnormal(out):
            return "%s at double precision ended with %s" % (op, out)
        o = out.split()
        if o[0] != "D" or int(o[1]) != len(o) - 2:
            return "unparsable output"
        got = [Fraction(float.fromhex(h)) for h in o[2:]]
        groups = [A.val] if op == "frob" else [A.val[A.rp[i]:A.rp[i + 1]] for i in range(A.rows)]
        if len(got) != len(groups):
            return "%d results, expected %d" % (len(got), len(groups))
        for k, (r, g) in enumerate(zip(got, groups)):
            S = sum((v * v for v in g), Fraction(0))
            kk = len(g) + 3
            gamma = kk * U / (1 - kk * U)
            if r < 0 or abs(r * r - S) > gamma * S:
                return "%s[%d] = %s: r^2 deviates from the exact sum of squares %s by more than gamma_%d" % (op, k, float(r), S, kk)
        return None
    except (IndexError, ValueError, AssertionError, ZeroDivisionError) as e:
        return "unparsable (%r): %s" % (e, out[:120])


def edge_class(case):
    """known-finding input class of a case (None = clean class)"""
    try:
        c = Case(case)
    except Exception:
        return None
    if any(m.nb == 0 for m in c.mats.values()):
        return "F3"
    return None


def signature(case, out, why):
    k = edge_class(case)
    if k is not None:
        return "c03-edge:" + k
    t = case.split()
    return "%s:%s:%s" % (t[0], t[4] if t[0] == "bcsr" else t[2], (why or "")[:40])


def model_filter(case):
    # on entry-free operands the model returns the zero results (the implementation crashes: c03-edge:F3)
    k = edge_class(case)
    return k != "F3"


def empty_mat(rows, cols, bh=1, bw=1, blocked=False):
    return Mat(rows, cols, [[] for _ in range(rows)], [[] for _ in range(rows)], bh, bw, blocked)


def gen_edge_case(rng, sizes):
    it = rng.choice([32, 64])
    if rng.random() < 0.12:
        # extract_diag with non-square blocks (formerly c03-edge:F4, fixed): must be reported
        bh, bw = rng.choice([(2, 3), (3, 2)])
        n = rdim(rng, sizes)
        A = gen_mat(rng, n, n, bh, bw, True, style=rng.choice(["diag", "diagplus", "full", "sparse"]))
        return "bcsr %d %d %d diag %s" % (it, bh, bw, A.tok())
    # F3: entry-free operands
    blocked = rng.random() < 0.25
    bh, bw = rng.choice(SQUARE_BLOCKS) if blocked else (1, 1)
    head = ("bcsr %d %d %d " % (it, bh, bw)) if blocked else ("csr %d " % it)
    n, m = rdim(rng, sizes), rdim(rng, sizes)
    E = empty_mat(n, m, bh, bw, blocked)
    ops = ["lump", "rownorm2", "rownorm2sqr", "rownorm2sqr_s", "diag", "scale_rows", "scale_cols", "maxabs", "minabs",
           "max", "min", "frob", "axpy", "scale", "prod", "prod", "prod"] + ([] if blocked else ["shrink"])
    op = rng.choice(ops)
    if op in ("lump", "rownorm2", "rownorm2sqr", "maxabs", "minabs", "max", "min", "frob"):
        return head + "%s %s" % (op, E.tok())
    if op == "rownorm2sqr_s":
        return head + "rownorm2sqr_s %s %s" % (E.tok(), fl([rval(rng) for _ in range(m * bw)]))
    if op == "diag":
        return head + "diag %s" % empty_mat(n, n, bh, bw, blocked).tok()
    if op == "shrink":
        return head + "shrink %s %s" % (E.tok(), fs(rng.choice([Fraction(0), Fraction(1)])))
    if op in ("axpy", "scale"):
        return head + "%s %s %s %s %d" % (op, E.tok(), E.tok(), fs(ralpha(rng)), rng.choice([0, 1]))
    if op in ("scale_rows", "scale_cols"):
        ns = n * bh if op == "scale_rows" else m * bw
        return head + "%s %s %s %s %d" % (op, E.tok(), E.tok(), fl([rval(rng) for _ in range(ns)]), rng.choice([0, 1]))
    # products: X, D, (A,) or B entry-free
    kk, ll = rdim(rng, sizes), rdim(rng, sizes)
    pop = rng.choice(["dmm", "dmm_csr"]) if blocked else rng.choice(["mm", "dmm", "dgm"])
    if pop in ("mm", "dgm"):
        ll = kk
    dblk = blocked and pop == "dmm"
    D = gen_mat(rng, n, kk, bh, bw, dblk)
    B = gen_mat(rng, ll, m, bh, bw, dblk)
    A = gen_mat(rng, kk, ll, bh, bw, blocked) if pop in ("dmm", "dmm_csr") else None
    X = gen_mat(rng, n, m, bh, bw, blocked, style=rng.choice(["full", "dense"]))
    which = rng.choice(["X", "D", "B"] + (["A"] if A is not None else []))
    if which == "X":
        X = E
    elif which == "D":
        D = empty_mat(n, kk, bh, bw, dblk)
    elif which == "B":
        B = empty_mat(ll, m, bh, bw, dblk)
    else:
        A = empty_mat(kk, ll, bh, bw, blocked)
    alpha, allow = ralpha(rng), 1
    if pop == "mm":
        return head + "mm %s %s %s %s %d" % (X.tok(), D.tok(), B.tok(), fs(alpha), allow)
    if pop == "dgm":
        return head + "dgm %s %s %s %s %s %d" % (X.tok(), D.tok(), fl([rval(rng) for _ in range(kk)]), B.tok(), fs(alpha), allow)
    return head + "%s %s %s %s %s %s %d" % (pop, X.tok(), D.tok(), A.tok(), B.tok(), fs(alpha), allow)


EDGE_CORPUS = [
    "bcsr 64 3 2 diag 2 2 3 0 1 2 2 0 1 12 1/1 2/1 3/1 4/1 5/1 6/1 7/1 8/1 9/1 10/1 11/1 12/1",
    "bcsr 64 2 3 diag 2 2 3 0 1 2 2 0 1 12 1/1 2/1 3/1 4/1 5/1 6/1 7/1 8/1 9/1 10/1 11/1 12/1",
    "csr 64 lump 2 2 3 0 0 0 0 0",
    "csr 64 rownorm2sqr 2 2 3 0 0 0 0 0",
    "csr 64 diag 2 2 3 0 0 0 0 0",
    "csr 64 shrink 2 2 3 0 0 0 0 0 1/1",
    "csr 64 scale_rows 2 2 3 0 0 0 0 0 2 2 3 0 0 0 0 0 2 1/1 1/1 0",
    "csr 64 maxabs 2 2 3 0 0 0 0 0",
    "csr 64 min 2 2 3 0 0 0 0 0",
    "csr 64 mm 2 2 3 0 0 0 0 0 2 2 3 0 1 2 2 0 1 2 1/1 1/1 2 2 3 0 1 2 2 0 1 2 1/1 1/1 1/1 1",
    "csr 64 mm 2 2 3 0 1 2 2 0 1 2 1/1 1/1 2 2 3 0 0 0 0 0 2 2 3 0 1 2 2 0 1 2 1/1 1/1 1/1 1",
    "csr 64 mm 2 2 3 0 1 2 2 0 1 2 1/1 1/1 2 2 3 0 1 2 2 0 1 2 1/1 1/1 2 2 3 0 0 0 0 0 1/1 1",
]


def main(argv):
    args = vlib.std_args(argv)
    t0 = time.time()
    rng = random.Random(args.seed * 1000003 + 3)
    lean = None if args.no_lean else vlib.lean_check(PROP, leanchecker=(args.tier == "thorough"))
    binary, err = vlib.build_harness("c03", os.path.join(vlib.VERIF, "harness", "c03", "main.cpp"))
    if binary is None:
        v = [{"property": PROP, "kind": "harness-build-failure", "detail": err, "failing_input": None,
              "broken": "harness c03 does not compile against the current tree"}]
        return vlib.finish(PROP, args.tier, args.seed, t0, lean, [], [], v, [])
    corpus = list(CORPUS) + corner_cases()
    cdir = os.path.join(vlib.CORPUS, "c03")
    if os.path.isdir(cdir):
        for f in sorted(os.listdir(cdir)):
            corpus += [ln.strip() for ln in open(os.path.join(cdir, f)) if ln.strip() and not ln.startswith("#")]
    if args.replay:
        cases = [json.load(open(args.replay))["input"]]
    elif args.tier == "quick":
        cases = corpus + gen_cases(rng, 20000, [1, 1, 2, 2, 3, 3, 4, 5, 8]) + gen_cases(rng, 500, [2, 5, 8, 13])
    else:
        cases = corpus + gen_cases(rng, 80000, [1, 1, 2, 2, 3, 3, 4, 5, 8]) \
            + gen_cases(rng, 8000, [1, 2, 3, 5, 8, 13, 21]) \
            + gen_cases(rng, 300, [3, 13, 34, 55])
    st = vlib.Stream("matalg", cases, [binary], vlib.driver_cmd(PROP), oracle=oracle, nontrivial=nontrivial,
                     describe=describe, signature=signature, canon=canon, model_filter=model_filter)
    if args.replay:
        ecases = []
    else:
        erng = random.Random(args.seed * 1000003 + 33)
        ne = 800 if args.tier == "quick" else 6000
        ecases = EDGE_CORPUS + [gen_edge_case(erng, [1, 2, 2, 3, 3, 4, 5]) for _ in range(ne)]
    est = vlib.Stream("edge", ecases, [binary], vlib.driver_cmd(PROP), oracle=oracle, nontrivial=nontrivial,
                      describe=lambda case: describe(case) + ["edge-class:%s" % edge_class(case)], signature=signature,
                      canon=canon, model_filter=model_filter)
    stats_rule = ("CSR: axpy, scale, scale_rows/cols (incl. x aliasing this, operand mismatch), add_mat_mat_product, "
                  "add_double_mat_product (CSR and diagonal middle factor), lump_rows, extract_diag(+indices), "
                  "norm_frobenius, row_norm2/2sqr/scaled, max/min(_abs)_element, shrink; BCSR (2x2, 3x3, 2x3, 3x2): the "
                  "same without shrink, products BCSR*BCSR*BCSR and CSR*BCSR*CSR. Products: X pattern equal / richer / "
                  "poorer / disjoint / overlapping per row, allow_incomplete both ways, empty rows of X, D, A, B. "
                  "non-trivial = (products) the structural product has >= 1 entry and X's row pattern differs from "
                  "the product's in >= 1 row; (others) >= 1 stored entry")
    if args.replay:
        fcases = []
    else:
        frng = random.Random(args.seed * 1000003 + 77)
        fcases = [gen_fp_case(frng, [1, 2, 3, 5, 8, 13, 40]) for _ in range(1500 if args.tier == "quick" else 15000)]
    fst = vlib.Stream("fp-norms", fcases, [binary], None, oracle=fp_oracle,
                      describe=lambda case: ["op:csrd/" + case.split()[2]], signature=lambda c, o, w: "csrd:" + (w or "")[:30],
                      canon=canon)
    bcases = [] if args.replay else boundary_cases(random.Random(args.seed * 1000003 + 99), args.tier)
    bst = vlib.Stream("boundary-sizes", bcases, [binary], vlib.driver_cmd(PROP), oracle=oracle, nontrivial=nontrivial,
                      describe=boundary_describe, signature=signature, canon=canon, model_filter=model_filter)
    rc = vlib.run_pipeline(PROP, args.tier, args.seed, lean, [st, est, fst, bst], t0, assumptions=[
        "Index / IT_ (unsigned int or unsigned long) / int block sizes are unbounded Nat in the Lean model; the stream "
        "boundary-sizes crosses 2^7, 2^8, 1000 (thorough: 2^15, 2^16) and n mod 4 for rows, row lengths, column indices "
        "and storage positions, compared with model and oracle",
        "CSR/BCSR operands have strictly increasing column indices per row (as every FEAT assembly produces)",
        "square roots: the deterministic q_sqrt of exact_q.hpp / Proto.qsqrt (C03.qsqrt_floor); stream fp-norms runs "
        "norm_frobenius / row_norm2 at double and checks |r^2 - S| <= gamma_(n+3) S in exact arithmetic (evidence only)",
        "known findings (stream `edge`, judged on every run, FINDINGS_C03.md): c03-edge:F3 entry-free operands"],
        extra_cov={"rule": stats_rule})
    return rc
