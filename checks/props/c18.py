"""C18 - prolongation is exact on the coarse space; restriction is its transpose.

Streams
  algebra : `inv` (Math::invert_matrix), `xfer` (SparseMatrixCSR::transpose + LAFEM::Transfer) and `gxfer` / `gforbid`
            (Global::Transfer: no muxer, non-child muxer, single-process muxer that is child and parent) on random data;
            real code vs Lean model + oracle.  Every `fe` case also wraps its assembled P / R / T into the three
            Global::Transfer set-ups and compares prol / rest / trunc / trunc(prol(x)) with the matrices.
  fe      : real GridTransfer::assemble_prolongation(_direct) / assemble_truncation(_direct) / prolongate_vector(_direct)
            and LAFEM::Transfer on refined meshes at the exact scalar Q.  The case line carries the configuration AND the
            ingredients the assembly loops see (dumped by the harness through the real evaluators); the Lean model
            recomputes every printed quantity from the ingredients; the oracle checks the property in Fractions.
  certificates : the Lean driver evaluates the decidable hypotheses (nestedB, consB, intB, mapsB) of the exactness
            theorems on the real ingredients of every fe case; they must hold for every nested family (intB for exact rules).
  float-convert : oracle only: LAFEM::Transfer<double,u64> -> convert -> <float,u32> -> convert -> <double,u64> and a clone
            on the real code; every member within float rounding of the exact products.
  feo     : oracle only: interpolated polynomials (real Interpolator), function equality at independent sample points,
            consistency of the coarse/fine cell mapping (physical points), T P = I, R = P^T, matrix-free = matrix.
"""
import hashlib
import json
import os
import random
import time
from fractions import Fraction

import sys

import vlib

if hasattr(sys, "set_int_max_str_digits"):
    sys.set_int_max_str_digits(0)       # exact rationals of distorted non-parametric elements have thousands of digits

PROP = "C18"
F = Fraction


def fs(x):
    return vlib.frac_str(F(x))


def fmt_q(l):
    return " ".join([str(len(l))] + [fs(x) for x in l])


def fmt_n(l):
    return " ".join([str(len(l))] + [str(x) for x in l])


# ---------------------------------------------------------------------------------------------
# tables about spaces and cubature rules (used for tagging only; the oracle does the judging)
# ---------------------------------------------------------------------------------------------

SPACES = {"quad": ["l1", "l2", "d0", "d1", "b2", "l3", "cr"], "tria": ["l1", "l2", "d0", "d1", "l3", "cr"],
          "hexa": ["l1", "l2", "d0", "cr"], "tetra": ["l1", "l2", "d0", "cr"]}
# Crouzeix-Raviart / Rannacher-Turek spaces are NOT nested under refinement: only the polynomials of degree <= 1 lie in
# the coarse and in the fine space; for them P interp_c(u) = interp_f(u) still has to hold
NESTED = {"l1": True, "l2": True, "l3": True, "b2": True, "d0": True, "d1": True, "cr": False}
DIM = {"quad": 2, "tria": 2, "hexa": 3, "tetra": 3}
DEG = {"l1": 1, "l2": 2, "b2": 2, "d0": 0, "d1": 1, "l3": 3, "cr": 1}
HYPER = ("quad", "hexa")

# name -> (degree per variable, rational nodes/weights, positive weights, points per dimension)
RULE_1D = {
    "gauss-legendre:1": (1, True, True, 1), "gauss-legendre:2": (3, False, True, 2), "gauss-legendre:3": (5, False, True, 3),
    "gauss-legendre:4": (7, False, True, 4), "simpson": (3, True, True, 3), "gauss-lobatto:3": (3, True, True, 3),
    "newton-cotes-closed:3": (3, True, True, 3), "newton-cotes-closed:4": (3, True, True, 4),
    "newton-cotes-closed:5": (5, True, True, 5), "newton-cotes-open:3": (3, True, False, 3),
    "newton-cotes-open:5": (5, True, False, 5), "maclaurin:2": (1, True, True, 2), "maclaurin:3": (1, True, True, 3),
    "trapezoidal": (1, True, True, 2), "barycentre": (1, True, True, 1), "auto-degree:2": (3, False, True, 2),
    "auto-degree:4": (5, False, True, 3), "refine:simpson": (3, True, True, 5), "refine:gauss-legendre:2": (3, False, True, 4),
    "refine:trapezoidal": (1, True, True, 3),
}
# simplex rules: name -> (degree, rational, positive, number of points with non-zero weight) per dimension 2 / 3
RULE_SX = {
    2: {"trapezoidal": (1, True, True, 3), "barycentre": (1, True, True, 1), "lauffer-degree-2": (2, True, True, 3),
        "lauffer-degree-4": (4, True, False, 15), "dunavant:2": (2, False, True, 3), "dunavant:4": (4, False, True, 6),
        "dunavant:5": (5, False, True, 7), "dunavant:6": (6, False, True, 12), "dunavant:3": (3, False, False, 4),
        "silvester-open:2": (0, True, False, 6), "silvester-open:3": (0, True, False, 10),
        "auto-degree:2": (2, False, True, 3), "auto-degree:4": (4, False, True, 6), "auto-degree:5": (5, False, True, 7),
        "refine:lauffer-degree-2": (2, True, True, 9), "refine:trapezoidal": (1, True, True, 6),
        "hammer-stroud-degree-2": (2, False, True, 3), "hammer-stroud-degree-3": (3, False, False, 4)},
    3: {"trapezoidal": (1, True, True, 4), "barycentre": (1, True, True, 1), "lauffer-degree-2": (2, True, False, 10),
        "lauffer-degree-4": (4, True, False, 35), "hammer-stroud-degree-2": (2, False, True, 4),
        "hammer-stroud-degree-3": (3, False, False, 5), "hammer-stroud-degree-5": (5, False, True, 15),
        "auto-degree:2": (2, False, True, 4), "auto-degree:4": (4, False, False, 11), "refine:trapezoidal": (1, True, True, 10),
        "refine:hammer-stroud-degree-2": (2, False, True, 32)},
}
NLOC = {("tria", "l3"): 10, ("tria", "cr"): 3, ("tetra", "cr"): 4, ("tria", "l1"): 3, ("tria", "l2"): 6, ("tria", "d0"): 1, ("tria", "d1"): 3,
        ("tetra", "l1"): 4, ("tetra", "l2"): 10, ("tetra", "d0"): 1}


def rule_info(shape, space, cub, distorted):
    """(rule sufficient for the local inversions, how T P = I can be checked: 'exact' | 'approx' | None)

    sufficient: positive weights on a unisolvent point set (the local mass matrices are then SPD);
    T P = I needs the mass integrals to be integrated exactly (degree >= 2k, more on non-affine cells); rules with
    irrational nodes are stored as 53-bit rationals, so the identity then only holds up to 1e-9."""
    k = DEG[space]
    if shape in HYPER and space == "cr":
        k = 2       # rotated bilinear: x^2 - y^2 in the local space
    if shape in HYPER:
        deg, rat, pos, n1 = RULE_1D[cub]
        need = 2 * k + ((DIM[shape] - 1) if distorted else 0)
        return (pos and n1 >= k + 1), (("exact" if rat else "approx") if deg >= need else None)
    deg, rat, pos, npts = RULE_SX[DIM[shape]][cub]
    suff = pos and deg >= 2 * k and npts >= NLOC[(shape, space)]
    if cub.startswith("lauffer-degree-2") and space == "l2":
        suff = False
    return suff, (("exact" if rat else "approx") if deg >= 2 * k else None)


# ---------------------------------------------------------------------------------------------
# generators
# ---------------------------------------------------------------------------------------------

def small_q(rng, den=(1, 2, 3, 4), lo=-3, hi=3):
    d = rng.choice(den)
    return F(rng.randint(lo * d, hi * d), d)


def gen_config(rng, tier):
    r = rng.random()
    if r < 0.38:
        shape = "quad"
    elif r < 0.74:
        shape = "tria"
    elif r < 0.87:
        shape = "hexa"
    else:
        shape = "tetra"
    space = rng.choice(SPACES[shape])
    dim = DIM[shape]
    if shape in HYPER:
        cub = rng.choice(list(RULE_1D))
    else:
        cub = rng.choice(list(RULE_SX[dim]))
    if dim == 2:
        level = rng.choice([0, 0, 1, 1, 1] + ([2] if tier == "thorough" and space in ("l1", "d0") else []))
    else:
        level = 0 if (shape == "tetra" or space == "l2") else rng.choice([0, 0, 1] if tier == "thorough" else [0])
    if shape == "hexa" and space == "l2" and RULE_1D[cub][3] > 3:
        cub = "gauss-legendre:3"
    if shape == "tetra" and space == "l2" and cub in ("lauffer-degree-4", "refine:hammer-stroud-degree-2"):
        cub = "hammer-stroud-degree-5"
    if tier == "quick" and dim == 3 and space == "l2":
        # second-order elements in 3-D with 53-bit irrational nodes give megabyte-sized cases: thorough tier only
        if shape == "tetra" or not RULE_1D[cub][1] or rng.random() < 0.5:
            space = "l1"
    if tier == "thorough" and shape == "tetra" and space == "l2" and rng.random() < 0.7:
        space = "l1"        # 72 fine cells x 10 dofs x 11..15 points of 53-bit rationals: a minute per case
    if tier == "quick" and shape == "tetra" and cub.startswith("refine:"):
        cub = "hammer-stroud-degree-2"
    perm_c = rng.choice([0, 0, 0, 1, 2, 3, 4, 5, 6, 7])
    perm_f = rng.choice([0, 0, 0, 1, 2, 3, 4, 5, 6, 7])
    # geometry: identity | axis-parallel scaling | general affine map | + non-affine vertex offsets
    g = rng.random()
    affine, offsets = [], []
    if g < 0.25:
        pass
    elif g < 0.45:
        affine = [F(0)] * (dim * dim + dim)
        for d in range(dim):
            affine[d * dim + d] = F(rng.randint(1, 4), rng.choice([1, 2, 3]))
            affine[dim * dim + d] = small_q(rng)
    else:
        while True:
            m = [small_q(rng, lo=-2, hi=2) for _ in range(dim * dim)]
            det = det_frac([m[i * dim:(i + 1) * dim] for i in range(dim)])
            if det != 0 and (det > 0 or rng.random() < 0.15):
                break
        affine = m + [small_q(rng) for _ in range(dim)]
    if g >= 0.7:
        amp = 16 if level == 0 else 16 * (2 ** level)
        offsets = [F(rng.randint(-2, 2), amp) for _ in range(rng.choice([3, 5, 7, 11]))]
        if affine:
            # keep cells non-degenerate: offsets small relative to the smallest singular direction is not guaranteed for
            # strongly sheared maps, so use only mildly sheared ones here
            affine = []
    return dict(shape=shape, space=space, cub=cub, level=level, perm_c=perm_c, perm_f=perm_f, affine=affine, offsets=offsets)


def cfg_str(c):
    return "%s %s %s %d %d %d %s %s" % (c["shape"], c["space"], c["cub"], c["level"], c["perm_c"], c["perm_f"],
                                        fmt_q(c["affine"]), fmt_q(c["offsets"]))


def det_frac(m):
    m = [list(r) for r in m]
    n = len(m)
    det = F(1)
    for c in range(n):
        piv = next((r for r in range(c, n) if m[r][c] != 0), None)
        if piv is None:
            return F(0)
        if piv != c:
            m[c], m[piv] = m[piv], m[c]
            det = -det
        det *= m[c][c]
        for r in range(c + 1, n):
            f = m[r][c] / m[c][c]
            for k in range(c, n):
                m[r][k] -= f * m[c][k]
    return det


def gen_polys(rng, c):
    """polynomials that lie in the coarse space of configuration c: list of [(a, b, c, coef)]"""
    shape, space, dim = c["shape"], c["space"], DIM[c["shape"]]
    k = DEG[space]
    axis_par = (not c["offsets"]) and all(c["affine"][i * dim + j] == 0 for i in range(dim) for j in range(dim) if i != j) \
        if c["affine"] else (not c["offsets"])
    if shape in HYPER and c["offsets"]:
        k = min(k, 1) if space != "d1" else 0
    if space == "cr":
        k = 1
    tensor = shape in HYPER and axis_par and space in ("l1", "l2", "b2", "l3")
    exps = []
    rng_e = range(k + 1)
    for a in rng_e:
        for b in rng_e:
            for cc in (rng_e if dim == 3 else [0]):
                if tensor or a + b + cc <= k:
                    exps.append((a, b, cc))
    polys = []
    for _ in range(2):
        polys.append([(a, b, cc, small_q(rng)) for (a, b, cc) in exps])
    return polys


def gen_inv(rng):
    n = rng.choice([0, 1, 1, 2, 2, 3, 3, 4, 5, 6, 8])
    stride = n + rng.choice([0, 0, 0, 1, 3]) if rng.random() < 0.95 else max(0, n - 1)
    kind = rng.choice(["spd", "spd", "spd", "diagdom", "general", "general", "singular", "ties", "zero-diag"])
    if n == 0:
        return "inv 0 %d" % stride, kind
    if kind == "spd":
        g = [[small_q(rng) for _ in range(n)] for _ in range(n + rng.choice([0, 1, 2]))]
        a = [[sum(r[i] * r[j] for r in g) for j in range(n)] for i in range(n)]
        if det_frac(a) == 0:
            for i in range(n):
                a[i][i] += 1
    elif kind == "diagdom":
        a = [[small_q(rng) for _ in range(n)] for _ in range(n)]
        for i in range(n):
            a[i][i] = sum(abs(x) for x in a[i]) + 1
            if rng.random() < 0.3:
                a[i][i] = -a[i][i]
    elif kind == "general":
        a = [[small_q(rng) for _ in range(n)] for _ in range(n)]
    elif kind == "singular":
        a = [[small_q(rng) for _ in range(n)] for _ in range(n)]
        if n >= 2:
            a[-1] = [x + y for x, y in zip(a[0], a[1 % (n - 1) if n > 2 else 0])]
    elif kind == "ties":
        a = [[F(rng.choice([-1, 0, 1, 2])) for _ in range(n)] for _ in range(n)]
        for i in range(n):
            a[i][i] = F(rng.choice([2, -2, 2, 3]))
    else:
        a = [[small_q(rng) for _ in range(n)] for _ in range(n)]
        for i in range(n):
            if rng.random() < 0.6:
                a[i][i] = F(0)
    return "inv %d %d %s" % (n, stride, " ".join(fs(x) for r in a for x in r)), kind


def gen_csr(rng, rows, cols, density):
    rp, ci, va = [0], [], []
    for i in range(rows):
        cs = [j for j in range(cols) if rng.random() < density]
        if rng.random() < 0.3:
            rng.shuffle(cs)         # unsorted rows are legal CSR input for transpose/apply
        for j in cs:
            ci.append(j)
            va.append(small_q(rng) if rng.random() < 0.9 else F(0))
        rp.append(len(ci))
    return "%d %d %s %s %s" % (rows, cols, fmt_n(rp), fmt_n(ci), fmt_q(va))


def gen_xfer(rng):
    r = rng.choice([0, 1, 2, 3, 5, 8, 13])
    c = rng.choice([0, 1, 2, 3, 5, 8])
    dens = rng.choice([0.0, 0.15, 0.4, 0.8, 1.0])
    p = gen_csr(rng, r, c, dens)
    t = gen_csr(rng, c, r, rng.choice([0.0, 0.3, 1.0]))
    x = [small_q(rng) for _ in range(c)]
    y = [small_q(rng) for _ in range(r)]
    return "xfer %s %s %s %s" % (p, t, fmt_q(x), fmt_q(y))


def gen_childmap(rng):
    shape = rng.choice(["line", "quad", "hexa", "tria"])
    dim = {"line": 1, "quad": 2, "hexa": 3, "tria": 2}[shape]
    return "childmap %s %s" % (shape, " ".join(fs(small_q(rng, den=(1, 2, 3, 5, 7), lo=-1, hi=1)) for _ in range(dim)))


def gen_gxfer(rng):
    """Global::Transfer around random P / T (T has the dimensions of P^T but other entries, so that calling the wrong
    stored matrix is visible)"""
    r = rng.choice([1, 2, 3, 5, 8])
    c = rng.choice([1, 2, 3, 5])
    p = gen_csr(rng, r, c, rng.choice([0.3, 0.6, 1.0]))
    t = gen_csr(rng, c, r, rng.choice([0.3, 0.6, 1.0]))
    x = [small_q(rng) for _ in range(c)]
    y = [small_q(rng) for _ in range(r)]
    return "gxfer %s %s %s %s" % (p, t, fmt_q(x), fmt_q(y))


CORPUS = [
    # diagonal pivoting cannot invert this regular matrix: documented limitation, must abort (not return garbage) at Q
    "inv 2 2 0/1 1/1 1/1 0/1",
    "inv 1 1 0/1",
    "inv 3 5 2/1 -1/1 0/1 -1/1 2/1 -1/1 0/1 -1/1 2/1",
    "xfer 2 2 3 0 0 0 0 0 2 2 3 0 0 0 0 0 2 1/1 2/1 2 3/1 4/1",
    "gxfer 3 2 4 0 2 3 4 4 0 1 1 0 4 1/1 2/1 3/1 4/1 2 3 3 0 2 3 3 0 2 1 3 5/1 6/1 7/1 2 1/1 2/1 3 1/1 2/1 3/1",
    # convert()/clone() twins: P = (1,1)^T, R = P^T = (1 1), T = (1/2 1/2) = (P^T P)^-1 P^T.  A converted object whose
    # truncation was filled from the restriction gives trunc(prol(x)) = 2x
    "xfer 2 1 3 0 1 2 2 0 0 2 1/1 1/1 1 2 2 0 2 2 0 1 2 1/2 1/2 1 3/1 2 1/1 -2/1",
    "gxfer 2 1 3 0 1 2 2 0 0 2 1/1 1/1 1 2 2 0 2 2 0 1 2 1/2 1/2 1 3/1 2 1/1 -2/1",
    "gxfer 3 2 4 0 1 3 4 4 0 0 1 1 4 1/1 1/2 1/2 1/1 2 3 3 0 2 4 4 0 1 1 2 4 3/4 1/2 1/2 3/4 2 1/1 -1/1 3 2/1 0/1 1/1",
    # the ghost-only halves and prol_cancel on a process that is child and parent: must assert, not compute
    "gforbid 0 3 2 4 0 2 3 4 4 0 1 1 0 4 1/1 2/1 3/1 4/1 2 3 3 0 2 3 3 0 2 1 3 5/1 6/1 7/1 2 1/1 2/1 3 1/1 2/1 3/1",
    "gforbid 1 3 2 4 0 2 3 4 4 0 1 1 0 4 1/1 2/1 3/1 4/1 2 3 3 0 2 3 3 0 2 1 3 5/1 6/1 7/1 2 1/1 2/1 3 1/1 2/1 3/1",
    "gforbid 2 3 2 4 0 2 3 4 4 0 1 1 0 4 1/1 2/1 3/1 4/1 2 3 3 0 2 3 3 0 2 1 3 5/1 6/1 7/1 2 1/1 2/1 3 1/1 2/1 3/1",
    "gforbid 3 3 2 4 0 2 3 4 4 0 1 1 0 4 1/1 2/1 3/1 4/1 2 3 3 0 2 3 3 0 2 1 3 5/1 6/1 7/1 2 1/1 2/1 3 1/1 2/1 3/1",
    "xfer 3 1 4 0 1 1 2 2 0 0 2 1/1 2/1 1 3 2 0 3 3 0 1 2 3 1/1 1/1 1/1 1 5/1 3 1/1 2/1 3/1",
]
CORPUS_CFG = [
    dict(shape="quad", space="l1", cub="gauss-legendre:2", level=0, perm_c=0, perm_f=0, affine=[], offsets=[]),
    dict(shape="quad", space="l1", cub="barycentre", level=0, perm_c=0, perm_f=0, affine=[], offsets=[]),
    dict(shape="tria", space="l1", cub="barycentre", level=1, perm_c=0, perm_f=0, affine=[], offsets=[]),
    dict(shape="quad", space="l2", cub="simpson", level=1, perm_c=1, perm_f=2, affine=[], offsets=[]),
    dict(shape="tria", space="l2", cub="dunavant:5", level=1, perm_c=4, perm_f=3, affine=[], offsets=[F(1, 32), F(-1, 32), F(0)]),
    dict(shape="hexa", space="l1", cub="simpson", level=0, perm_c=0, perm_f=1, affine=[], offsets=[]),
    dict(shape="tetra", space="l1", cub="trapezoidal", level=0, perm_c=2, perm_f=1, affine=[], offsets=[]),
    dict(shape="quad", space="d1", cub="newton-cotes-closed:5", level=1, perm_c=0, perm_f=6, affine=[], offsets=[]),
]


def family_cfgs(tier):
    """deterministic: every (shape, element family) once, graded geometry, a sufficient rule, one mesh permuted"""
    g2 = [F(1, 32), F(-1, 16), F(0), F(1, 16), F(-1, 32)]
    g3 = [F(1, 16), F(-1, 8), F(0), F(1, 8), F(-1, 16), F(1, 32), F(0)]
    rows = [("quad", "l1", "simpson", 1), ("quad", "l2", "newton-cotes-closed:5", 0), ("quad", "l3", "gauss-legendre:4", 0),
            ("quad", "b2", "newton-cotes-closed:5", 0), ("quad", "d0", "barycentre", 1), ("quad", "d1", "simpson", 1),
            ("quad", "cr", "simpson", 1),
            ("tria", "l1", "lauffer-degree-2", 1), ("tria", "l2", "dunavant:5", 0), ("tria", "l3", "dunavant:6", 0),
            ("tria", "d0", "barycentre", 1), ("tria", "d1", "lauffer-degree-2", 1), ("tria", "cr", "dunavant:4", 1),
            ("hexa", "l1", "simpson", 0), ("hexa", "d0", "barycentre", 0), ("hexa", "cr", "simpson", 0),
            ("tetra", "l1", "hammer-stroud-degree-2", 0), ("tetra", "d0", "barycentre", 0)]
    if tier == "thorough":
        rows += [("hexa", "l2", "simpson", 0), ("tetra", "l2", "hammer-stroud-degree-5", 0),
                 ("tetra", "cr", "hammer-stroud-degree-2", 0)]
    out = []
    for k, (shape, space, cub, level) in enumerate(rows):
        out.append(dict(shape=shape, space=space, cub=cub, level=level, perm_c=[0, 1, 4][k % 3], perm_f=[3, 0, 2][k % 3],
                        affine=[], offsets=(g2 if DIM[shape] == 2 else g3)))
    return out


def perm_state_cfgs():
    """deterministic: every permutation strategy x every permutation state (none/none, coarse only, fine only, both)
    on four small graded base configurations; each `fe` case runs the matrix AND the matrix-free path"""
    # all bases are GRADED (non-congruent cells): a lookup that mixes permuted and unpermuted cell indices is invisible
    # on meshes of congruent cells
    bases = [dict(shape="tria", space="l1", cub="lauffer-degree-2", level=1, affine=[],
                  offsets=[F(1, 32), F(-1, 16), F(0), F(1, 16), F(-1, 32)]),
             dict(shape="quad", space="l2", cub="simpson", level=1, affine=[], offsets=[F(1, 32), F(-1, 32), F(0)]),
             dict(shape="tetra", space="l1", cub="hammer-stroud-degree-2", level=0, affine=[],
                  offsets=[F(1, 16), F(-1, 8), F(0), F(1, 8), F(-1, 16), F(1, 32), F(0)]),
             # non-parametric element: also the *prolongation* depends on the geometry of the coarse cell, so a coarse
             # evaluator prepared for the wrong (permuted/unpermuted) cell index is visible in P, not only in T
             dict(shape="quad", space="cr", cub="simpson", level=1, affine=[],
                  offsets=[F(1, 32), F(-1, 16), F(0), F(1, 16), F(-1, 32)])]
    out = []
    for b in bases:
        states = [(0, 0)]
        # every strategy on the two quadrilateral bases; the triangle / tetrahedron bases share the seven strategies
        strategies = range(1, 8) if b["shape"] == "quad" else ((1, 3, 4, 6) if b["shape"] == "tria" else (2, 5, 7))
        for st in strategies:
            states += [(st, 0), (0, st), (st, st)]
            if b["space"] == "cr":
                states.append((st, st % 7 + 1))
        for pc, pf in states:
            c = dict(b)
            c["perm_c"], c["perm_f"] = pc, pf
            out.append(c)
    return out


# ---------------------------------------------------------------------------------------------
# parsing
# ---------------------------------------------------------------------------------------------

class Tk:
    def __init__(self, s):
        self.t = s.split()
        self.p = 0

    def done(self):
        return self.p >= len(self.t)

    def tok(self):
        self.p += 1
        return self.t[self.p - 1]

    def nat(self):
        return int(self.tok())

    def q(self):
        return vlib.parse_frac(self.tok())

    def nlist(self):
        n = self.nat()
        return [self.nat() for _ in range(n)]

    def qlist(self):
        n = self.nat()
        return [self.q() for _ in range(n)]

    def expect(self, s):
        t = self.tok()
        if t != s:
            raise ValueError("expected %s, got %s" % (s, t))

    def dense(self):
        r, c = self.nat(), self.nat()
        return [[self.q() for _ in range(c)] for _ in range(r)]

    def csr(self):
        r, c = self.nat(), self.nat()
        return r, c, self.nlist(), self.nlist(), self.qlist()

    def config(self):
        c = dict(shape=self.tok(), space=self.tok(), cub=self.tok(), level=self.nat(), perm_c=self.nat(), perm_f=self.nat())
        c["affine"] = self.qlist()
        c["offsets"] = self.qlist()
        return c

    def dump(self, dim=0):
        """mesh-indexed ingredients -> per (coarse cell, child) data through the oracle's own cell lookups
        (2-level ordering c*nchild+child, forward coarse permutation, inverse fine permutation)"""
        self.expect("D")
        nf, nc, ncells, nchild, nfine, npts = [self.nat() for _ in range(6)]
        self.expect("CP")
        cp = self.nlist()
        self.expect("FP")
        fp = self.nlist()
        self.expect("PAT")
        self.pat = (self.nlist(), self.nlist())
        self.expect("REF")
        self.ref = self.qlist()
        coarse = []
        for _ in range(ncells):
            cmap = self.nlist()
            cpts = []
            for _ in range(self.nat()):
                w = self.q()
                cpts.append((w, [self.q() for _ in cmap]))
            ref = []
            for _ in range(nchild * npts):
                cv = [self.q() for _ in cmap]
                ref.append((cv, [self.q() for _ in range(dim)]))
            coarse.append((cmap, cpts, ref))
        fine = []
        for _ in range(nfine):
            fmap = self.nlist()
            pts = []
            for _ in range(npts):
                w = self.q()
                fv = [self.q() for _ in fmap]
                pts.append((w, fv, [self.q() for _ in range(dim)]))
            fine.append((fmap, pts))
        if (cp and sorted(cp) != list(range(ncells))) or (fp and sorted(fp) != list(range(nfine))):
            raise ValueError("permutation arrays are not permutations")
        self.perm_state = ("c" if cp else "-") + ("f" if fp else "-")
        cells = []
        for i, (cmap, cpts, ref) in enumerate(coarse):
            c2 = cp[i] if cp else i
            children = []
            for ch in range(nchild):
                f2 = c2 * nchild + ch
                fc = fp[f2] if fp else f2
                fmap, fpts = fine[fc]
                pts = [(fpts[k][0], fpts[k][1], ref[ch * npts + k][0], fpts[k][2], ref[ch * npts + k][1]) for k in range(npts)]
                children.append((fmap, pts))
            cells.append((cmap, cpts, children))
        return nf, nc, cells


def is_abnormal(out):
    return out.split(":")[0] in ("ABORT", "EXC", "TIMEOUT", "SIGNAL", "SANITIZER", "EXIT") or \
        out in ("HANG", "BAD-OP", "STALE-DUMP", "BAD-VECTOR-SIZE")


def canon(out):
    h = out.split(":")[0]
    if h in ("ABORT", "EXC"):
        return h
    return out


def csr_dense(r, c, rp, ci, va, need_sorted=False):
    if not rp and not ci and not va:
        return [[F(0)] * c for _ in range(r)]       # container without arrays
    if need_sorted and any(ci[k] >= ci[k + 1] for i in range(r) for k in range(rp[i], rp[i + 1] - 1)):
        raise ValueError("column indices of a row not strictly increasing")
    if len(rp) != r + 1 or rp[0] != 0 or rp[-1] != len(ci) or len(ci) != len(va) or any(rp[i] > rp[i + 1] for i in range(r)):
        raise ValueError("malformed CSR arrays")
    m = [[F(0)] * c for _ in range(r)]
    for i in range(r):
        for k in range(rp[i], rp[i + 1]):
            if not (0 <= ci[k] < c):
                raise ValueError("column index out of range")
            m[i][ci[k]] += va[k]
    return m


def matvec(m, x):
    return [sum((a * b for a, b in zip(row, x)), F(0)) for row in m]


def transpose(m, r, c):
    return [[m[i][j] for i in range(r)] for j in range(c)]


def matmul(a, b):
    bt = list(zip(*b)) if b and b[0] else []
    return [[sum((x * y for x, y in zip(row, col)), F(0)) for col in bt] for row in a]


def is_identity(m, exact, tol=F(1, 10 ** 9)):
    for i, row in enumerate(m):
        for j, v in enumerate(row):
            e = F(1) if i == j else F(0)
            if (v != e) if exact else (abs(v - e) > tol):
                return "entry (%d,%d) = %s" % (i, j, float(v))
    return None


# ---------------------------------------------------------------------------------------------
# the oracle
# ---------------------------------------------------------------------------------------------

def same_function(pd, nf, nc, cells, xs, what):
    """the prolongated coefficient vectors represent the same function as the coarse ones at every dumped point"""
    for x in xs:
        px = matvec(pd, x)
        for ci_, (cmap, _cpts, children) in enumerate(cells):
            for ch, (fmap, pts) in enumerate(children):
                for k, (w, fv, cv, xf, xc) in enumerate(pts):
                    uf = sum((px[fmap[i]] * fv[i] for i in range(len(fmap))), F(0))
                    uc = sum((x[cmap[j]] * cv[j] for j in range(len(cmap))), F(0))
                    if uf != uc:
                        return "%s: prolongated function differs from the coarse function in coarse cell %d child %d " \
                               "point %d: %s vs %s" % (what, ci_, ch, k, uf, uc)
    return None


def rand_vectors(case, n, count=2):
    rng = random.Random(int(hashlib.sha256(case[:4000].encode()).hexdigest()[:12], 16))
    return [[small_q(rng) for _ in range(n)] for _ in range(count)] + \
        [[F(1) if i == k else F(0) for i in range(n)] for k in ([rng.randrange(n)] if n else [])]


def check_global(o, p, pt, t, x, y, what_exact):
    """sections LT GU GN FLAGS GM: every transfer object must give P x, P^T y, T y, T P x"""
    px = matvec(p, x)
    exp = [px, matvec(pt, y), matvec(t, y), matvec(t, px)]
    names = ["prol is not P x", "rest is not P^T y (wrong stored matrix?)", "trunc is not T y (wrong stored matrix?)",
             "trunc(prol(x)) is not T P x"]
    for tag, who in (("LT", "LAFEM::Transfer"), ("GU", "un-muxed Global::Transfer"),
                     ("GN", "Global::Transfer with a non-child muxer"), ("GM", "muxed Global::Transfer")):
        if tag == "GM":
            o.expect("FLAGS")
            fl = [o.nat(), o.nat(), o.nat()]
            if fl != [1, 1, 0]:
                return "single-process muxer is not child+parent (flags %s): the muxed branch is not exercised" % fl
        o.expect(tag)
        for k in range(4):
            v = o.qlist()
            if v != exp[k]:
                return "%s: %s" % (who, names[k])
        if what_exact and exp[3] != x:
            return "trunc(prol(x)) != x"
    return None


TWIN_TAGS = [("OR", "the transfer object"), ("CV", "the converted (u64 -> u32) LAFEM::Transfer"),
             ("CB", "the back-converted (u32 -> u64) LAFEM::Transfer"), ("CS", "the shallow clone"), ("CW", "the weak clone"),
             ("CD", "the deep clone"), ("CC", "the default clone"), ("GUV", "the converted un-muxed Global::Transfer"),
             ("GMV", "the converted muxed Global::Transfer"), ("GUC", "the cloned un-muxed Global::Transfer"),
             ("GMW", "the weakly cloned muxed Global::Transfer"), ("GMD", "the deeply cloned muxed Global::Transfer")]


def csr_sig(vals):
    return sum(((k + 1) * v for k, v in enumerate(vals)), F(0))


def check_twins(o, p, pt, t, x, y, sig_p=None, sig_r=None, sig_t=None):
    """sections after TW: convert() / clone() must copy prolongation from prolongation, restriction from restriction,
    truncation from truncation: every twin computes P x, P^T y, T y, T P x and shows the same three matrices"""
    o.expect("TW")
    px = matvec(p, x)
    exp = [px, matvec(pt, y), matvec(t, y), matvec(t, px)]
    names = ["prol is not P x", "rest is not P^T y (filled from the wrong source matrix?)",
             "trunc is not T y (filled from the wrong source matrix?)", "trunc(prol(x)) is not T P x"]
    first = None
    for tag, who in TWIN_TAGS:
        o.expect(tag)
        for k in range(4):
            if o.qlist() != exp[k]:
                return "%s: %s" % (who, names[k])
        o.expect("M")
        sigs = []
        for _ in range(3):
            sigs.append((o.nat(), o.nat(), o.nat(), o.q()))
        if first is None:
            first = sigs
            nf, nc = len(y), len(x)
            if [s_[:2] for s_ in sigs] != [(nf, nc), (nc, nf), (nc, nf)]:
                return "matrix getters show wrong dimensions"
            for k, ref in enumerate((sig_p, sig_r, sig_t)):
                if ref is not None and sigs[k][2:] != ref:
                    return "matrix getter %d of the transfer object does not show the stored matrix" % k
        elif sigs != first:
            return "%s: the matrix getters show other matrices than the original object" % who
    return None


def oracle(case, out):
    try:
        return _oracle(case, out)
    except (IndexError, ValueError, AssertionError, ZeroDivisionError) as e:
        return "unparsable implementation output (%s: %s): %s" % (type(e).__name__, e, out[:160])


def _oracle(case, out):
    c = Tk(case)
    op = c.tok()
    if op == "inv":
        n, stride = c.nat(), c.nat()
        a = [[c.q() for _ in range(n)] for _ in range(n)]
        kind = INV_KIND.get(case, "")
        if is_abnormal(out):
            if kind in ("spd", "diagdom") or (n == 1 and a[0][0] != 0):
                return "inversion of a %s matrix ended with %s" % (kind or "regular 1x1", out)
            if out.startswith("ABORT"):
                return None  # diagonal pivoting hit an exactly zero pivot (singular or not positive definite input)
            return "invert_matrix ended with " + out
        o = Tk(out)
        o.expect("I")
        det = o.q()
        inv = o.qlist()
        piv = o.nlist()
        if o.tok() != "PAD-OK":
            return "entries outside the n x n block were modified"
        if n == 0 or stride < n:
            return None if (det == 0 and not inv) else "invalid arguments must return 0 and touch nothing"
        x = [inv[i * n:(i + 1) * n] for i in range(n)]
        e = is_identity(matmul(x, a), True) or is_identity(matmul(a, x), True)
        if e:
            return "returned matrix is not the inverse: " + e
        if det != det_frac(a):
            return "returned determinant %s, expected %s" % (det, det_frac(a))
        if n >= 2 and sorted(piv) != list(range(n)):
            return "pivot array is not a permutation"
        return None
    if op == "xfer":
        pr, pc, prp, pci, pva = c.csr()
        tr, tc, trp, tci, tva = c.csr()
        x, y = c.qlist(), c.qlist()
        if is_abnormal(out):
            return "transfer operators ended with " + out
        p = csr_dense(pr, pc, prp, pci, pva)
        t = csr_dense(tr, tc, trp, tci, tva)
        o = Tk(out)
        o.expect("R")
        rr, rc, rrp, rci, rva = o.csr()
        if (rr, rc) != (pc, pr):
            return "restriction has dimensions %dx%d" % (rr, rc)
        if len(rva) != len(pva):
            return "restriction stores %d entries, the prolongation %d" % (len(rva), len(pva))
        r = csr_dense(rr, rc, rrp, rci, rva)
        if r != transpose(p, pr, pc):
            return "restriction is not the transpose of the prolongation"
        o.expect("XP")
        if o.qlist() != matvec(p, x):
            return "Transfer::prol is not P x"
        o.expect("XR")
        if o.qlist() != matvec(transpose(p, pr, pc), y):
            return "Transfer::rest is not P^T y"
        o.expect("XT")
        if o.qlist() != matvec(t, y):
            return "Transfer::trunc is not T y"
        return check_twins(o, p, transpose(p, pr, pc), t, x, y, (len(pva), csr_sig(pva)), (len(rva), csr_sig(rva)),
                           (len(tva), csr_sig(tva)))
    if op == "cert":
        # certificates computed by the Lean driver on the real ingredients: hypotheses of C18.prolongation_exact_certified
        # (NEST, MAPS) and C18.truncation_prolongation_identity (CONS, INT, MAPS)
        cfg = c.config()
        suff, exact = rule_info(cfg["shape"], cfg["space"], cfg["cub"], bool(cfg["offsets"]))
        if not out.startswith("CERT "):
            return None if (not suff and out in ("ABORT", "EXC")) else "no certificates: " + out[:60]
        nest, cons, integ, maps = [int(v) for v in out.split()[1:5]]
        param = out.split()[5]
        derived = (cfg["shape"], cfg["space"]) in (("quad", "l1"), ("quad", "l2"), ("tria", "l1"), ("tria", "l2"),
                                                    ("hexa", "l1"), ("hexa", "l2"))
        if derived and param != "1":
            return "basis values of a parametric Lagrange element are not the reference polynomials at (xi, A_c xi): PARAM=%s" % param
        if NESTED[cfg["space"]]:
            if not (nest and cons and maps):
                return "hypotheses of the exactness theorems fail on a nested element family: NEST=%d CONS=%d MAPS=%d" % (
                    nest, cons, maps)
            if exact == "exact" and not integ:
                return "the refined rule does not reproduce the coarse mass matrix although the rule is exact (INT=0)"
        return None
    if op == "childmap":
        # independent statement of the refinement of the reference cell: the children tile it (weights sum to the
        # parent weight) and the refined points of the barycentric/centre point are the children's centres
        shape = c.tok()
        xi = []
        while not c.done():
            xi.append(c.q())
        if is_abnormal(out):
            return "rule refinement ended with " + out
        o = Tk(out)
        o.expect("CM")
        pts, ws = o.qlist(), o.qlist()
        dim = len(xi)
        nch = {"line": 2, "quad": 4, "hexa": 8, "tria": 4}[shape]
        if len(ws) != nch or sum(ws) != 1 or len(pts) != nch * dim:
            return "refined one-point rule does not have %d points of total weight 1" % nch
        if shape != "tria":
            for ch in range(nch):
                for d in range(dim):
                    exp = xi[d] / 2 + (F(1, 2) if (ch >> d) & 1 else F(-1, 2))
                    if pts[ch * dim + d] != exp:
                        return "child %d is not the sub-cube with offset bits of %d" % (ch, ch)
        else:
            vs = [[(0, 0), (F(1, 2), 0), (0, F(1, 2))], [(F(1, 2), 0), (1, 0), (F(1, 2), F(1, 2))],
                  [(0, F(1, 2)), (F(1, 2), F(1, 2)), (0, 1)], [(F(1, 2), F(1, 2)), (0, F(1, 2)), (F(1, 2), 0)]]
            for ch in range(4):
                w = 1 - xi[0] - xi[1]
                for a in range(2):
                    exp = w * vs[ch][0][a] + xi[0] * vs[ch][1][a] + xi[1] * vs[ch][2][a]
                    if pts[ch * 2 + a] != exp:
                        return "child triangle %d is not the expected sub-triangle" % ch
        return None
    if op == "fxfer":
        # value-type conversion double <-> float on the real code: every member of the converted objects within float
        # rounding of the exact products (a matrix filled from the wrong source is an O(1) error)
        pr, pc, prp, pci, pva = c.csr()
        tr, tc, trp, tci, tva = c.csr()
        x, y = c.qlist(), c.qlist()
        if is_abnormal(out):
            return "converted transfer operators ended with " + out
        p = csr_dense(pr, pc, prp, pci, pva)
        t = csr_dense(tr, tc, trp, tci, tva)
        pt = transpose(p, pr, pc)
        px = matvec(p, x)
        exp = [px, matvec(pt, y), matvec(t, y), matvec(t, px)]

        def absmat(m):
            return [[abs(v) for v in row] for row in m]
        mag = [matvec(absmat(p), [abs(v) for v in x]), matvec(absmat(pt), [abs(v) for v in y]),
               matvec(absmat(t), [abs(v) for v in y]), matvec(absmat(t), matvec(absmat(p), [abs(v) for v in x]))]
        names = ["prol is not P x", "rest is not P^T y", "trunc is not T y", "trunc(prol(x)) is not T P x"]
        toks = out.split()
        pos = 1
        for tag, who, eps in (("DD", "the <double,u64> transfer", 2.0 ** -52), ("DF", "converted to <float,u32>", 2.0 ** -24),
                              ("FD", "converted back to <double,u64>", 2.0 ** -24), ("FC", "deep clone of the float object", 2.0 ** -24)):
            if toks[pos] != tag:
                return "unparsable output near " + toks[pos]
            pos += 1
            for k in range(4):
                n = int(toks[pos]); pos += 1
                vals = [float(v) for v in toks[pos:pos + n]]; pos += n
                if n != len(exp[k]):
                    return "%s: wrong vector length" % who
                for i in range(n):
                    tol = 64 * eps * (float(mag[k][i]) + 1e-30) + 1e-300
                    if abs(vals[i] - float(exp[k][i])) > tol:
                        return "%s: %s (entry %d: %r, exact %r)" % (who, names[k], i, vals[i], float(exp[k][i]))
        return None
    if op == "gforbid":
        return None if out.startswith("ABORT") else "a ghost-only member / prol_cancel did not assert: " + out[:60]
    if op == "gxfer":
        pr, pc, prp, pci, pva = c.csr()
        tr, tc, trp, tci, tva = c.csr()
        x, y = c.qlist(), c.qlist()
        if is_abnormal(out):
            return "global transfer operators ended with " + out
        p = csr_dense(pr, pc, prp, pci, pva)
        t = csr_dense(tr, tc, trp, tci, tva)
        o = Tk(out)
        o.expect("G")
        e = check_global(o, p, transpose(p, pr, pc), t, x, y, False)
        if e:
            return e
        return check_twins(o, p, transpose(p, pr, pc), t, x, y, (len(pva), csr_sig(pva)), None, (len(tva), csr_sig(tva)))
    if op in ("fe", "feo"):
        cfg = c.config()
        suff, exact = rule_info(cfg["shape"], cfg["space"], cfg["cub"], bool(cfg["offsets"]))
        nested = NESTED[cfg["space"]]
        if not nested:
            exact = None
        if is_abnormal(out):
            if suff or not (out.startswith("ABORT") or out.startswith("EXC")):
                return "grid transfer with a sufficient cubature rule ended with " + out
            return None
        o = Tk(out)
        if op == "fe":
            c.expect("X")
            x = c.qlist()
            c.expect("Y")
            y = c.qlist()
            nf, nc, cells = c.dump()
            o.expect("W"); w = o.qlist()
            o.expect("P"); praw = o.dense()
            o.expect("PD"); pd = o.dense()
            o.expect("WT"); wt = o.qlist()
            o.expect("T"); traw = o.dense()
            o.expect("TD"); td = o.dense()
            o.expect("R"); r = o.dense()
            o.expect("PC"); pcsr = o.csr()
            o.expect("RC"); rcsr = o.csr()
            o.expect("VF"); vf = o.qlist()
            o.expect("VW"); vw = o.qlist()
            o.expect("VD"); vd = o.qlist()
            o.expect("XP"); xp = o.qlist()
            o.expect("XR"); xr = o.qlist()
            o.expect("XT"); xt = o.qlist()
            o.expect("G")
            e = check_global(o, pd, r, td, x, y, exact == "exact")
            if e:
                return e
            e = check_twins(o, pd, r, td, x, y, (len(pcsr[4]), csr_sig(pcsr[4])), (len(rcsr[4]), csr_sig(rcsr[4])), None)
            if e:
                return e
            if len(pd) != nf or any(len(row) != nc for row in pd):
                return "prolongation has wrong dimensions"
            if any(v <= 0 for v in w) or w != vw:
                return "weight vectors inconsistent"
            if pd != [[v / w[i] for v in row] for i, row in enumerate(praw)]:
                return "direct prolongation is not the weight-normalised raw prolongation"
            if td != [[v / wt[i] for v in row] for i, row in enumerate(traw)]:
                return "direct truncation is not the weight-normalised raw truncation"
            e = same_function(pd, nf, nc, cells, [x] + rand_vectors(case, nc), "assembly points") if nested else None
            if e:
                return e
            if r != transpose(pd, nf, nc):
                return "restriction is not the transpose of the prolongation"
            if csr_dense(*pcsr, need_sorted=True) != pd or (list(pcsr[2]), list(pcsr[3])) != (c.pat[0], c.pat[1]):
                return "CSR arrays of the prolongation do not match its entries / its 2-level layout"
            if (rcsr[0], rcsr[1]) != (nc, nf) or csr_dense(*rcsr, need_sorted=True) != transpose(pd, nf, nc) \
                    or len(rcsr[4]) != len(pcsr[4]):
                return "restriction (CSR arrays) is not the transpose of the prolongation"
            e = is_identity(matmul(td, pd), exact == "exact") if exact else None
            if e:
                return "truncation is not a left inverse of the prolongation: " + e
            px = matvec(pd, x)
            if vd != px or vf != [a * b for a, b in zip(px, w)]:
                return "matrix-free prolongation differs from the assembled matrix"
            if xp != px:
                return "Transfer::prol differs from P x"
            if xr != matvec(r, y):
                return "Transfer::rest differs from R y"
            if xt != matvec(td, y):
                return "Transfer::trunc differs from T y"
            return None
        # feo
        c.tok()
        c.expect("X")
        x = c.qlist()
        o.expect("PD"); pd = o.dense()
        o.expect("TD"); td = o.dense()
        o.expect("R"); rr, rc, rrp, rci, rva = o.csr()
        o.expect("PCSR"); pr, pc, prp, pci, pva = o.csr()
        o.expect("VD"); vd = o.qlist()
        o.expect("XP"); xp = o.qlist()
        o.expect("XTP"); xtp = o.qlist()
        o.expect("IP")
        npoly = o.nat()
        nf, nc = len(pd), (len(pd[0]) if pd else 0)
        if csr_dense(pr, pc, prp, pci, pva) != pd:
            return "CSR arrays of the prolongation do not match its entries"
        if csr_dense(rr, rc, rrp, rci, rva) != transpose(pd, nf, nc):
            return "restriction (CSR) is not the transpose of the prolongation"
        px = matvec(pd, x)
        if vd != px:
            return "matrix-free prolongation differs from the assembled matrix"
        if xp != px:
            return "Transfer::prol differs from P x"
        if xtp != matvec(td, px):
            return "Transfer::trunc differs from T y"
        e = is_identity(matmul(td, pd), exact == "exact") if exact else None
        if e:
            return "truncation is not a left inverse of the prolongation: " + e
        for k in range(npoly):
            ic, jf, pf = o.qlist(), o.qlist(), o.qlist()
            if pf != matvec(pd, ic):
                return "Transfer::prol differs from P x"
            # the node functionals of the face-mean elements integrate with Gauss rules whose nodes are 53-bit rationals:
            # their dof values are only accurate to rounding level, everything else is exact
            tol = F(0) if nested else F(1, 10 ** 9)
            if any(abs(a - b) > tol for a, b in zip(pf, jf)) or len(pf) != len(jf):
                bad = [i for i in range(len(jf)) if abs(pf[i] - jf[i]) > tol]
                return "P interp_c(u) != interp_f(u) for coarse-space polynomial %d at fine dofs %s" % (k, bad[:6])
        o.expect("S")
        dim = o.nat()
        snf, snc, cells = o.dump(dim)
        if (snf, snc) != (nf, nc):
            return "sample dump has other dimensions"
        seen_f = set()
        for cmap, _cp, children in cells:
            for fmap, pts in children:
                seen_f.add(tuple(fmap))
                for (w, fv, cv, xf, xc) in pts:
                    if xf != xc:
                        return "child cell is not where the refined cubature rule puts it: fine point %s, coarse point %s" % (
                            [float(v) for v in xf], [float(v) for v in xc])
        if len(seen_f) != sum(len(ch) for _, _, ch in cells):
            return "coarse-fine cell mapping visits a fine cell twice"
        e = same_function(pd, nf, nc, cells, [x] + rand_vectors(case, nc), "sample points") if nested else None
        if e:
            return e
        return None
    return None


INV_KIND = {}


def nontrivial(case):
    t = case.split(None, 8)
    if t[0] == "inv":
        return int(t[1]) >= 2
    if t[0] in ("xfer", "gxfer", "fxfer"):
        return len(case.split()) > 24
    if t[0] in ("gforbid", "childmap"):
        return True
    if t[0] in ("fe", "feo", "cert"):
        return not (t[2] == "d0" and t[4] == "0")
    return False


def describe(case):
    t = case.split(None, 36)
    keys = ["op:" + t[0]]
    if t[0] == "inv":
        keys.append("inv-n:" + t[1])
        keys.append("inv-kind:" + INV_KIND.get(case, "corpus"))
    if t[0] in ("fe", "feo", "cert"):
        keys += ["shape:" + t[1], "space:%s/%s" % (t[1], t[2]), "cub:" + t[3], "level:" + t[4],
                 "perm:%s" % ("none" if t[5] == "0" and t[6] == "0" else "coarse" if t[6] == "0" else "fine" if t[5] == "0" else "both"),
                 "geometry:" + ("unit" if t[7] == "0" and t[8] == "0" else
                                "affine" if t[8 + int(t[7])] == "0" else "non-affine")]
    return keys


def signature(case, out, why):
    t = case.split(None, 4)
    return "%s:%s" % (" ".join(t[:4]) if t[0] in ("fe", "feo") else t[0], (why or "")[:60])


def sample_cub(cfg):
    if cfg["shape"] in HYPER:
        return "gauss-legendre:3" if cfg["shape"] == "quad" or cfg["space"] != "l2" else "gauss-legendre:3"
    return "dunavant:5" if cfg["shape"] == "tria" else "hammer-stroud-degree-5"


def build_fe_cases(rng, binary, cfgs):
    """dump the ingredients of every configuration with the harness, then form the `fe` / `feo` case lines"""
    dumps = vlib.run_lines([binary], ["dump " + cfg_str(c) for c in cfgs], env={"VERIF_CASE_TIMEOUT": "600"})
    fe, feo, skipped = [], [], 0
    for c, d in zip(cfgs, dumps):
        if not d.startswith("D "):
            skipped += 1
            continue
        t = d.split(None, 3)
        nf, nc = int(t[1]), int(t[2])
        x = [small_q(rng) for _ in range(nc)]
        y = [small_q(rng) for _ in range(nf)]
        fe.append("fe %s X %s Y %s %s" % (cfg_str(c), fmt_q(x), fmt_q(y), d))
        polys = gen_polys(rng, c)
        ptxt = " ".join("%d %s" % (len(p), " ".join("%d %d %d %s" % (a, b, cc, fs(co)) for a, b, cc, co in p)) for p in polys)
        feo.append("feo %s %s X %s POLY %d %s" % (cfg_str(c), sample_cub(c), fmt_q(x), len(polys), ptxt))
    # longest cases first: vlib.run_lines deals the cases round-robin to the worker processes
    order = sorted(range(len(fe)), key=lambda i: -len(fe[i]))
    return [fe[i] for i in order], [feo[i] for i in order], skipped


def main(argv):
    args = vlib.std_args(argv)
    t0 = time.time()
    rng = random.Random(args.seed * 1000003 + 18)
    lean = None if args.no_lean else vlib.lean_check(PROP, leanchecker=(args.tier == "thorough"))
    d = os.path.join(vlib.VERIF, "harness", "c18")
    binary, err = vlib.build_harness("c18", os.path.join(d, "main.cpp"),
                                     extra_srcs=[os.path.join(d, "fe_%s.cpp" % s) for s in ("quad", "tria", "hexa", "tetra")] +
                                     [os.path.join(d, "gxfer.cpp")])
    if binary is None:
        v = [{"property": PROP, "kind": "harness-build-failure", "detail": err, "failing_input": None,
              "broken": "harness c18 does not compile against the current tree"}]
        return vlib.finish(PROP, args.tier, args.seed, t0, lean, [], [], v, [])
    env = {"VERIF_CASE_TIMEOUT": "1500"}
    skipped = 0
    if args.replay:
        case = json.load(open(args.replay))["input"]
        alg = [case] if case.split()[0] in ("inv", "xfer", "gxfer", "gforbid", "childmap") else []
        fe = [case] if case.startswith("fe ") else []
        if case.startswith("cert "):
            return vlib.run_pipeline(PROP, args.tier, args.seed, lean, [vlib.Stream(
                "certificates", [case], vlib.driver_cmd(PROP), None, oracle=oracle, canon=canon)], t0)
        feo = [case] if case.startswith("feo ") else []
    else:
        n_alg, n_fe = (1500, 12) if args.tier == "quick" else (20000, 250)
        alg = list(CORPUS)
        for _ in range(n_alg):
            k = rng.random()
            if k < 0.55:
                line, kind = gen_inv(rng)
                INV_KIND[line] = kind
                alg.append(line)
            elif k < 0.80:
                alg.append(gen_xfer(rng))
            elif k < 0.85:
                alg.append(gen_childmap(rng))
            else:
                alg.append(gen_gxfer(rng))
        cfgs = list(CORPUS_CFG) + perm_state_cfgs() + family_cfgs(args.tier) + [gen_config(rng, args.tier) for _ in range(n_fe)]
        fe, feo, skipped = build_fe_cases(rng, binary, cfgs)
    streams = []
    if alg:
        streams.append(vlib.Stream("algebra", alg, [binary], vlib.driver_cmd(PROP), oracle=oracle, nontrivial=nontrivial,
                                   canon=canon, describe=describe, signature=signature, env=env))
    if fe:
        streams.append(vlib.Stream("fe", fe, [binary], vlib.driver_cmd(PROP), oracle=oracle, nontrivial=nontrivial,
                                   canon=canon, describe=describe, signature=signature, env=env))
    if not args.replay:
        frng = random.Random(args.seed * 7919 + 18)
        fx = ["fxfer" + c[5:] for c in CORPUS if c.startswith("gxfer ")] + \
            ["fxfer" + gen_gxfer(frng)[5:] for _ in range(200 if args.tier == "quick" else 3000)]
        streams.append(vlib.Stream("float-convert", fx, [binary], None, oracle=oracle, nontrivial=nontrivial,
                                   canon=canon, describe=describe, signature=signature, env=env))
    elif args.replay and json.load(open(args.replay))["input"].startswith("fxfer "):
        streams.append(vlib.Stream("float-convert", [json.load(open(args.replay))["input"]], [binary], None, oracle=oracle,
                                   canon=canon))
    if fe and not args.replay:
        cert = ["cert" + c[2:] for c in fe]
        streams.append(vlib.Stream("certificates", cert, vlib.driver_cmd(PROP), None, oracle=oracle, nontrivial=nontrivial,
                                   canon=canon, describe=describe, signature=signature, env=env))
    if feo:
        streams.append(vlib.Stream("fe-oracle", feo, [binary], None, oracle=oracle, nontrivial=nontrivial,
                                   canon=canon, describe=describe, signature=signature, env=env))
    rule = ("algebra: random matrices n = 0..8 (SPD, diagonally dominant, general, singular, ties, zero diagonal; stride >= n "
            "and invalid), random CSR prolongation/truncation matrices 0..13 x 0..8 incl. empty, unsorted rows, explicit "
            "zeros; fe: quads/triangles (levels 0-2), hexahedra/tetrahedra (level 0-1), Lagrange1/2, Bernstein2, "
            "discontinuous P0/P1, 20 tensor + 18 simplex cubature rules (also insufficient ones), 7 mesh permutation "
            "strategies on either level (deterministically: every strategy x {none/none, coarse only, fine only, both} "
            "on 3 base configurations, matrix and matrix-free path in every case), unit / scaled / affine / "
            "non-affinely distorted geometry; non-trivial = n >= 2 "
            "(inv), >= 2 stored entries (xfer), shared fine dofs or >= 2 coarse cells (fe); configurations whose rule "
            "name is unknown for the shape are skipped (%d skipped)" % skipped)
    return vlib.run_pipeline(PROP, args.tier, args.seed, lean, streams, t0, assumptions=[
        "scalars are exact rationals (the same template source runs at double in production; rounding is outside C18's claim here)",
        "the ingredients of an fe case (basis values, weights, dof mappings, cell mapping) are read off the real evaluators "
        "by the harness; the FE-level meaning of these ingredients is checked by the independent oracle, not by the model",
        "the CSR layout of the prolongation matrix (SymbolicAssembler 2-level graph) is an input of the fe cases; its "
        "validity (hypothesis of C18.restriction_is_transpose) is checked per case by the oracle, not proved",
        "PermutationStrategy::lexicographic cannot be instantiated at Q (static constexpr Coord_ tol_) and is not covered",
        "Global::Transfer is run on one process (un-muxed and muxed branch with the serial Dist::Comm); the ghost-only "
        "members (_send/_recv) are only checked to assert there; multi-process join/split/sync is C13's subject"],
        extra_cov={"rule": rule, "skipped_unknown_rule": skipped})
