"""C08 - preconditioners apply exactly their defining linear operator."""
import json
import os
import random
import time
from fractions import Fraction as Fr

import vlib

PROP = "C08"

OMEGAS = [Fr(1), Fr(1, 2), Fr(3, 2), Fr(7, 4), Fr(2, 3), Fr(5, 4), Fr(1), Fr(9, 10)]
SENTINEL = Fr(777)


# ---------------------------------------------------------------------------------------------
# generators
# ---------------------------------------------------------------------------------------------

def fq(x):
    return vlib.frac_str(Fr(x))


def fmt_q(l):
    return ("%d " % len(l) + " ".join(fq(x) for x in l)).strip()


def fmt_n(l):
    return ("%d " % len(l) + " ".join(map(str, l))).strip()


def rand_val(rng, nonzero=True):
    while True:
        k = rng.random()
        if k < 0.6:
            v = Fr(rng.randint(-5, 5))
        elif k < 0.9:
            v = Fr(rng.randint(-7, 7), rng.choice([2, 3, 4]))
        else:
            v = Fr(rng.randint(-30, 30), rng.choice([1, 7, 10]))
        if v != 0 or not nonzero:
            return v


def gen_pattern(rng, n, style=None):
    """square pattern with sorted rows, every row stores its diagonal"""
    style = style or rng.choice(["tri", "sparse", "sparse", "dense", "lower", "upper", "arrow", "diag", "diagrows", "band2",
                                 "revarrow"])
    rows = []
    for i in range(n):
        s = {i}
        if style == "tri":
            s |= {j for j in (i - 1, i + 1) if 0 <= j < n}
        elif style == "diagrows":   # about half of the rows store ONLY their diagonal entry
            if rng.random() < 0.5:
                s |= {j for j in range(n) if rng.random() < 0.4}
        elif style == "sparse":
            s |= {j for j in range(n) if rng.random() < 0.3}
        elif style == "dense":
            s |= {j for j in range(n) if rng.random() < 0.8}
        elif style == "lower":
            s |= {j for j in range(i) if rng.random() < 0.5}
        elif style == "upper":
            s |= {j for j in range(i + 1, n) if rng.random() < 0.5}
        elif style == "arrow":  # first row/column full: complete fill-in under elimination
            s |= {0} | (set(range(n)) if i == 0 else set())
        elif style == "revarrow":  # last row/column full: no fill-in at all
            s |= {n - 1} | (set(range(n)) if i == n - 1 else set())
        elif style == "band2":
            s |= {j for j in (i - 2, i - 1, i + 1, i + 2) if 0 <= j < n and rng.random() < 0.8}
        rows.append(sorted(s))
    return style, rows


def gen_values(rng, rows, dominant=None, block=1, commuting=None):
    """values per stored entry (block*block scalars each, row-major); diagonal (blocks) non-singular.
    commuting = a block x block matrix M: every block is a polynomial a I + b M + c M^2 (so all blocks commute)"""
    dominant = rng.random() < 0.7 if dominant is None else dominant
    vals = []
    if commuting is not None:
        m1 = commuting
        m2 = mmul(m1, m1)
        for i, r in enumerate(rows):
            for j in r:
                while True:
                    a, b, cc = rand_val(rng, nonzero=False), Fr(rng.randint(-2, 2)), Fr(rng.randint(-1, 1))
                    if j == i and dominant:
                        a += 40 if a >= 0 else -40
                    m = [[(a if x == y else 0) + b * m1[x][y] + cc * m2[x][y] for y in range(block)] for x in range(block)]
                    if j != i or (det(m) != 0 and all(m[d][d] != 0 for d in range(block))):
                        break
                vals.extend(x for row in m for x in row)
        return vals
    for i, r in enumerate(rows):
        for j in r:
            if block == 1:
                if j == i:
                    v = rand_val(rng)
                    if dominant:
                        v = v + (8 if v > 0 else -8)
                else:
                    v = rand_val(rng, nonzero=rng.random() < 0.9)
                vals.append(v)
            else:
                while True:
                    m = [[rand_val(rng, nonzero=False) for _ in range(block)] for _ in range(block)]
                    if j == i:
                        if dominant:
                            for d in range(block):
                                m[d][d] += 9 if m[d][d] >= 0 else -9
                        if any(m[d][d] == 0 for d in range(block)) or det(m) == 0:
                            continue
                    break
                vals.extend(x for row in m for x in row)
    return vals


def fmt_csr(rows, vals):
    rp = [0]
    ci = []
    for r in rows:
        ci.extend(r)
        rp.append(len(ci))
    return "%d %s %s %s" % (len(rows), fmt_n(rp), fmt_n(ci), fmt_q(vals))


def rand_vec(rng, n):
    return [rand_val(rng, nonzero=False) for _ in range(n)]


def gen_steps(rng, kind, rows, n, block=1, erroneous_ok=True, commuting=None):
    """history on one solver object; returns the step token string"""
    steps = []
    nv = n * block

    def A(x=None):
        steps.append("A " + fmt_q(x if x is not None else rand_vec(rng, nv)))

    def U():
        steps.append("U " + fmt_q(gen_values(rng, rows, block=block, commuting=commuting)))

    h = rng.random()
    if h < 0.40:      # the standard life cycle with value updates
        steps += ["S", "N"]
        A()
        for _ in range(rng.randint(1, 3)):
            U()
            steps.append("N")
            A()
        steps.append("D")
    elif h < 0.60:    # linearity triple: x1, x2, a*x1 + b*x2
        steps += ["S", "N"]
        x1, x2 = rand_vec(rng, nv), rand_vec(rng, nv)
        a, b = rand_val(rng), rand_val(rng)
        A(x1)
        A(x2)
        A([a * u + b * v for u, v in zip(x1, x2)])
        steps.append("D")
    elif h < 0.72:    # stale: apply after an update without init_numeric, then refresh
        steps += ["S", "N"]
        A()
        U()
        A()
        steps.append("N")
        A()
        steps.append("D")
    elif h < 0.84:    # full re-initialisation
        steps += ["S", "N"]
        A()
        steps.append("D")
        U()
        steps += ["S", "N"]
        A()
        steps.append("D")
    elif h < 0.94:
        steps += ["S", "N"]
        A()
        steps.append("D")
    else:             # erroneous order (only where the outcome is defined behaviour): apply before init
        if erroneous_ok and kind in ("jac", "poly"):
            A()
        else:
            steps += ["S", "N", "N"]
            A()
            A()
            steps.append("D")
    return "%d %s" % (len(steps), " ".join(steps))


def gen_filter(rng, n):
    k = rng.choice([0, 0, 0, 1, 1, 2, 3])
    return sorted(rng.sample(range(n), min(k, n)))


def gen_hist(rng, big=False, kind=None):
    kind = kind or rng.choice(["jac", "sor", "sor", "ssor", "ssor", "poly", "ilu", "ilu", "ilu", "mat"])
    n = rng.choice([1, 2, 3, 3, 4, 4, 5, 6, 7, 8] + ([10, 12, 16] if big else []))
    style, rows = gen_pattern(rng, n)
    vals = gen_values(rng, rows)
    omega = rng.choice(OMEGAS)
    p = 0
    if kind == "poly":
        p = rng.choice([1, 1, 2, 3, 4])
    if kind == "ilu":
        p = rng.choice([0, 0, 1, 1, 2, 3, n, -1])
    return "hist %s %d %s %s %s %s" % (kind, p, fq(omega), fmt_csr(rows, vals), fmt_n(gen_filter(rng, n)),
                                       gen_steps(rng, kind, rows, n))


def gen_iluf(rng, big=False):
    n = rng.choice([1, 2, 3, 4, 4, 5, 5, 6, 7, 8] + ([10, 12, 16] if big else []))
    style, rows = gen_pattern(rng, n)
    vals = gen_values(rng, rows)
    p = rng.choice([0, 0, 1, 1, 2, 2, 3, n, -1])
    return "iluf %d %s %s" % (p, fmt_csr(rows, vals), fmt_q(rand_vec(rng, n)))


def gen_histb(rng, big=False):
    """BCSR histories: general (non-commuting) blocks, every omega, every pattern; a fifth of the ILU cases uses
    mutually commuting blocks (polynomials of one matrix) as an extra input class."""
    bs = rng.choice([2, 2, 3])
    kind = rng.choice(["jac", "sor", "ssor", "ssor", "ilu", "ilu", "mat"])
    n = rng.choice([1, 2, 2, 3, 3, 4] + ([5, 6] if big else []))
    commuting = None
    if kind == "ilu" and rng.random() < 0.2:
        commuting = [[Fr(rng.randint(-2, 2)) for _ in range(bs)] for _ in range(bs)]
    style, rows = gen_pattern(rng, n)
    vals = gen_values(rng, rows, block=bs, commuting=commuting)
    omega = rng.choice(OMEGAS)
    p = rng.choice([0, 1, 2, n]) if kind == "ilu" else 0
    return "histb %d %s %d %s %s %s %s" % (bs, kind, p, fq(omega), fmt_csr(rows, vals), fmt_n(gen_filter(rng, n)),
                                          gen_steps(rng, kind, rows, n, block=bs, erroneous_ok=False,
                                                    commuting=commuting))


def gen_fill_refresh(rng, count):
    """deterministic part of every tier: ILU(p >= 1) histories whose level-p pattern has REAL fill-in (positions that
    `copy_data` must reset to zero) and at least three `init_numeric` calls with value updates in between, so that
    stale fill-in entries of an earlier factorisation would be visible (model/impl disagreement + oracle)."""
    cases = []
    while len(cases) < count:
        n = rng.choice([3, 4, 5, 6, 7, 8])
        style, rows = gen_pattern(rng, n, rng.choice(["arrow", "sparse", "band2", "tri", "dense"]))
        p = rng.choice([1, 1, 2, 3, n])
        pat = level_pattern(n, rows, p)
        if sum(map(len, pat)) <= sum(map(len, rows)):
            continue   # no fill-in at this level
        steps = ["S", "N", "A " + fmt_q(rand_vec(rng, n))]
        for _ in range(rng.randint(2, 4)):
            steps += ["U " + fmt_q(gen_values(rng, rows)), "N", "A " + fmt_q(rand_vec(rng, n))]
        steps.append("D")
        cases.append("hist ilu %d 1/1 %s %s %d %s" % (p, fmt_csr(rows, gen_values(rng, rows)), fmt_n(gen_filter(rng, n)),
                                                    len(steps), " ".join(steps)))
    return cases


def level_pattern_variant(n, rows, p, mode):
    """the level-p pattern under a WRONG level bookkeeping (used only to SELECT inputs that are sensitive to it):
    mode 'first' = an existing entry keeps its first level, 'last' = the newest level always overwrites,
    'max' = the larger level wins.  mode 'min' is the textbook rule."""
    INF = 10 ** 30
    lev = [[INF] * n for _ in range(n)]
    for i, r in enumerate(rows):
        for j in r:
            lev[i][j] = 0
    if p >= 1:
        for i in range(n):
            for k in range(i):
                if lev[i][k] <= p:
                    for j in range(k + 1, n):
                        if lev[k][j] <= p:
                            l = lev[i][k] + lev[k][j] + 1
                            if l > p:
                                continue   # never stored
                            old = lev[i][j]
                            if old == INF or mode == "last" or (mode == "min" and l < old) or (mode == "max" and l > old):
                                lev[i][j] = l
    return [[j for j in range(n) if lev[i][j] <= max(p, 0)] for i in range(n)]


def multipath_sensitive(n, rows, p):
    good = level_pattern(n, rows, p)
    return any(level_pattern_variant(n, rows, p, m) != good for m in ("first", "last", "max"))


# skeleton with an entry reached through two pivots with different levels and a dependent entry:
# (1,3) is level-1 fill via pivot 0; (4,3) gets level 2 via pivot 1 and level 1 via pivot 2; (4,5) via pivot 3 has
# level lev(4,3) + 1, i.e. 2 only if the minimum was kept.  OPTIONAL entries are switched on in all combinations.
MP_SKELETON = [(1, 0), (0, 3), (4, 1), (4, 2), (2, 3), (3, 5)]
MP_OPTIONAL = [(5, 4), (2, 0), (0, 5), (5, 3), (3, 1), (1, 4), (5, 0)]


def gen_multipath(rng, nrandom):
    """deterministic part of every tier for the level bookkeeping of ILU(p), p >= 2: all 2^7 extensions of the
    6x6 multi-path skeleton and of its transpose, every p in {0,1,2,3,4,n}, plus `nrandom` random patterns (n = 5..9)
    that are verified to be sensitive to a wrong level rule at their p; each as `iluf` (exact pattern + factors)
    and as an `hist ilu` apply."""
    cases = []

    def emit(n, rows, p):
        if p >= 2:
            rp = [0]
            for r in rows:
                rp.append(rp[-1] + len(r))
            cases.append("ilulev %d %d %s %s" % (p, n, fmt_n(rp), fmt_n([c for r in rows for c in r])))
        vals = gen_values(rng, rows, dominant=True)
        cases.append("iluf %d %s %s" % (p, fmt_csr(rows, vals), fmt_q(rand_vec(rng, n))))
        cases.append("hist ilu %d 1/1 %s 0 4 S N A %s D" % (p, fmt_csr(rows, vals), fmt_q(rand_vec(rng, n))))

    n = 6
    for transpose in (False, True):
        for mask in range(1 << len(MP_OPTIONAL)):
            ent = list(MP_SKELETON) + [e for b, e in enumerate(MP_OPTIONAL) if mask >> b & 1]
            if transpose:
                ent = [(c, r) for r, c in ent]
            rows = [sorted({i} | {c for r, c in ent if r == i}) for i in range(n)]
            for p in (0, 1, 2, 3, 4, n):
                if p in (2, 3, 4) or mask % 16 == 0:   # the insensitive levels only for a sample
                    emit(n, rows, p)
    got, tries = 0, 0
    while got < nrandom and tries < 200 * nrandom:
        tries += 1
        n = rng.choice([5, 6, 7, 8, 9])
        style, rows = gen_pattern(rng, n, rng.choice(["sparse", "sparse", "band2", "lower", "dense"]))
        p = rng.choice([2, 2, 3, 4])
        if multipath_sensitive(n, rows, p):
            emit(n, rows, p)
            got += 1
    return cases


def offdiag_update(rng, rows, vals, block):
    """new values that differ from `vals` only OFF the (block) diagonal"""
    new = gen_values(rng, rows, block=block)
    k = 0
    out = []
    for i, r in enumerate(rows):
        for j in r:
            w = block * block
            out.extend(vals[k:k + w] if j == i else new[k:k + w])
            k += w
    return out


def gen_filter_desc(rng, n, bs, ftype):
    if ftype == "unit":
        return "unit " + fmt_n(gen_filter(rng, n))
    if ftype == "none":
        return "none"
    if ftype == "mean":
        N = n * bs
        prim = [Fr(rng.randint(1, 4)) for _ in range(N)]
        dual = [Fr(rng.randint(1, 5), rng.choice([1, 2, 3])) for _ in range(N)]   # volume > 0
        return "mean %s %s" % (fmt_q(prim), fmt_q(dual))
    if ftype == "slip":
        idx = gen_filter(rng, n) or [rng.randrange(n)]
        parts = []
        for i in idx:
            nu = [rand_val(rng, nonzero=False) for _ in range(bs)]
            if all(v == 0 for v in nu):
                nu[0] = Fr(1)
            parts.append("%d %s" % (i, " ".join(fq(v) for v in nu)))
        return "slip %d %s" % (len(idx), " ".join(parts))
    raise ValueError(ftype)


SCALAR_KINDS = ["jac", "sor", "ssor", "poly", "ilu", "mat", "scale", "diag"]
BLOCK_KINDS = ["jac", "sor", "ssor", "ilu", "mat", "scale", "diag"]


def gen_sessions(rng, reps):
    """deterministic part of every tier: for EVERY preconditioner kind, storage format (CSR, BCSR 2x2, 3x3) and filter type
    (unit / none / mean resp. slip) one multi-step session per repetition on one solver object:
      init -> apply -> ALL values change (incl. the diagonal) -> done_numeric + init_numeric only -> apply ->
      only OFF-diagonal values change -> init_numeric -> apply -> in-place apply(v, v) -> done, new values,
      full init -> apply -> done.
    Every apply is compared with the model and with the dense operator of the CURRENT values."""
    cases = []
    for rep in range(reps):
        for bs in (1, 2, 3):
            kinds = SCALAR_KINDS if bs == 1 else BLOCK_KINDS
            for kind in kinds:
                for ftype in (["unit", "none", "mean"] if bs == 1 else ["unit", "none", "slip"]):
                    n = rng.choice([3, 4, 5]) if bs == 1 else rng.choice([2, 3])
                    style, rows = gen_pattern(rng, n, "diag" if kind == "diag" else rng.choice(["tri", "sparse", "dense", "arrow", "band2"]))
                    p = rng.choice([0, 1, 2]) if kind == "ilu" else (rng.choice([1, 2, 3]) if kind == "poly" else 0)
                    omega = rng.choice(OMEGAS)
                    nv = n * bs

                    def vals_():
                        return gen_values(rng, rows, dominant=True, block=bs)

                    def x_():
                        return fmt_q(rand_vec(rng, nv))
                    v0 = vals_()
                    v1 = vals_()
                    v2 = offdiag_update(rng, rows, v1, bs)
                    v3 = vals_()
                    steps = ["S", "N", "A " + x_(), "U " + fmt_q(v1), "E", "N", "A " + x_(),
                             "U " + fmt_q(v2), "N", "A " + x_()]
                    if kind != "mat":
                        steps.append("I " + x_())
                    steps += ["D", "U " + fmt_q(v3), "S", "N", "A " + x_(), "D"]
                    head = "hist" if bs == 1 else "histb %d" % bs
                    cases.append("%s %s %d %s %s %s %d %s" % (head, kind, p, fq(omega), fmt_csr(rows, v0),
                                                              gen_filter_desc(rng, n, bs, ftype), len(steps), " ".join(steps)))
        # the in-place call of the matrix preconditioner must be refused (aliased vectors), not silently wrong
        n = 3
        style, rows = gen_pattern(rng, n, "tri")
        cases.append("hist mat 0 1/1 %s none 3 S N I %s" % (fmt_csr(rows, gen_values(rng, rows)), fmt_q(rand_vec(rng, n))))
    return cases


BOUNDARY_SIZES_QUICK = [127, 128, 129, 255, 256, 257, 1000, 1001]
BOUNDARY_SIZES_THOROUGH = [32767, 32768, 65535, 65536, 65537]
INT_MAX = 2147483647


def boundary_matrix(rng, n, tail=6):
    """n x n sparse matrix: the first rows store ONLY their diagonal (a_ii * omega != 1), the last `tail` rows are coupled
    (tridiagonal among themselves plus an entry in column 0 and one in the last column); the interesting content sits at
    the highest indices"""
    rows = []
    for i in range(n):
        if i < n - tail:
            rows.append([i] if i > 0 or n <= tail else sorted({0, n - 1}))
        else:
            rows.append(sorted({0, i, n - 1} | {j for j in (i - 1, i + 1) if n - tail <= j < n}))
    vals = []
    for i, r in enumerate(rows):
        for j in r:
            vals.append(Fr(rng.choice([3, 5, 7, -6, 9])) if j == i else Fr(rng.choice([1, -1, 2, -2]), rng.choice([1, 2])))
    return rows, vals


def boundary_vec(rng, n, tail=8):
    return [Fr(0) if i < n - tail and i % 97 else Fr(rng.randint(-3, 3), rng.choice([1, 2])) for i in range(n)]


def fill_row_matrix(rng, m):
    """n = m + 2: row 0 has U entries in the columns 1..m, the LAST row has an entry in column 0, all other rows are
    diagonal: ILU(p >= 1) puts exactly m fill-ins (level 1) into the last row"""
    n = m + 2
    rows = [[0] + list(range(1, m + 1))] + [[i] for i in range(1, n - 1)] + [[0, n - 1]]
    vals = []
    for i, r in enumerate(rows):
        for j in r:
            vals.append(Fr(rng.choice([4, 5, 7, -6])) if j == i else Fr(rng.choice([1, -1, 2]), rng.choice([1, 2])))
    return n, rows, vals


def gen_boundary(rng, thorough):
    """stream `boundary-sizes`: sizes / counts just below, at and above 128, 256, 1000 (thorough: 32768, 65536) and the
    boundaries found in the sources: `int` levels and fill level p up to INT_MAX, rows with > 255 fill-ins, unit filters
    crossing the 1000-slot allocation step of SparseVector, BCSR block sizes 4..7 (Tiny inverse: closed formulas up to
    6x6, generic elimination from 7x7), polynomial degree 127..1000; the interesting entries sit at the highest indices"""
    cases = []
    sizes = BOUNDARY_SIZES_QUICK + (BOUNDARY_SIZES_THOROUGH if thorough else [])
    for n in sizes:
        rows, vals = boundary_matrix(rng, n)
        kinds = ["sor", "ssor", "jac"] if n < 2000 else [rng.choice(["sor", "ssor"]), "jac"]
        for kind in kinds:
            filt = sorted({n - 1 - rng.randrange(4), n - 2 - rng.randrange(3)})
            cases.append("hist %s 0 %s %s unit %s 4 S N A %s D" % (kind, fq(rng.choice([Fr(3, 2), Fr(1, 2), Fr(7, 4)])),
                                                                   fmt_csr(rows, vals), fmt_n(filt), fmt_q(boundary_vec(rng, n))))
        if n < 2000:
            cases.append("iluf %d %s %s" % (rng.choice([0, 1, 2]), fmt_csr(rows, vals), fmt_q(boundary_vec(rng, n))))
    # unit filter entries across the 1000-slot allocation step of the SparseVector (entries at the high end)
    for k in (999, 1000, 1001):
        n = 1100
        rows = [[i] for i in range(n)]
        vals = [Fr(rng.choice([2, 3, -4, 5])) for _ in range(n)]
        idx = list(range(n - k, n))
        rng.shuffle(idx)
        cases.append("hist jac 0 3/2 %s unit %s 4 S N A %s D" % (fmt_csr(rows, vals), fmt_n(idx), fmt_q(boundary_vec(rng, n, 120))))
    # fill-in counts of ONE row around 128 / 256 (/ 1000) and fill levels up to INT_MAX
    for m in [127, 128, 129, 255, 256, 257] + ([1000, 1001] if thorough else []):
        n, rows, vals = fill_row_matrix(rng, m)
        rp = [0]
        for r in rows:
            rp.append(rp[-1] + len(r))
        cases.append("ilulev 2 %d %s %s" % (n, fmt_n(rp), fmt_n([c for r in rows for c in r])))
        cases.append("iluf %d %s %s" % (rng.choice([1, 2, INT_MAX]), fmt_csr(rows, vals), fmt_q(boundary_vec(rng, n))))
    for p in (255, 256, 32767, 32768, 65536, INT_MAX - 1, INT_MAX):
        n = rng.choice([5, 6, 7])
        style, rows = gen_pattern(rng, n, "sparse")
        vals = gen_values(rng, rows, dominant=True)
        cases.append("iluf %d %s %s" % (p, fmt_csr(rows, vals), fmt_q(rand_vec(rng, n))))
        cases.append("hist ilu %d 1/1 %s 0 4 S N A %s D" % (p, fmt_csr(rows, vals), fmt_q(rand_vec(rng, n))))
    # polynomial degree (Index m): nilpotent iteration matrix (omega = 1, triangular A) keeps the numbers small
    for m in [127, 128, 255, 256] + ([1000, 1001] if thorough else []):
        rows = [[0], [0, 1], [1, 2], [0, 2, 3]]
        vals = [Fr(2), Fr(1), Fr(4), Fr(-1), Fr(5), Fr(1, 2), Fr(1), Fr(3)]
        cases.append("hist poly %d 1/1 %s 0 4 S N A %s D" % (m, fmt_csr(rows, vals), fmt_q(rand_vec(rng, 4))))
    # BCSR block sizes up to the largest instantiated (unit filter)
    for bs in (4, 5, 6, 7):
        for kind in ("sor", "ssor", "ilu", "jac", "mat"):
            n = 2
            rows = [[0, 1], [0, 1]]
            vals = gen_values(rng, rows, dominant=True, block=bs)
            v1 = gen_values(rng, rows, dominant=True, block=bs)
            cases.append("histb %d %s %d %s %s 1 %d 7 S N A %s U %s N A %s D" % (
                bs, kind, 0, fq(Fr(3, 2)), fmt_csr(rows, vals), rng.randrange(2), fmt_q(rand_vec(rng, n * bs)),
                fmt_q(v1), fmt_q(rand_vec(rng, n * bs))))
    # 1 x 1 and pure diagonal matrices for every scalar kind (a_ii * omega != 1)
    for kind in SCALAR_KINDS:
        for n in (1, 4):
            rows = [[i] for i in range(n)]
            vals = [Fr(rng.choice([3, -5, 7, 9])) for _ in range(n)]
            cases.append("hist %s %d 3/2 %s 0 4 S N A %s D" % (kind, 1 if kind in ("poly", "ilu") else 0, fmt_csr(rows, vals),
                                                              fmt_q([Fr(rng.randint(1, 5)) for _ in range(n)])))
    return cases


def gen_cases(rng, count, big=False):
    cases = []
    for _ in range(count):
        k = rng.random()
        if k < 0.55:
            cases.append(gen_hist(rng, big))
        elif k < 0.75:
            cases.append(gen_iluf(rng, big))
        elif k < 0.92:
            cases.append(gen_histb(rng, big))
        elif k < 0.96:
            n = rng.choice([1, 2, 3, 5, 8])
            cases.append("scale %s %s %s" % (fq(rng.choice(OMEGAS + [Fr(0), Fr(-2)])), fmt_n(gen_filter(rng, n)),
                                             fmt_q(rand_vec(rng, n))))
        else:
            n = rng.choice([1, 2, 3, 5, 8])
            cases.append("diag %s %s %s" % (fmt_q(rand_vec(rng, n)), fmt_n(gen_filter(rng, n)), fmt_q(rand_vec(rng, n))))
    return cases


CORPUS = [
    # hand-made smoke cases (tridiagonal 3x3), the stale-factor history and the defined error outcomes
    "hist sor 0 3/2 3 4 0 2 5 7 7 0 1 0 1 2 1 2 7 2/1 1/1 1/1 3/1 1/1 1/1 4/1 1 1 4 S N A 3 1/1 2/1 3/1 D",
    "hist ssor 0 3/2 3 4 0 2 5 7 7 0 1 0 1 2 1 2 7 2/1 1/1 1/1 3/1 1/1 1/1 4/1 0 4 S N A 3 1/1 2/1 3/1 D",
    "hist jac 0 1/2 3 4 0 2 5 7 7 0 1 0 1 2 1 2 7 2/1 1/1 1/1 3/1 1/1 1/1 4/1 0 7 S N A 3 1/1 2/1 3/1 "
    "U 7 5/1 1/1 1/1 3/1 1/1 1/1 4/1 A 3 1/1 2/1 3/1 N A 3 1/1 2/1 3/1 D",
    "hist ilu 1 1/1 3 4 0 2 5 7 7 0 1 0 1 2 1 2 7 2/1 1/1 1/1 3/1 1/1 1/1 4/1 0 4 S N A 3 1/1 2/1 3/1 D",
    "iluf 2 4 5 0 3 5 7 10 10 0 1 3 0 1 2 3 0 2 3 10 2/1 1/1 1/1 1/1 3/1 4/1 1/1 1/1 1/1 5/1 4 1/1 2/1 3/1 4/1",
    "hist ilu 0 1/1 2 3 0 2 4 4 0 1 0 1 4 1/1 1/1 1/1 1/1 0 2 S N",
    "hist jac 0 1/2 3 4 0 2 5 7 7 0 1 0 1 2 1 2 7 2/1 1/1 1/1 3/1 1/1 1/1 4/1 0 1 A 3 1/1 2/1 3/1",
    # regression cases of the two defects found by this check and fixed in /repo (FINDINGS_C08.md):
    # F1 blocked SSOR did not scale by omega (2 - omega): expected 3/8 3/8 (= 3/4 * D^-1 x), the old code gave 1/2 1/2
    "histb 2 ssor 0 3/2 1 2 0 1 1 0 4 2/1 0/1 0/1 2/1 0 4 S N A 2 1/1 1/1 D",
    "histb 2 ssor 0 1/2 2 3 0 2 4 4 0 1 0 1 16 4/1 1/1 0/1 4/1 1/1 0/1 0/1 1/1 1/1 0/1 2/1 1/1 5/1 0/1 1/1 5/1 0 4 "
    "S N A 4 1/1 2/1 3/1 4/1 D",
    # F2 blocked ILU multiplied L_ij with the inverse pivot from the left: complete pattern, expected A^-1 e_0
    "histb 2 ilu 0 1/1 2 3 0 2 4 4 0 1 0 1 16 1/1 1/1 0/1 1/1 1/1 0/1 0/1 1/1 1/1 0/1 1/1 1/1 5/1 0/1 0/1 5/1 0 4 "
    "S N A 4 1/1 0/1 0/1 0/1 D",
]

# exact expected outputs of the regression cases (checked in addition to the generic oracle)
REGRESSION_EXPECT = {
    "histb 2 ssor 0 3/2 1 2 0 1 1 0 4 2/1 0/1 0/1 2/1 0 4 S N A 2 1/1 1/1 D": "R 2 3/8 3/8 U1",
}


# ---------------------------------------------------------------------------------------------
# independent oracle: dense exact linear algebra in Fractions
# ---------------------------------------------------------------------------------------------

class Tk:
    def __init__(self, s):
        self.t = s.split()
        self.p = 0

    def done(self):
        return self.p >= len(self.t)

    def tok(self):
        self.p += 1
        return self.t[self.p - 1]

    def nat(self):
        return int(self.tok())

    def nlist(self):
        n = self.nat()
        return [self.nat() for _ in range(n)]

    def qlist(self):
        n = self.nat()
        return [vlib.parse_frac(self.tok()) for _ in range(n)]


def is_abnormal(out):
    return out.split(":")[0] in ("ABORT", "EXC", "TIMEOUT", "SIGNAL", "SANITIZER", "EXIT") or out.startswith("BAD-OP")


def det(m):
    m = [list(r) for r in m]
    n = len(m)
    d = Fr(1)
    for c in range(n):
        piv = next((r for r in range(c, n) if m[r][c] != 0), None)
        if piv is None:
            return Fr(0)
        if piv != c:
            m[c], m[piv] = m[piv], m[c]
            d = -d
        d *= m[c][c]
        for r in range(c + 1, n):
            f = m[r][c] / m[c][c]
            if f != 0:
                for k in range(c, n):
                    m[r][k] -= f * m[c][k]
    return d


def solve(m, b):
    """Gaussian elimination with pivot search; None if singular"""
    n = len(m)
    a = [list(r) + [b[i]] for i, r in enumerate(m)]
    for c in range(n):
        piv = next((r for r in range(c, n) if a[r][c] != 0), None)
        if piv is None:
            return None
        a[c], a[piv] = a[piv], a[c]
        inv = 1 / a[c][c]
        a[c] = [v * inv for v in a[c]]
        for r in range(n):
            if r != c and a[r][c] != 0:
                f = a[r][c]
                a[r] = [v - f * w for v, w in zip(a[r], a[c])]
    return [a[i][n] for i in range(n)]


def matvec(m, x):
    return [sum((a * b for a, b in zip(r, x) if a != 0), Fr(0)) for r in m]


def dense_of(n, rp, ci, vals, bs=1):
    N = n * bs
    m = [[Fr(0)] * N for _ in range(N)]
    for i in range(n):
        for k in range(rp[i], rp[i + 1]):
            j = ci[k]
            for a in range(bs):
                for b in range(bs):
                    m[i * bs + a][j * bs + b] += vals[k * bs * bs + a * bs + b]
    return m


def split_ldu(m, n, bs=1):
    """block lower / block diagonal / block upper parts of the dense matrix"""
    N = n * bs
    L = [[Fr(0)] * N for _ in range(N)]
    D = [[Fr(0)] * N for _ in range(N)]
    U = [[Fr(0)] * N for _ in range(N)]
    for r in range(N):
        for c in range(N):
            t = L if r // bs > c // bs else (U if r // bs < c // bs else D)
            t[r][c] = m[r][c]
    return L, D, U


def madd(a, b, fa=Fr(1), fb=Fr(1)):
    return [[fa * x + fb * y for x, y in zip(r, s)] for r, s in zip(a, b)]


def apply_filter(v, filt, bs=1, mode="cor"):
    """the filter of the case applied to the pod vector v.  filt: list of indices (unit filter, the historic form) or
    ("unit", idx) | ("none",) | ("mean", prim, dual) | ("slip", [(i, nu)])"""
    v = list(v)
    if isinstance(filt, list):
        filt = ("unit", filt)
    if filt[0] == "unit":
        for i in filt[1]:
            for a in range(bs):
                v[i * bs + a] = Fr(0)
    elif filt[0] == "mean":
        prim, dual = filt[1], filt[2]
        if prim:
            vol = sum(a * b for a, b in zip(prim, dual))
            if mode == "cor":    # vector -= (vector . dual) / vol * prim
                t = sum(a * b for a, b in zip(v, dual)) / vol
                v = [a - t * b for a, b in zip(v, prim)]
            else:                # filter_def: vector -= (vector . prim) / vol * dual
                t = sum(a * b for a, b in zip(v, prim)) / vol
                v = [a - t * b for a, b in zip(v, dual)]
    elif filt[0] == "slip":
        for i, nu in sorted(dict(filt[1]).items()):
            blk_ = v[i * bs:(i + 1) * bs]
            sp = sum(a * b for a, b in zip(blk_, nu)) / sum(a * a for a in nu)
            v[i * bs:(i + 1) * bs] = [a - sp * b for a, b in zip(blk_, nu)]
    return v


def parse_filter(c, bs):
    """filter descriptor of a history line (see harness/c08/main.cpp)"""
    t = c.t[c.p]
    if t[0].isdigit():
        return ("unit", c.nlist())
    c.tok()
    if t == "unit":
        return ("unit", c.nlist())
    if t == "none":
        return ("none",)
    if t == "mean":
        return ("mean", c.qlist(), c.qlist())
    if t == "slip":
        k = c.nat()
        return ("slip", [(c.nat(), [vlib.parse_frac(c.tok()) for _ in range(bs)]) for _ in range(k)])
    raise ValueError("filter " + t)


def level_pattern(n, rows, p):
    """textbook level-of-fill: lev(i,j) = 0 on the pattern, lev(i,j) = min(lev(i,k) + lev(k,j) + 1) over k < min(i,j)"""
    INF = 10 ** 30
    lev = [[INF] * n for _ in range(n)]
    for i, r in enumerate(rows):
        for j in r:
            lev[i][j] = 0
    if p >= 1:
        for i in range(n):
            for k in range(i):
                if lev[i][k] <= p:
                    for j in range(k + 1, n):
                        if lev[k][j] <= p:
                            l = lev[i][k] + lev[k][j] + 1
                            if l < lev[i][j]:
                                lev[i][j] = l
    return [[j for j in range(n) if lev[i][j] <= max(p, 0)] for i in range(n)]


def blk(m, i, j, bs):
    return [[m[i * bs + a][j * bs + b] for b in range(bs)] for a in range(bs)]


def mmul(a, b):
    n = len(a)
    return [[sum((a[i][k] * b[k][j] for k in range(n)), Fr(0)) for j in range(n)] for i in range(n)]


def minv(a):
    n = len(a)
    cols = []
    for c in range(n):
        e = [Fr(1) if r == c else Fr(0) for r in range(n)]
        s = solve(a, e)
        if s is None:
            return None
        cols.append(s)
    return [[cols[c][r] for c in range(n)] for r in range(n)]


def ilu_reference(n, rows, p, dense, bs=1):
    """textbook (block) IKJ incomplete factorisation on the level-p pattern.
    returns (pattern, Lfull, Ufull) as dense N x N matrices with L unit (block) lower, or None on a singular pivot"""
    pat = level_pattern(n, rows, p)
    pset = [set(r) for r in pat]
    w = [[blk(dense, i, j, bs) if j in pset[i] else None for j in range(n)] for i in range(n)]
    for i in range(n):
        for k in sorted(c for c in pset[i] if c < i):
            inv = minv(w[k][k])
            if inv is None:
                return pat, None, None
            w[i][k] = mmul(w[i][k], inv)
            for j in sorted(c for c in pset[k] if c > k):
                if j in pset[i]:
                    prod = mmul(w[i][k], w[k][j])
                    w[i][j] = madd(w[i][j], prod, Fr(1), Fr(-1))
        if minv(w[i][i]) is None:
            return pat, None, None
    N = n * bs
    L = [[Fr(1) if r == c else Fr(0) for c in range(N)] for r in range(N)]
    U = [[Fr(0)] * N for _ in range(N)]
    for i in range(n):
        for j in pset[i]:
            t = L if j < i else U
            for a in range(bs):
                for b in range(bs):
                    t[i * bs + a][j * bs + b] = w[i][j][a][b]
    return pat, L, U


def expected_apply(kind, p, omega, n, rows, dense, fidx, x, bs=1):
    """the property's operator applied to x; returns list, or 'ABORT' where the operator does not exist"""
    N = n * bs
    if kind == "scale":
        return apply_filter([omega * v for v in x], fidx, bs)
    if kind == "diag":     # dense = the vector of the diagonal preconditioner here
        return apply_filter([a * b for a, b in zip(dense, x)], fidx, bs)
    L, D, U = split_ldu(dense, n, bs)
    if kind == "mat":
        return apply_filter(matvec(dense, x), fidx, bs)
    if kind == "jac":
        if any(dense[i][i] == 0 for i in range(N)):
            return "ABORT"
        return apply_filter([omega * x[i] / dense[i][i] for i in range(N)], fidx, bs)
    if kind == "sor":
        y = solve(madd(D, L, 1 / omega, Fr(1)), x)
        return "ABORT" if y is None else apply_filter(y, fidx, bs)
    if kind == "ssor":
        y = solve(madd(D, L, Fr(1), omega), x)
        if y is None:
            return "ABORT"
        z = solve(madd(D, U, Fr(1), omega), matvec(D, y))
        if z is None:
            return "ABORT"
        return apply_filter([omega * (2 - omega) * v for v in z], fidx, bs)
    if kind == "poly":
        if any(dense[i][i] == 0 for i in range(N)):
            return "ABORT"
        mt = [omega / dense[i][i] for i in range(N)]
        term = [mt[i] * x[i] for i in range(N)]
        acc = list(term)
        for _ in range(p):
            at = apply_filter(matvec(dense, term), fidx, bs, mode="def")
            term = [term[i] - mt[i] * at[i] for i in range(N)]
            acc = [a + t for a, t in zip(acc, term)]
        return apply_filter(acc, fidx, bs)
    if kind == "ilu":
        pat, Lf, Uf = ilu_reference(n, rows, p, dense, bs)
        if Lf is None:
            return "ABORT"
        y = solve(Lf, x)
        z = solve(Uf, y)
        if z is None:
            return "ABORT"
        # the property's second clause: a complete factorisation is the exact inverse
        if all(len(r) == n for r in pat) and matvec(dense, z) != list(x):
            return "ORACLE-INCONSISTENT"
        return apply_filter(z, fidx, bs)
    raise ValueError(kind)


def parse_hist(c, blocked):
    bs = c.nat() if blocked else 1
    kind = c.tok()
    p = int(c.tok())
    omega = vlib.parse_frac(c.tok())
    n = c.nat()
    rp, ci, vals = c.nlist(), c.nlist(), c.qlist()
    fidx = parse_filter(c, bs)
    ns = c.nat()
    steps = []
    for _ in range(ns):
        s = c.tok()
        if s in ("A", "I"):
            steps.append((s, c.qlist()))
        elif s == "U":
            steps.append(("U", c.qlist()))
        else:
            steps.append((s, None))
    return bs, kind, p, omega, n, rp, ci, vals, fidx, steps


STATELESS = ("sor", "ssor", "mat", "scale", "diag")


def sparse_expected(kind, omega, n, rp, ci, vals, filt, x):
    """the operator on a big sparse scalar matrix, row by row from the CSR arrays (boundary-size cases)"""
    rowd = [[(ci[k], vals[k]) for k in range(rp[i], rp[i + 1])] for i in range(n)]
    diag = [next(v for c_, v in rowd[i] if c_ == i) for i in range(n)] if kind in ("jac", "sor", "ssor") else None
    if kind == "scale":
        y = [omega * v for v in x]
    elif kind == "diag":
        y = [a * b for a, b in zip(vals, x)]
    elif kind == "mat":
        y = [sum((v * x[c_] for c_, v in rowd[i]), Fr(0)) for i in range(n)]
    elif kind == "jac":
        y = [omega * x[i] / diag[i] for i in range(n)]
    elif kind == "sor":      # (D/omega + L) y = x
        y = [Fr(0)] * n
        for i in range(n):
            y[i] = omega * (x[i] - sum((v * y[c_] for c_, v in rowd[i] if c_ < i), Fr(0))) / diag[i]
    elif kind == "ssor":     # omega (2 - omega) (D + omega U)^-1 D (D + omega L)^-1 x
        w = [Fr(0)] * n
        for i in range(n):
            w[i] = (x[i] - omega * sum((v * w[c_] for c_, v in rowd[i] if c_ < i), Fr(0))) / diag[i]
        y = [Fr(0)] * n
        for i in reversed(range(n)):
            y[i] = (diag[i] * w[i] - omega * sum((v * y[c_] for c_, v in rowd[i] if c_ > i), Fr(0))) / diag[i]
        y = [omega * (2 - omega) * v for v in y]
    else:
        return None
    return apply_filter(y, filt, 1)


def oracle_hist_big(kind, omega, n, rp, ci, vals, fidx, steps, out):
    """boundary-size histories `S N A x D` on big sparse matrices"""
    if [st for st, _ in steps] != ["S", "N", "A", "D"]:
        return "boundary-size history of unexpected shape"
    exp = sparse_expected(kind, omega, n, rp, ci, vals, fidx, steps[2][1])
    if exp is None:
        return None
    if is_abnormal(out):
        return "valid history ended with " + out
    o = Tk(out)
    if o.tok() != "R":
        return "malformed output"
    y = o.qlist()
    if o.tok() != "U1":
        return "apply modified its input vector or the matrix"
    if y != exp:
        bad = next(i for i in range(len(exp)) if i >= len(y) or y[i] != exp[i])
        return "component %d is %s, the defining operator gives %s" % (bad, y[bad] if bad < len(y) else "?", exp[bad])
    return None


def oracle_hist(case, out, blocked):
    c = Tk(case)
    c.tok()
    bs, kind, p, omega, n, rp, ci, vals, fidx, steps = parse_hist(c, blocked)
    if n * bs > 100 and kind in ("jac", "sor", "ssor", "mat", "scale", "diag") and bs == 1:
        return oracle_hist_big(kind, omega, n, rp, ci, vals, fidx, steps, out)
    rows = [ci[rp[i]:rp[i + 1]] for i in range(n)]
    # walk the history: which applies are specified by the property, and with which matrix values
    sym = num = False
    expected = []    # per apply: None (not specified) | list | "ABORT"
    abort_expected = False
    applies = []
    for s, arg in steps:
        if s == "S":
            sym, num = True, False
        elif s == "D":
            sym = num = False
        elif s == "U":
            vals = arg
            num = False
        elif s == "N":
            if not sym and kind in ("jac", "poly", "ilu"):
                return None   # outside the property's histories
            num = True
            if kind == "ilu":
                dense = dense_of(n, rp, ci, vals, bs)
                if ilu_reference(n, rows, p, dense, bs)[1] is None:
                    abort_expected = True   # zero pivot: the factorisation does not exist
                    break
            if kind in ("jac", "poly"):
                dense = dense_of(n, rp, ci, vals, bs)
                if any(dense[i][i] == 0 for i in range(n * bs)):
                    abort_expected = True
                    break
        elif s == "E":
            pass                    # done_numeric alone: a no-op for these classes, init_numeric follows
        elif s in ("A", "I"):
            applies.append(arg)
            if s == "I" and kind == "mat" and vals:
                abort_expected = True   # SparseMatrix::apply refuses aliased vectors: reported, not silent
                break
            if kind in STATELESS or (sym and num):
                dense = vals[:n * bs] if kind == "diag" else (None if kind == "scale" else dense_of(n, rp, ci, vals, bs))
                expected.append(expected_apply(kind, p, omega, n, rows, dense, fidx, arg, bs))
            elif not sym and kind in ("jac", "poly"):
                abort_expected = True   # apply before init: reported, never a silent result
                break
            else:
                expected.append(None)
    if abort_expected or "ABORT" in expected:
        return None if is_abnormal(out) else "the operator does not exist / object not initialised, but apply returned " + out[:80]
    if "ORACLE-INCONSISTENT" in expected:
        return "oracle inconsistency (complete ILU is not the inverse)"
    if is_abnormal(out):
        return "valid history ended with " + out
    if out == "NONE":
        return None if not applies else "no apply output"
    o = Tk(out)
    results = []
    try:
        while not o.done():
            if o.tok() != "R":
                return "malformed output"
            y = o.qlist()
            flag = o.tok()
            results.append((y, flag))
    except (IndexError, ValueError) as e:
        return "unparsable implementation output (%s)" % e
    if len(results) != len(expected):
        return "%d apply outputs, expected %d" % (len(results), len(expected))
    for k, ((y, flag), e) in enumerate(zip(results, expected)):
        if flag != "U1":
            return "apply %d modified its input vector or the matrix" % k
        if e is not None and y != e:
            bad = next(i for i in range(len(e)) if i >= len(y) or y[i] != e[i])
            return "apply %d: component %d is %s, the defining operator gives %s" % (k, bad, y[bad] if bad < len(y) else "?", e[bad])
    # linearity triple x3 = a x1 + b x2 (checked on the outputs alone, independent of the operator formulas)
    if [st for st, _ in steps] == ["S", "N", "A", "A", "A", "D"] and all(e is not None for e in expected):
        x1, x2, x3 = applies
        y1, y2, y3 = (r[0] for r in results)
        ab = solve_ab(x1, x2, x3)
        if ab is not None:
            a, b = ab
            if [a * u + b * v for u, v in zip(y1, y2)] != y3:
                return "apply is not linear: M(a x1 + b x2) != a M x1 + b M x2"
    return None


def solve_ab(x1, x2, x3):
    """find a, b with x3 = a x1 + b x2 (least effort: try all index pairs)"""
    n = len(x1)
    for i in range(n):
        for j in range(i + 1, n):
            d = x1[i] * x2[j] - x1[j] * x2[i]
            if d != 0:
                a = (x3[i] * x2[j] - x3[j] * x2[i]) / d
                b = (x1[i] * x3[j] - x1[j] * x3[i]) / d
                if all(a * u + b * v == w for u, v, w in zip(x1, x2, x3)):
                    return a, b
                return None
    return None


def oracle_iluf(case, out):
    c = Tk(case)
    c.tok()
    p = int(c.tok())
    n = c.nat()
    rp, ci, vals = c.nlist(), c.nlist(), c.qlist()
    b = c.qlist()
    rows = [ci[rp[i]:rp[i + 1]] for i in range(n)]
    big = n > 48      # boundary-size cases: sparse checks only (no dense n x n tables of Fractions)
    if big:
        pat = level_pattern(n, rows, p)
    else:
        dense = dense_of(n, rp, ci, vals)
        pat, Lr, Ur = ilu_reference(n, rows, p, dense)
        if Lr is None:
            return None if is_abnormal(out) else "zero pivot not reported"
    if is_abnormal(out):
        return "factorisation of a valid matrix ended with " + out
    o = Tk(out)
    try:
        assert o.tok() == "F"
        rpl, cil, rpu, ciu = o.nlist(), o.nlist(), o.nlist(), o.nlist()
        dl, du, dd = o.qlist(), o.qlist(), o.qlist()
        assert o.tok() == "Y"
        y = o.qlist()
        assert o.tok() == "Z"
        z = o.qlist()
    except (IndexError, ValueError, AssertionError) as e:
        return "unparsable implementation output (%s)" % e
    # shape of the symbolic factorisation
    for name, ptr, idx in (("L", rpl, cil), ("U", rpu, ciu)):
        if len(ptr) != n + 1 or ptr[0] != 0 or ptr[-1] != len(idx) or any(ptr[i] > ptr[i + 1] for i in range(n)):
            return "%s row pointer malformed" % name
    if len(dl) != len(cil) or len(du) != len(ciu) or len(dd) != n:
        return "data array sizes do not match the structure"
    ipat = []
    for i in range(n):
        lo, up = cil[rpl[i]:rpl[i + 1]], ciu[rpu[i]:rpu[i + 1]]
        if any(j >= i for j in lo) or any(j <= i or j >= n for j in up):
            return "row %d: L not strictly lower / U not strictly upper" % i
        if lo != sorted(set(lo)) or up != sorted(set(up)):
            return "row %d: columns not strictly increasing" % i
        ipat.append(lo + [i] + up)
    if ipat != pat:
        return "symbolic pattern differs from the level-%d pattern: %s vs %s" % (p, ipat, pat)
    if any(v == 0 for v in dd):
        return "stored inverse pivot is zero"
    if big:
        arow = [{ci[k]: vals[k] for k in range(rp[i], rp[i + 1])} for i in range(n)]
        lrow = [{cil[k]: dl[k] for k in range(rpl[i], rpl[i + 1])} for i in range(n)]
        urow = [{ciu[k]: du[k] for k in range(rpu[i], rpu[i + 1])} for i in range(n)]
        for i in range(n):
            urow[i][i] = 1 / dd[i]
        for i in range(n):
            for j in pat[i]:
                lu = sum((v * urow[k].get(j, 0) for k, v in lrow[i].items()), Fr(0)) + urow[i].get(j, 0)
                if lu != arow[i].get(j, 0):
                    return "(LU)[%d][%d] = %s but A = %s on the level-%d pattern" % (i, j, lu, arow[i].get(j, 0), p)
            if y[i] + sum((v * y[k] for k, v in lrow[i].items()), Fr(0)) != b[i]:
                return "solve_il: (I+L) y != b (row %d)" % i
            if sum((v * z[k] for k, v in urow[i].items()), Fr(0)) != y[i]:
                return "solve_du: (D+U) z != y (row %d)" % i
        return None
    # dense factors from the implementation's arrays
    L = [[Fr(1) if r == cc else Fr(0) for cc in range(n)] for r in range(n)]
    U = [[Fr(0)] * n for _ in range(n)]
    for i in range(n):
        for k in range(rpl[i], rpl[i + 1]):
            L[i][cil[k]] = dl[k]
        for k in range(rpu[i], rpu[i + 1]):
            U[i][ciu[k]] = du[k]
        U[i][i] = 1 / dd[i]
    LU = mmul(L, U)
    for i in range(n):
        for j in pat[i]:
            if LU[i][j] != dense[i][j]:
                return "(LU)[%d][%d] = %s but A = %s on the level-%d pattern" % (i, j, LU[i][j], dense[i][j], p)
    if all(len(r) == n for r in pat) and LU != dense:
        return "complete pattern but LU != A"
    if matvec(L, y) != b:
        return "solve_il: (I+L) y != b"
    if matvec(U, z) != y:
        return "solve_du: (D+U) z != y"
    if all(len(r) == n for r in pat) and matvec(dense, z) != b:
        return "complete factorisation but A z != b"
    return None


def level_table(n, rows, p):
    """textbook levels (min over the pivots in ascending order), None above p"""
    INF = 10 ** 30
    lev = [[INF] * n for _ in range(n)]
    for i, r in enumerate(rows):
        for j in r:
            lev[i][j] = 0
    for i in range(n):
        for k in range(i):
            if lev[i][k] <= p:
                for j in range(k + 1, n):
                    if lev[k][j] <= p:
                        lev[i][j] = min(lev[i][j], lev[i][k] + lev[k][j] + 1)
    return [[(l if l <= p else None) for l in row] for row in lev]


def oracle_ilulev(case, out):
    c = Tk(case)
    c.tok()
    p, n = c.nat(), c.nat()
    rp, ci = c.nlist(), c.nlist()
    rows = [ci[rp[i]:rp[i + 1]] for i in range(n)]
    if is_abnormal(out):
        return "symbolic factorisation of a valid pattern ended with " + out
    o = Tk(out)
    if o.tok() != "V":
        return "malformed output"
    lev = level_table(n, rows, p)
    for i in range(n):
        cols, lv = o.nlist(), o.nlist()
        exp = [(j, lev[i][j]) for j in range(n) if j != i and lev[i][j] is not None]
        if list(zip(cols, lv)) != exp:
            return "row %d: (column, level) pairs %s, textbook level-of-fill gives %s" % (i, list(zip(cols, lv)), exp)
    return None


def oracle(case, out):
    op = case.split(" ", 1)[0]
    if op == "ilulev":
        try:
            return oracle_ilulev(case, out)
        except (IndexError, ValueError) as e:
            return "unparsable implementation output (%s)" % e
    if case in REGRESSION_EXPECT and out != REGRESSION_EXPECT[case]:
        return "regression case: output %s, expected %s" % (out[:120], REGRESSION_EXPECT[case])
    try:
        if op == "hist":
            return oracle_hist(case, out, False)
        if op == "histb":
            return oracle_hist(case, out, True)
        if op == "iluf":
            return oracle_iluf(case, out)
        c = Tk(case)
        c.tok()
        if op == "scale":
            omega = vlib.parse_frac(c.tok())
            fidx, x = c.nlist(), c.qlist()
            exp = apply_filter([omega * v for v in x], fidx)
        elif op == "diag":
            d, fidx, x = c.qlist(), c.nlist(), c.qlist()
            exp = apply_filter([u * v for u, v in zip(d, x)], fidx)
        else:
            return None
        if is_abnormal(out):
            return "ended with " + out
        o = Tk(out)
        assert o.tok() == "R"
        y = o.qlist()
        if o.tok() != "U1":
            return "input modified"
        return None if y == exp else "result %s, expected %s" % (y, exp)
    except (IndexError, ValueError, AssertionError) as e:
        return "unparsable implementation output (%s): %s" % (e, out[:200])


def model_filter(case):
    """every history has a Lean model: BCSR SOR / SSOR = generic blocked sweeps (Model/Solver/Blocked), BCSR ILU = the
    scalar ILU model at the ring of bs x bs rational matrices, BCSR Jacobi / matrix / scale / diagonal = the scalar state
    machine on the expanded scalar matrix"""
    return True


def canon(out):
    if out.startswith("ABORT"):
        return "ABORT"
    if out.startswith("EXC"):
        return "EXC"
    return out


def _matrix_of(case):
    t = case.split()
    op = t[0]
    if op == "ilulev":
        c = Tk(case)
        c.tok()
        c.nat()
        n = c.nat()
        return "ilulev", "1/1", n, c.nlist(), c.nlist()
    c = Tk(case)
    c.tok()
    if op == "histb":
        c.nat()
    if op in ("hist", "histb"):
        kind = c.tok()
        c.tok()
        omega = c.tok()
    else:
        kind, omega = "iluf", "1/1"
        c.tok()
    n = c.nat()
    rp, ci = c.nlist(), c.nlist()
    return kind, omega, n, rp, ci


def nontrivial(case):
    op = case.split(" ", 1)[0]
    if op in ("scale", "diag"):
        return len(case.split()) > 8
    try:
        kind, omega, n, rp, ci = _matrix_of(case)
    except Exception:
        return False
    lower = any(ci[k] < i for i in range(n) for k in range(rp[i], rp[i + 1]))
    upper = any(ci[k] > i for i in range(n) for k in range(rp[i], rp[i + 1]))
    return n >= 3 and lower and upper


def describe(case):
    t = case.split()
    op = t[0]
    keys = ["op:" + op]
    if op in ("hist", "histb", "iluf", "ilulev"):
        kind, omega, n, rp, ci = _matrix_of(case)
        keys.append("kind:%s%s" % (kind, "-blocked%s" % t[1] if op == "histb" else ""))
        keys.append("n:%d" % n)
        if kind in ("jac", "sor", "ssor", "poly"):
            keys.append("omega:" + omega)
        if kind in ("ilu", "iluf"):
            keys.append("ilu-p:" + (t[2] if op == "hist" else t[3] if op == "histb" else t[1]))
        if kind in ("ilu", "iluf") and op != "histb":
            pp = int(t[2] if op == "hist" else t[1])
        if kind == "ilulev":
            pp = int(t[1])
        if kind in ("ilu", "iluf", "ilulev") and op != "histb":
            rows = [ci[rp[i]:rp[i + 1]] for i in range(n)]
            if pp >= 2 and n <= 9 and multipath_sensitive(n, rows, pp):
                keys.append("ilu:multi-path-level-sensitive")
        if op in ("hist", "histb"):
            ft = next((x for x in t if x in ("none", "mean", "slip")), "unit")
            keys.append("filter:" + ft)
            if "E" in t and "I" in t or ("E" in t and kind == "mat"):
                keys.append("session:%s%s:%s" % (kind, "-b" + t[1] if op == "histb" else "", ft))
            if "I" in t:
                keys.append("in-place-apply")
            nu = sum(1 for x in t if x == "U")
            keys.append("updates:%d" % nu)
            if t[-1] != "D":
                keys.append("history:open-or-erroneous")
            if kind == "ilu" and op == "hist" and sum(1 for x in t if x == "N") >= 3 and nu >= 2 and int(t[2]) >= 1:
                keys.append("ilu:p>=1,>=3-init_numeric")
    return keys


def describe_boundary(case):
    """size histogram of the boundary stream"""
    t = case.split()
    op = t[0]
    keys = ["op:" + op]
    try:
        if op == "histb":
            keys += ["bs:" + t[1], "kind:" + t[2]]
        elif op == "hist":
            keys += ["kind:" + t[1], "n:" + t[4], "p-or-m:" + t[2]]
            if "unit" in t:
                keys.append("unit-filter-entries:" + t[t.index("unit") + 1])
        elif op == "iluf":
            keys += ["n:" + t[2], "p:" + t[1]]
        elif op == "ilulev":
            keys += ["n:" + t[2], "fill-ins-last-row:%d" % (int(t[2]) - 2)]
    except (IndexError, ValueError):
        pass
    return keys


def signature(case, out, why):
    t = case.split()
    return "%s:%s:%s" % (t[0], t[2] if t[0] == "histb" else t[1], (why or "")[:40])


def main(argv):
    args = vlib.std_args(argv)
    t0 = time.time()
    rng = random.Random(args.seed * 1000003 + 8)
    lean = None if args.no_lean else vlib.lean_check(PROP, leanchecker=(args.tier == "thorough"))
    binary, err = vlib.build_harness("c08", os.path.join(vlib.VERIF, "harness", "c08", "main.cpp"))
    if binary is None:
        v = [{"property": PROP, "kind": "harness-build-failure", "detail": err, "failing_input": None,
              "broken": "harness c08 does not compile against the current tree"}]
        return vlib.finish(PROP, args.tier, args.seed, t0, lean, [], [], v, [])
    if args.replay:
        cases = [json.load(open(args.replay))["input"]]
    else:
        cases = list(CORPUS)
        cdir = os.path.join(vlib.CORPUS, "c08")
        if os.path.isdir(cdir):
            for fn in sorted(os.listdir(cdir)):
                cases += [l.strip() for l in open(os.path.join(cdir, fn)) if l.strip() and not l.startswith("#")]
        cases += gen_fill_refresh(rng, 300 if args.tier == "quick" else 3000)
        cases += gen_multipath(rng, 150 if args.tier == "quick" else 3000)
        cases += gen_sessions(rng, 4 if args.tier == "quick" else 40)
        cases += gen_cases(rng, 12000) if args.tier == "quick" else gen_cases(rng, 150000, big=True)
    st = vlib.Stream("precond", cases, [binary], vlib.driver_cmd(PROP), oracle=oracle, nontrivial=nontrivial,
                     describe=describe, signature=signature, canon=canon,
                     model_filter=model_filter)
    streams = [st]
    if not args.replay:
        bcases = gen_boundary(random.Random(args.seed * 7919 + 8), args.tier == "thorough")
        streams.append(vlib.Stream("boundary-sizes", bcases, [binary], vlib.driver_cmd(PROP), oracle=oracle,
                                   nontrivial=lambda c: True, describe=describe_boundary, signature=signature, canon=canon))
    stats_rule = ("random square CSR matrices n = 1..16 with stored non-zero diagonal (tridiagonal, banded, sparse, dense, "
                  "triangular, arrow patterns; explicit zero off-diagonals), omega in {1, 1/2, 2/3, 9/10, 5/4, 3/2, 7/4}, "
                  "ILU fill levels {-1,0,1,2,3,n}, polynomial orders 1..4, unit filters with 0..3 entries, histories "
                  "S N A (U N A)* D, linearity triples, stale applies, re-initialisation, apply-before-init; BCSR 2x2 / 3x3 "
                  "variants judged by the oracle only; non-trivial = n >= 3 with a strictly lower and a strictly upper entry")
    return vlib.run_pipeline(PROP, args.tier, args.seed, lean, streams, t0, assumptions=[
        "Index modelled as unbounded Nat (no 64-bit overflow at the sizes FEAT can allocate)",
        "exact arithmetic: the scalar type is Q (GMP rationals); floating-point rounding is not covered by this check",
        "matrices store their diagonal entry and have sorted rows (documented precondition of the sweeps and of ILU)",
        "BCSR (square-blocked) SOR / SSOR / ILU are compared with the Lean models run at bs x bs rational blocks; blocked "
        "Jacobi / matrix preconditioners are judged by the independent oracle only"],
        extra_cov={"rule": stats_rule})
