"""C01 - matrix-vector products equal the mathematical product in every storage format.

Inputs on which the *property* fails on the unchanged tree (genuine FEAT defects, reproduced with the real containers
at Q; /repo is not changed). The random generator avoids them; F1 and F2 are executed and judged on every run in the
second stream "known-edge" (signatures c01-edge:F1 / c01-edge:F2, open entries of KNOWN_FINDINGS.json -> KNOWN-FINDING
lines; once fixed in FEAT the cases simply pass):

 F1  `dense apply 0 0 0 1/1 0 0 0`  (default-constructed 0x0 DenseMatrix, r and x empty; same for axpy / transposed and
     for a default-constructed SparseMatrixBanded): ABORT "Vector x and r must not share the same memory!" - the aliasing
     assertion r.elements() != x.elements() compares two null pointers before any early-out.  Expected: returns the
     empty vector, like CSR/CSCR/BCSR (`csr 64 apply 0 0 1 0 0 0 1/1 0 0 0` -> `R 0 U1`).
 F2  `bcsr 64 2 3 4 axpy 0 0 1 0 0 0 0/1 0 0 0`  (mixed overload r,x blocked / y scalar, empty y, i.e. rows()==0 resp.
     columns()==0 for the transposed form): uncaught std::out_of_range from `r.convert(y)` in the early-out
     (DenseVectorBlocked::convert does other.get_elements().at(0)).  Expected: returns with empty r.
 F3  (observation, not judged: the operands are unmodified when the call returns, which is all the property text
     claims; the damage needs a *later* write through r) the same overload's early-out leaves r a *shallow alias* of y
     (`bcsr 64 2 2 4 axpy 1 1 2 0 1 1 0 4 1/1 1/1 1/1 1/1 0/1 2 1/1 1/1 2 5/1 5/1 0`: values correct, but
     r.elements<pod>() == y.elements() afterwards, a later r.scale(r,2) turns y into 10 10).
"""
import json
import os
import random
import time
from fractions import Fraction

import vlib

PROP = "C01"
EPS = Fraction(1, 2 ** 52)          # Math::eps<Q>() of harness/common/exact_q.hpp
BLOCKS = [(1, 1), (2, 2), (2, 3), (3, 2), (3, 1), (1, 3)]


# ---------------------------------------------------------------------------------------------
# generators (every random choice from the one seeded rng)
# ---------------------------------------------------------------------------------------------

def fs(q):
    return vlib.frac_str(Fraction(q))


def fl(v):
    return ("%d " % len(v) + " ".join(fs(q) for q in v)).strip()


def nl(v):
    return ("%d " % len(v) + " ".join(map(str, v))).strip()


def rval(rng, nonzero=False):
    while True:
        q = Fraction(rng.randint(-9, 9), rng.choice([1, 1, 1, 2, 3, 4, 7]))
        if q != 0 or not nonzero:
            return q


def rvec(rng, n):
    style = rng.random()
    if style < 0.08:
        return [Fraction(0)] * n
    if style < 0.16:
        return [Fraction(1)] * n
    return [rval(rng) for _ in range(n)]


def ralpha(rng):
    k = rng.random()
    if k < 0.14:
        return Fraction(0)
    if k < 0.28:
        return Fraction(1)
    if k < 0.42:
        return Fraction(-1)
    if k < 0.50:
        return Fraction(1, 2 ** 60)
    if k < 0.55:
        return -Fraction(1, 2 ** 53)
    if k < 0.60:
        return rng.choice([EPS, -EPS])            # exactly eps: NOT below the threshold
    if k < 0.64:
        return Fraction(2 ** 52 - 1, 2 ** 104)   # just below eps
    return rval(rng, nonzero=True) * rng.choice([1, 1, 1, 10, Fraction(1, 100)])


def rdim(rng, sizes, allow0=True):
    while True:
        n = rng.choice(sizes)
        if n > 0 or allow0:
            return n


def gen_pattern(rng, rows, cols, allow_messy=True):
    """list of rows, each a list of column indices; returns (pattern, flags)"""
    flags = set()
    if rows == 0 or cols == 0:
        return [[] for _ in range(rows)], flags
    style = rng.choice(["empty", "one", "sparse", "sparse", "sparse", "full", "diag", "unsorted", "dups", "lastcol"])
    if not allow_messy and style in ("unsorted", "dups"):
        style = "sparse"
    pat = [[] for _ in range(rows)]
    if style == "one":
        pat[rng.randrange(rows)] = [rng.randrange(cols)]
    elif style in ("sparse", "unsorted", "dups"):
        dens = rng.choice([0.15, 0.3, 0.6])
        for i in range(rows):
            if rng.random() < 0.25:
                continue                      # forced empty row
            pat[i] = [j for j in range(cols) if rng.random() < dens]
        if style == "unsorted":
            for r in pat:
                rng.shuffle(r)
            flags.add("unsorted")
        if style == "dups":
            for r in pat:
                if r and rng.random() < 0.6:
                    r.insert(rng.randrange(len(r) + 1), rng.choice(r))
                    flags.add("dups")
    elif style == "full":
        pat = [list(range(cols)) for _ in range(rows)]
    elif style == "diag":
        pat = [[i] if i < cols else [] for i in range(rows)]
    elif style == "lastcol":
        pat = [[cols - 1] if rng.random() < 0.7 else [] for _ in range(rows)]
        pat[rows - 1] = [0, cols - 1] if cols > 1 else [0]
    return pat, flags


def csr_arrays(pat):
    rp, ci = [0], []
    for r in pat:
        ci.extend(r)
        rp.append(len(ci))
    return rp, ci


def tail(rng, nx, ny, axpy):
    alpha = ralpha(rng) if axpy else Fraction(1)
    x = rvec(rng, nx)
    y = rvec(rng, ny) if axpy else []
    alias = 1 if (axpy and rng.random() < 0.4) else 0
    return "%s %s %s %d" % (fs(alpha), fl(x), fl(y), alias)


def pick_op(rng, transposed_ok=True, dense_ok=True):
    ops = ["apply", "axpy", "axpy"]
    if transposed_ok:
        ops += ["applyT", "axpyT", "axpyT"]
    op = rng.choice(ops)
    if dense_ok and rng.random() < 0.06:
        op = "dense"
    return op


def gen_case(rng, sizes):
    it = rng.choice([32, 64])
    k = rng.random()
    if k < 0.26:
        # ----- CSR, scalar vectors
        rows, cols = rdim(rng, sizes), rdim(rng, sizes)
        if rng.random() < 0.25:
            cols = rows
        op = pick_op(rng)
        pat, _ = gen_pattern(rng, rows, cols, allow_messy=(op != "dense"))
        rp, ci = csr_arrays(pat)
        val = [rval(rng, nonzero=rng.random() < 0.8) for _ in ci]
        tr = op.endswith("T")
        nr, nx = (cols, rows) if tr else (rows, cols)
        t = tail(rng, nx, nr, op.startswith("axpy")) if op != "dense" else "0/1 0 0 0"
        return "csr %d %s %d %d %s %s %s %s" % (it, op, rows, cols, nl(rp), nl(ci), fl(val), t)
    if k < 0.36:
        # ----- CSR times blocked vectors (csrsb)
        bs = rng.choice([1, 2, 3])
        rows, cols = rdim(rng, sizes), rdim(rng, sizes)
        op = rng.choice(["apply", "axpy", "axpy"])
        pat, _ = gen_pattern(rng, rows, cols)
        rp, ci = csr_arrays(pat)
        val = [rval(rng, nonzero=rng.random() < 0.8) for _ in ci]
        t = tail(rng, cols * bs, rows * bs, op == "axpy")
        return "csrsb %d %d %s %d %d %s %s %s %s" % (it, bs, op, rows, cols, nl(rp), nl(ci), fl(val), t)
    if k < 0.50:
        # ----- CSCR: only a subset of the rows is stored
        rows, cols = rdim(rng, sizes), rdim(rng, sizes)
        op = pick_op(rng)
        pat, _ = gen_pattern(rng, rows, cols, allow_messy=(op != "dense"))
        stored = [i for i in range(rows) if pat[i] or rng.random() < 0.3]
        if rng.random() < 0.3:
            stored = [i for i in stored if rng.random() < 0.6]      # drop rows entirely
        spat = [pat[i] for i in stored]
        rp, ci = csr_arrays(spat)
        if not ci:
            stored, rp = [], [0]
        val = [rval(rng, nonzero=rng.random() < 0.8) for _ in ci]
        tr = op.endswith("T")
        nr, nx = (cols, rows) if tr else (rows, cols)
        t = tail(rng, nx, nr, op.startswith("axpy")) if op != "dense" else "0/1 0 0 0"
        return "cscr %d %s %d %d %s %s %s %s %s" % (it, op, rows, cols, nl(rp), nl(ci), fl(val), nl(stored), t)
    if k < 0.72:
        # ----- BCSR, all vector-kind overloads
        bh, bw = rng.choice(BLOCKS)
        bsizes = [s for s in sizes if s <= 8]
        rows, cols = rdim(rng, bsizes), rdim(rng, bsizes)
        op = pick_op(rng)
        pat, _ = gen_pattern(rng, rows, cols, allow_messy=(op != "dense"))
        rp, ci = csr_arrays(pat)
        val = [rval(rng, nonzero=rng.random() < 0.7) for _ in range(len(ci) * bh * bw)]
        tr = op.endswith("T")
        nr, nx = (cols * bw, rows * bh) if tr else (rows * bh, cols * bw)
        vk = rng.randrange(5 if op.startswith("axpy") else 4)
        if vk == 4 and nr == 0:
            vk = 3   # FINDINGS_C01.md F2: r.convert(y) throws std::out_of_range for an empty y
        if op == "dense":
            vk = 0
        t = tail(rng, nx, nr, op.startswith("axpy")) if op != "dense" else "0/1 0 0 0"
        return "bcsr %d %d %d %d %s %d %d %s %s %s %s" % (it, bh, bw, vk, op, rows, cols, nl(rp), nl(ci), fl(val), t)
    if k < 0.90:
        # ----- banded: arbitrary offset sets, rectangular shapes; padding entries carry garbage values
        rows = rdim(rng, sizes, allow0=False)
        cols = rdim(rng, sizes)
        if rng.random() < 0.3:
            cols = rows
        if rows + cols < 2:
            cols = 1
        maxoff = rows + cols - 2
        alloff = list(range(maxoff + 1))
        style = rng.choice(["single", "all", "sub", "super", "rand", "rand", "extreme", "tridiag"])
        if style == "single":
            off = [rng.choice(alloff)]
        elif style == "all":
            off = alloff
        elif style == "sub":
            off = [o for o in alloff if o < rows - 1 and rng.random() < 0.6]
        elif style == "super":
            off = [o for o in alloff if o > rows - 1 and rng.random() < 0.6]
        elif style == "extreme":
            off = sorted({0, maxoff})
        elif style == "tridiag":
            off = [o for o in (rows - 2, rows - 1, rows) if 0 <= o <= maxoff]
        else:
            off = [o for o in alloff if rng.random() < 0.4]
        if not off:
            off = [rng.choice(alloff)]
        op = pick_op(rng)
        if op.endswith("T") and rng.random() < 0.7:
            op = op[:-1]                      # apply_transposed is "not implemented": keep it rare
        val = [rval(rng, nonzero=rng.random() < 0.8) for _ in range(rows * len(off))]
        tr = op.endswith("T")
        nr, nx = (cols, rows) if tr else (rows, cols)
        t = tail(rng, nx, nr, op.startswith("axpy")) if op != "dense" else "0/1 0 0 0"
        return "banded %d %s %d %d %s %s %s" % (it, op, rows, cols, nl(off), fl(val), t)
    # ----- dense (a DenseMatrix with a zero dimension cannot be constructed; 0x0: FINDINGS_C01.md F1)
    rows, cols = rdim(rng, sizes, allow0=False), rdim(rng, sizes, allow0=False)
    op = pick_op(rng)
    val = [rval(rng) for _ in range(rows * cols)]
    tr = op.endswith("T")
    nr, nx = (cols, rows) if tr else (rows, cols)
    t = tail(rng, nx, nr, op.startswith("axpy")) if op != "dense" else "0/1 0 0 0"
    return "dense %s %d %d %s %s" % (op, rows, cols, fl(val), t)


def gen_cases(rng, count, sizes):
    return [gen_case(rng, sizes) for _ in range(count)]


CORPUS = [
    # hand-written edge cases replayed first on every run: empty / 1x1 / rectangular / empty rows / aliasing / alpha classes
    "csr 64 apply 0 0 1 0 0 0 1/1 0 0 0",
    "csr 32 axpy 0 0 1 0 0 0 2/1 0 0 1",
    "csr 64 apply 0 3 1 0 0 0 1/1 3 1/1 1/1 1/1 0 0",
    "csr 64 applyT 0 3 1 0 0 0 1/1 0 0 0",
    "csr 64 apply 3 0 4 0 0 0 0 0 0 1/1 0 0 0",
    "csr 32 apply 1 1 2 0 1 1 0 1 5/2 1/1 1 4/1 0 0",
    "csr 32 axpyT 2 3 3 0 2 3 3 0 2 1 3 1/1 2/1 3/1 2/1 2 1/1 1/1 3 5/1 7/1 9/1 1",
    "csr 64 axpy 2 3 3 0 0 3 3 0 2 1 3 1/1 2/1 3/1 -1/1 3 1/1 1/1 1/1 2 5/1 7/1 1",
    "csr 64 axpy 2 2 3 0 1 2 2 0 1 2 1/1 1/1 1/1152921504606846976 2 3/1 3/1 2 1/1 1/1 0",
    "csr 64 axpyT 2 2 3 0 1 2 2 0 1 2 1/1 1/1 1/4503599627370496 2 3/1 3/1 2 1/1 1/1 0",
    "csrsb 64 2 axpy 2 3 3 0 2 3 3 0 2 1 3 1/1 2/1 3/1 2/1 6 1/1 1/1 1/1 1/1 1/1 1/1 4 5/1 7/1 1/1 1/1 1",
    "cscr 64 apply 4 3 3 0 2 3 3 0 2 1 3 1/1 2/1 3/1 2 1 3 1/1 3 1/1 1/1 1/1 0 0",
    "cscr 32 axpy 4 3 3 0 2 3 3 0 2 1 3 1/1 2/1 3/1 2 1 3 3/1 3 1/1 1/1 1/1 4 1/1 2/1 3/1 4/1 1",
    "cscr 32 axpyT 4 3 3 0 2 3 3 0 2 1 3 1/1 2/1 3/1 2 1 3 3/1 4 1/1 1/1 1/1 1/1 3 1/1 2/1 3/1 0",
    "bcsr 64 2 3 0 apply 1 1 2 0 1 1 0 6 1/1 2/1 3/1 4/1 5/1 6/1 1/1 3 1/1 1/1 1/1 0 0",
    "bcsr 64 2 3 3 axpyT 1 1 2 0 1 1 0 6 1/1 2/1 3/1 4/1 5/1 6/1 2/1 2 1/1 1/1 3 1/1 1/1 1/1 0",
    "bcsr 64 2 3 4 axpy 1 1 2 0 1 1 0 6 1/1 2/1 3/1 4/1 5/1 6/1 0/1 3 1/1 1/1 1/1 2 1/1 1/1 0",
    "bcsr 32 3 2 1 applyT 2 1 3 0 1 2 2 0 0 12 1/1 2/1 3/1 4/1 5/1 6/1 7/1 8/1 9/1 1/2 1/3 1/4 1/1 6 1/1 0/1 0/1 0/1 1/1 0/1 0 0",
    "banded 64 apply 2 2 1 1 2 5/1 6/1 1/1 2 1/1 1/1 0 0",
    "banded 64 apply 3 0 2 0 1 6 1/1 2/1 3/1 4/1 5/1 6/1 1/1 0 0 0",
    "banded 32 axpy 1 1 1 0 1 7/1 -1/1 1 2/1 1 3/1 1",
    "banded 32 axpy 2 5 3 0 2 5 6 1/1 2/1 3/1 4/1 5/1 6/1 2/1 5 1/1 2/1 3/1 4/1 5/1 2 1/1 1/1 0",
    "banded 32 axpy 5 2 3 0 2 5 15 1/1 2/1 3/1 4/1 5/1 6/1 7/1 8/1 9/1 1/2 1/3 1/4 1/5 1/6 1/7 2/1 2 1/1 2/1 5 1/1 1/1 1/1 1/1 1/1 0",
    "banded 64 applyT 2 2 1 1 2 5/1 6/1 1/1 2 1/1 1/1 0 0",
    "banded 64 axpyT 2 2 1 1 2 5/1 6/1 0/1 2 1/1 1/1 2 3/1 4/1 0",
    "dense apply 1 1 1 3/1 1/1 1 2/1 0 0",
    "dense axpyT 2 3 6 1/1 2/1 3/1 4/1 5/1 6/1 -1/1 2 1/1 1/1 3 1/2 1/3 1/4 1",
    "dense axpy 2 3 6 1/1 2/1 3/1 4/1 5/1 6/1 1/1152921504606846976 3 1/1 1/1 1/1 2 1/2 1/3 0",
]


# ---------------------------------------------------------------------------------------------
# independent oracle: dense Fraction meaning of the stored arrays, product by the textbook formula
# ---------------------------------------------------------------------------------------------

class Tk:
    def __init__(self, s):
        self.t = s.split()
        self.p = 0

    def tok(self):
        self.p += 1
        return self.t[self.p - 1]

    def nat(self):
        return int(self.tok())

    def nats(self):
        return [self.nat() for _ in range(self.nat())]

    def frac(self):
        return vlib.parse_frac(self.tok())

    def fracs(self):
        return [self.frac() for _ in range(self.nat())]


class Case:
    """parsed case + the dense matrix (dict (i, j) -> Fraction) the container represents"""

    def __init__(self, line):
        c = Tk(line)
        self.fmt = c.tok()
        self.it = c.nat() if self.fmt != "dense" else 0
        self.bs = c.nat() if self.fmt == "csrsb" else 1
        self.bh = self.bw = 1
        self.vk = 0
        if self.fmt == "bcsr":
            self.bh, self.bw, self.vk = c.nat(), c.nat(), c.nat()
        self.op = c.tok()
        self.rows, self.cols = c.nat(), c.nat()
        self.flags = set()
        m = {}

        def add(i, j, v):
            if (i, j) in m:
                self.flags.add("dups")
            m[(i, j)] = m.get((i, j), Fraction(0)) + v

        self.nnz = 0
        if self.fmt in ("csr", "csrsb", "cscr", "bcsr"):
            rp, ci, val = c.nats(), c.nats(), c.fracs()
            rn = c.nats() if self.fmt == "cscr" else list(range(self.rows))
            self.nnz = len(val)
            self.stored_rows = len(rn)
            bh, bw = self.bh, self.bw
            for s, row in enumerate(rn):
                cs = ci[rp[s]:rp[s + 1]]
                if cs != sorted(cs):
                    self.flags.add("unsorted")
                for k in range(rp[s], rp[s + 1]):
                    for h in range(bh):
                        for w in range(bw):
                            add(row * bh + h, ci[k] * bw + w, val[k * bh * bw + h * bw + w])
            self.empty_rows = self.rows - len({row for s, row in enumerate(rn) if rp[s + 1] > rp[s]})
            self.prow, self.pcol = self.rows * bh, self.cols * bw
        elif self.fmt == "banded":
            off, val = c.nats(), c.fracs()
            self.noo = len(off)
            for k, o in enumerate(off):
                for i in range(self.rows):
                    j = i + o + 1 - self.rows
                    if 0 <= j < self.cols:
                        add(i, j, val[k * self.rows + i])
                        self.nnz += 1
            self.empty_rows = self.rows - len({i for (i, j) in m})
            self.prow, self.pcol = self.rows, self.cols
        elif self.fmt == "dense":
            val = c.fracs()
            for i in range(self.rows):
                for j in range(self.cols):
                    add(i, j, val[i * self.cols + j])
            self.nnz = len(val)
            self.empty_rows = 0
            self.prow, self.pcol = self.rows, self.cols
        else:
            raise ValueError("format " + self.fmt)
        self.m = m
        self.alpha = c.frac()
        self.x, self.y = c.fracs(), c.fracs()
        self.alias = c.nat()
        self.tr = self.op.endswith("T")
        self.axpy = self.op.startswith("axpy")

    def product(self):
        """(A x or A^T x, |A||x|) with blocked-vector semantics for csrsb (scalar entry times block)"""
        nr = (self.pcol if self.tr else self.prow) * self.bs
        p = [Fraction(0)] * nr
        pa = [Fraction(0)] * nr
        for (i, j), v in self.m.items():
            if self.tr:
                i, j = j, i
            for k in range(self.bs):
                p[i * self.bs + k] += v * self.x[j * self.bs + k]
                pa[i * self.bs + k] += abs(v * self.x[j * self.bs + k])
        return p, pa


def is_abnormal(out):
    return out.split(":")[0] in ("ABORT", "EXC", "TIMEOUT", "SIGNAL", "SANITIZER", "EXIT") or out.startswith("BAD-OP")


def oracle(case, out):
    try:
        c = Case(case)
    except Exception as e:  # malformed case line: generator bug
        return "unparsable case (%s)" % e
    try:
        if c.op == "dense":
            if is_abnormal(out):
                return "operator() sweep ended with " + out
            o = Tk(out)
            if o.tok() != "D" or o.nat() != c.prow or o.nat() != c.pcol:
                return "dense dump has wrong header"
            for i in range(c.prow):
                for j in range(c.pcol):
                    v = o.frac()
                    if v != c.m.get((i, j), Fraction(0)):
                        return "operator()(%d,%d) = %s, stored arrays say %s" % (i, j, v, c.m.get((i, j), Fraction(0)))
            return None
        if c.fmt == "banded" and c.tr and out == "ABORT:not-offered":
            return None     # the banded format does not offer the transposed product ("not implemented")
        if is_abnormal(out):
            return "%s %s on a valid input ended with %s" % (c.fmt, c.op, out)
        o = Tk(out)
        if o.tok() != "R":
            return "unparsable output"
        r = o.fracs()
        flag = o.tok()
        p, pa = c.product()
        if len(r) != len(p):
            return "result has %d entries, expected %d" % (len(r), len(p))
        a = c.alpha if c.axpy else Fraction(1)
        small = c.axpy and 0 < abs(a) < EPS
        for i in range(len(p)):
            exact = (c.y[i] if c.axpy else 0) + a * p[i]
            if r[i] == exact:
                continue
            # only an |alpha| below the unit roundoff may be dropped: that stays inside eps * (|A||x| + |y|)
            if small and abs(r[i] - exact) <= EPS * (pa[i] + abs(c.y[i])):
                continue
            return "r[%d] = %s, exact %s%s" % (i, r[i], exact, " (outside the rounding envelope)" if small else "")
        if flag != "U1":
            return "an input operand (x, y or a matrix array) was modified"
        return None
    except (IndexError, ValueError, AssertionError, ZeroDivisionError) as e:
        return "unparsable implementation output (%s): %s" % (e, out[:200])


def _flags(case):
    c = Case(case)
    f = set(c.flags)
    if c.nnz >= 1:
        f.add("nnz>0")
    if c.empty_rows > 0 and c.rows > 0:
        f.add("emptyrow")
    if c.prow != c.pcol:
        f.add("rect")
    if c.axpy and c.alpha not in (0, 1):
        f.add("alpha-general")
    if c.axpy and c.alias:
        f.add("alias")
    if c.tr:
        f.add("transposed")
    if c.bh * c.bw > 1 or c.bs > 1:
        f.add("block>1")
    return c, f


def nontrivial(case):
    try:
        c, f = _flags(case)
    except Exception:
        return False
    if c.op == "dense":
        return c.nnz >= 1
    return "nnz>0" in f and bool(f & {"emptyrow", "rect", "alpha-general", "alias", "transposed", "block>1"})


def describe(case):
    try:
        c, f = _flags(case)
    except Exception:
        return ["unparsable"]
    keys = ["fmt:" + c.fmt, "op:%s/%s" % (c.fmt, c.op)]
    if c.fmt != "dense":
        keys.append("it:%d" % c.it)
    if c.fmt == "bcsr":
        keys.append("block:%dx%d" % (c.bh, c.bw))
        keys.append("bcsr-vk:%d" % c.vk)
    if c.fmt == "csrsb":
        keys.append("csrsb-bs:%d" % c.bs)
    if c.fmt == "banded":
        keys.append("bands:%s" % ("1" if c.noo == 1 else "all" if c.noo == c.rows + c.cols - 1 else "2+"))
    keys.append("shape:" + ("0-dim" if c.prow == 0 or c.pcol == 0 else "1x1" if c.prow == c.pcol == 1 else
                            "square" if c.prow == c.pcol else "wide" if c.prow < c.pcol else "tall"))
    keys.append("size:" + ("<=3" if max(c.prow, c.pcol) <= 3 else "<=13" if max(c.prow, c.pcol) <= 13 else ">13"))
    if c.nnz == 0:
        keys.append("pattern:no-entries")
    if c.axpy:
        a = abs(c.alpha)
        keys.append("alpha:" + ("0" if a == 0 else "+-1" if a == 1 else "tiny(<eps)" if a < EPS else
                                "eps" if a == EPS else "general"))
        keys.append("alias:%d" % c.alias)
    for k in sorted(f):
        keys.append("flag:" + k)
    return keys


def canon(out):
    # "not implemented" (the format does not offer the operation) is a different outcome than an assertion abort
    if out.startswith("ABORT:not_implemented") or out.startswith("ABORT:not-offered"):
        return "ABORT:not-offered"
    return "ABORT" if out.startswith("ABORT") else out


# known-edge stream: the exact failing inputs of the findings F1 / F2, judged by the same oracle on every run
EDGE = {}
for _op in ("apply", "applyT", "axpy", "axpyT"):
    EDGE["dense %s 0 0 0 1/1 0 0 0" % _op] = "c01-edge:F1"
    EDGE["banded 64 %s 0 0 0 0 1/1 0 0 0" % _op] = "c01-edge:F1"
EDGE["dense axpy 0 0 0 2/1 0 0 1"] = "c01-edge:F1"                       # r aliasing y
EDGE["bcsr 64 2 3 4 axpy 0 0 1 0 0 0 0/1 0 0 0"] = "c01-edge:F2"
EDGE["bcsr 64 2 3 4 axpyT 0 0 1 0 0 0 0/1 0 0 0"] = "c01-edge:F2"
EDGE["bcsr 32 2 2 4 axpy 0 2 1 0 0 0 3/1 4 1/1 1/1 1/1 1/1 0 0"] = "c01-edge:F2"      # 0 x 2 blocks, alpha general
EDGE["bcsr 32 3 2 4 axpyT 2 0 3 0 0 0 0 0 3/1 6 1/1 1/1 1/1 1/1 1/1 1/1 0 0"] = "c01-edge:F2"


def edge_signature(case, out, why):
    return EDGE.get(case, "c01-edge:?")


def edge_model_filter(case):
    # the Lean model reproduces F1 (Dense.apply / Banded.apply return none for two empty vectors);
    # it does not model the std::out_of_range of F2
    return EDGE.get(case) == "c01-edge:F1"


def signature(case, out, why):
    t = case.split()
    return "%s:%s" % (t[0], (why or "")[:40])


def main(argv):
    args = vlib.std_args(argv)
    t0 = time.time()
    rng = random.Random(args.seed * 1000003 + 1)
    lean = None if args.no_lean else vlib.lean_check(PROP, leanchecker=(args.tier == "thorough"))
    binary, err = vlib.build_harness("c01", os.path.join(vlib.VERIF, "harness", "c01", "main.cpp"))
    if binary is None:
        v = [{"property": PROP, "kind": "harness-build-failure", "detail": err, "failing_input": None,
              "broken": "harness c01 does not compile against the current tree"}]
        return vlib.finish(PROP, args.tier, args.seed, t0, lean, [], [], v, [])
    if args.replay:
        cases = [json.load(open(args.replay))["input"]]
    elif args.tier == "quick":
        cases = CORPUS + gen_cases(rng, 8000, [0, 1, 1, 2, 2, 3, 3, 5, 8, 13])
    else:
        cases = CORPUS + gen_cases(rng, 150000, [0, 1, 1, 2, 2, 3, 3, 5, 8, 13]) \
            + gen_cases(rng, 20000, [1, 2, 3, 5, 8, 13, 21, 34, 55]) \
            + gen_cases(rng, 600, [1, 3, 34, 89, 144, 200])
    edge_cases = list(EDGE.keys())
    if args.replay:     # a replayed edge case is judged in its own stream (signature -> KNOWN-FINDING), others in "apply"
        edge_cases = [c for c in cases if c in EDGE]
        cases = [c for c in cases if c not in EDGE]
    st_edge = vlib.Stream("known-edge", edge_cases, [binary], vlib.driver_cmd(PROP),
                          oracle=oracle, describe=describe, signature=edge_signature, canon=canon,
                          model_filter=edge_model_filter)
    st = vlib.Stream("apply", cases, [binary], vlib.driver_cmd(PROP), oracle=oracle, nontrivial=nontrivial,
                     describe=describe, signature=signature, canon=canon)
    stats_rule = ("CSR (scalar and blocked vectors), CSCR, BCSR (6 block shapes x 5 vector-kind overloads), banded "
                  "(arbitrary offset sets, rectangular, garbage in the padding entries), dense; apply / axpy and their "
                  "transposed forms, 32/64-bit indices, r aliasing y, alpha in {0, +-1, below eps, eps, general}; "
                  "non-trivial = at least one stored entry and one of {empty row, rectangular, alpha not in {0,1}, "
                  "r aliases y, transposed, block > 1}")
    rc = vlib.run_pipeline(PROP, args.tier, args.seed, lean, [st, st_edge], t0, assumptions=[
        "Index modelled as unbounded Nat (no 32/64-bit overflow at the sizes generated)",
        "exact rational arithmetic at Q: the rounding clause of the property is exercised only through the "
        "|alpha| < eps early-out (float conformance T3 not run)",
        "DenseMatrix / SparseMatrixBanded 0x0 and the BCSR mixed overload with an empty y are not generated randomly; "
        "their exact failing inputs are executed and judged in stream known-edge (KNOWN_FINDINGS c01-edge:F1/F2)"],
        extra_cov={"rule": stats_rule})
    return rc
