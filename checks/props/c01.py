"""C01 - matrix-vector products equal the mathematical product in every storage format.

Inputs on which the *property* fails on the unchanged tree (genuine FEAT defects, reproduced with the real containers
at Q; /repo is not changed). The random generator avoids the open ones; F8 is executed and judged on every run in the
second stream "known-edge" (signature c01-edge:F8, open entries of KNOWN_FINDINGS.json -> KNOWN-FINDING
lines; once fixed in FEAT the cases simply pass):

 F1  (FIXED in /repo by 2dc37e78b = proposed_fix_F1.diff: `if (r.size() == Index(0)) return;` after the size assertions;
     inputs now in the corpus, the model follows the fixed code, theorem C01.empty_result_is_identity)
     `dense apply 0 0 0 1/1 0 0 0`  (default-constructed 0x0 DenseMatrix, r and x empty; same for axpy / transposed and
     for a default-constructed SparseMatrixBanded): ABORT "Vector x and r must not share the same memory!" - the aliasing
     assertion r.elements() != x.elements() compares two null pointers before any early-out.  Expected: returns the
     empty vector, like CSR/CSCR/BCSR (`csr 64 apply 0 0 1 0 0 0 1/1 0 0 0` -> `R 0 U1`).
 F2  `bcsr 64 2 3 4 axpy 0 0 1 0 0 0 0/1 0 0 0`  (mixed overload r,x blocked / y scalar, empty y): threw std::out_of_range
     from `r.convert(y)`.  FIXED in /repo by 8f02f23f1 ("convert: an empty source vector owns no array"); the four
     known-edge cases now pass and the generator no longer avoids the input class.
 F3  (observation, not judged: the operands are unmodified when the call returns, which is all the property text
     claims; the damage needs a *later* write through r) the same overload's early-out leaves r a *shallow alias* of y
     (`bcsr 64 2 2 4 axpy 1 1 2 0 1 1 0 4 1/1 1/1 1/1 1/1 0/1 2 1/1 1/1 2 5/1 5/1 0`: values correct, but
     r.elements<pod>() == y.elements() afterwards, a later r.scale(r,2) turns y into 10 10).
 F4  (FIXED in /repo by 349913221; now executed and judged like every other member) TupleMatrix transposed products did not compile: `TupleMatrix<FirstRow_>::apply_transposed(r, x, y, alpha)`
     (tuple_matrix.hpp:1330) calls `first().apply(r, x.first(), y, alpha)` instead of `first().apply_transposed(...)`;
     the 2-argument apply_transposed of a TupleMatrix with >= 2 rows needs that member for its last row. The harness can
     could only report NOT-OFFERED for these members.
 F5  (FIXED in /repo by 349913221; the overload is now run as op applyTF) `SaddlePointMatrix::apply_transposed(DenseVector& r, const DenseVector& x)` called
     `block_b().applytransposed(r_rest, x_first)` (saddle_point_matrix.hpp:501, missing underscore): any use of this
     overload fails to compile. The Tuple/PowerVector overloads exercised here are fine.
 F6  (compile-time, open) the flat DenseVector overloads of TupleDiagMatrix cannot be instantiated: they recurse into
     `rest().apply(DenseVector&, ...)`, but the one-block specialisation `TupleDiagMatrix<First_>` (tuple_diag_matrix.hpp
     ~l.905) only has the TupleVector overloads. The TupleVector overloads are run (types tdiag_*).
 F7  (FIXED in /repo by f4bb574b6; inputs now in the corpus) `PowerRowMatrix::apply_transposed(DenseVector& r, const DenseVector& x, const DenseVector& y, alpha)`
     (power_row_matrix.hpp:547-548) calls `first().apply(...)` / `rest().apply(...)` instead of apply_transposed: wrong
     values or a size assertion. Reached by axpyTF on every type containing a PowerRowMatrix with >= 2 blocks and by
     applyTF where such a row is reached through a chained call (PowerFullMatrix, SaddlePointMatrix block D).
     `meta prow3_csr axpyTF R csr 2 1 3 0 1 1 1 0 1 2/1 R csr 2 1 3 0 0 0 0 0 csr 2 1 3 0 0 0 0 0 1/1 2 1/1 1/1 3 0/1 0/1 0/1 0`
     -> ABORT "Vector size of r does not match!", expected `R 3 2/1 0/1 0/1`.
 F8  (run-time, open) the flat DenseVector overloads of all Power*/SaddlePoint matrices abort when a block has a zero
     row or column count: the range constructor DenseVector(dv, size, offset) asserts size > 0.
     `meta pdiag2_csr applyTF D csr 2 0 3 0 0 0 0 0 csr 2 2 3 0 0 0 0 0 1/1 4 2/7 -3/1 -5/3 0/1 0 0` -> ABORT, expected `R 2 0/1 0/1`.

Patch proposals for the two open run-time findings (tested on a private copy: all known-edge inputs return the correct
empty / product vectors, and the FEAT unit tests dense_matrix (40), dense_vector (50), sparse_matrix_banded (24),
sparse_matrix_csr (68), meta_matrix-apply (4) pass): proposed_fix_F1.diff (early return for an empty result vector before
the aliasing assertion, 8 added lines) and proposed_fix_F8.diff (an empty range DenseVector owns no array, 3 lines).
"""
import json
import os
import random
import time
from fractions import Fraction

import vlib

PROP = "C01"
EPS = Fraction(1, 2 ** 52)          # Math::eps<Q>() of harness/common/exact_q.hpp
BLOCKS = [(1, 1), (2, 2), (2, 3), (3, 2), (3, 1), (1, 3)]


# ---------------------------------------------------------------------------------------------
# generators (every random choice from the one seeded rng)
# ---------------------------------------------------------------------------------------------

def fs(q):
    return vlib.frac_str(Fraction(q))


def fl(v):
    return ("%d " % len(v) + " ".join(fs(q) for q in v)).strip()


def nl(v):
    return ("%d " % len(v) + " ".join(map(str, v))).strip()


def rval(rng, nonzero=False):
    while True:
        q = Fraction(rng.randint(-9, 9), rng.choice([1, 1, 1, 2, 3, 4, 7]))
        if q != 0 or not nonzero:
            return q


def rvec(rng, n):
    style = rng.random()
    if style < 0.08:
        return [Fraction(0)] * n
    if style < 0.16:
        return [Fraction(1)] * n
    return [rval(rng) for _ in range(n)]


def ralpha(rng):
    k = rng.random()
    if k < 0.14:
        return Fraction(0)
    if k < 0.28:
        return Fraction(1)
    if k < 0.42:
        return Fraction(-1)
    if k < 0.50:
        return Fraction(1, 2 ** 60)
    if k < 0.55:
        return -Fraction(1, 2 ** 53)
    if k < 0.60:
        return rng.choice([EPS, -EPS])            # exactly eps: NOT below the threshold
    if k < 0.64:
        return Fraction(2 ** 52 - 1, 2 ** 104)   # just below eps
    return rval(rng, nonzero=True) * rng.choice([1, 1, 1, 10, Fraction(1, 100)])


def rdim(rng, sizes, allow0=True):
    while True:
        n = rng.choice(sizes)
        if n > 0 or allow0:
            return n


def gen_pattern(rng, rows, cols, allow_messy=True):
    """list of rows, each a list of column indices; returns (pattern, flags)"""
    flags = set()
    if rows == 0 or cols == 0:
        return [[] for _ in range(rows)], flags
    style = rng.choice(["empty", "one", "sparse", "sparse", "sparse", "full", "diag", "unsorted", "dups", "lastcol"])
    if not allow_messy and style in ("unsorted", "dups"):
        style = "sparse"
    pat = [[] for _ in range(rows)]
    if style == "one":
        pat[rng.randrange(rows)] = [rng.randrange(cols)]
    elif style in ("sparse", "unsorted", "dups"):
        dens = rng.choice([0.15, 0.3, 0.6])
        for i in range(rows):
            if rng.random() < 0.25:
                continue                      # forced empty row
            pat[i] = [j for j in range(cols) if rng.random() < dens]
        if style == "unsorted":
            for r in pat:
                rng.shuffle(r)
            flags.add("unsorted")
        if style == "dups":
            for r in pat:
                if r and rng.random() < 0.6:
                    r.insert(rng.randrange(len(r) + 1), rng.choice(r))
                    flags.add("dups")
    elif style == "full":
        pat = [list(range(cols)) for _ in range(rows)]
    elif style == "diag":
        pat = [[i] if i < cols else [] for i in range(rows)]
    elif style == "lastcol":
        pat = [[cols - 1] if rng.random() < 0.7 else [] for _ in range(rows)]
        pat[rows - 1] = [0, cols - 1] if cols > 1 else [0]
    return pat, flags


def csr_arrays(pat):
    rp, ci = [0], []
    for r in pat:
        ci.extend(r)
        rp.append(len(ci))
    return rp, ci


def tail(rng, nx, ny, axpy):
    alpha = ralpha(rng) if axpy else Fraction(1)
    x = rvec(rng, nx)
    y = rvec(rng, ny) if axpy else []
    alias = 1 if (axpy and rng.random() < 0.4) else 0
    return "%s %s %s %d" % (fs(alpha), fl(x), fl(y), alias)


def pick_op(rng, transposed_ok=True, dense_ok=True):
    ops = ["apply", "axpy", "axpy"]
    if transposed_ok:
        ops += ["applyT", "axpyT", "axpyT"]
    op = rng.choice(ops)
    if dense_ok and rng.random() < 0.06:
        op = "dense"
    return op


def gen_case(rng, sizes):
    if max(sizes) <= 13 and rng.random() < 0.18:
        return gen_meta_case(rng)
    it = rng.choice([32, 64])
    k = rng.random()
    if k < 0.26:
        # ----- CSR, scalar vectors
        rows, cols = rdim(rng, sizes), rdim(rng, sizes)
        if rng.random() < 0.25:
            cols = rows
        op = pick_op(rng)
        pat, _ = gen_pattern(rng, rows, cols, allow_messy=(op != "dense"))
        rp, ci = csr_arrays(pat)
        val = [rval(rng, nonzero=rng.random() < 0.8) for _ in ci]
        tr = op.endswith("T")
        nr, nx = (cols, rows) if tr else (rows, cols)
        t = tail(rng, nx, nr, op.startswith("axpy")) if op != "dense" else "0/1 0 0 0"
        return "csr %d %s %d %d %s %s %s %s" % (it, op, rows, cols, nl(rp), nl(ci), fl(val), t)
    if k < 0.36:
        # ----- CSR times blocked vectors (csrsb)
        bs = rng.choice([1, 2, 3])
        rows, cols = rdim(rng, sizes), rdim(rng, sizes)
        op = rng.choice(["apply", "axpy", "axpy"])
        pat, _ = gen_pattern(rng, rows, cols)
        rp, ci = csr_arrays(pat)
        val = [rval(rng, nonzero=rng.random() < 0.8) for _ in ci]
        t = tail(rng, cols * bs, rows * bs, op == "axpy")
        return "csrsb %d %d %s %d %d %s %s %s %s" % (it, bs, op, rows, cols, nl(rp), nl(ci), fl(val), t)
    if k < 0.50:
        # ----- CSCR: only a subset of the rows is stored
        rows, cols = rdim(rng, sizes), rdim(rng, sizes)
        op = pick_op(rng)
        pat, _ = gen_pattern(rng, rows, cols, allow_messy=(op != "dense"))
        stored = [i for i in range(rows) if pat[i] or rng.random() < 0.3]
        if rng.random() < 0.3:
            stored = [i for i in stored if rng.random() < 0.6]      # drop rows entirely
        spat = [pat[i] for i in stored]
        rp, ci = csr_arrays(spat)
        if not ci:
            stored, rp = [], [0]
        val = [rval(rng, nonzero=rng.random() < 0.8) for _ in ci]
        tr = op.endswith("T")
        nr, nx = (cols, rows) if tr else (rows, cols)
        t = tail(rng, nx, nr, op.startswith("axpy")) if op != "dense" else "0/1 0 0 0"
        return "cscr %d %s %d %d %s %s %s %s %s" % (it, op, rows, cols, nl(rp), nl(ci), fl(val), nl(stored), t)
    if k < 0.72:
        # ----- BCSR, all vector-kind overloads
        bh, bw = rng.choice(BLOCKS)
        bsizes = [s for s in sizes if s <= 8]
        rows, cols = rdim(rng, bsizes), rdim(rng, bsizes)
        op = pick_op(rng)
        pat, _ = gen_pattern(rng, rows, cols, allow_messy=(op != "dense"))
        rp, ci = csr_arrays(pat)
        val = [rval(rng, nonzero=rng.random() < 0.7) for _ in range(len(ci) * bh * bw)]
        tr = op.endswith("T")
        nr, nx = (cols * bw, rows * bh) if tr else (rows * bh, cols * bw)
        vk = rng.randrange(5 if op.startswith("axpy") else 4)
        if op == "dense":
            vk = 0
        t = tail(rng, nx, nr, op.startswith("axpy")) if op != "dense" else "0/1 0 0 0"
        return "bcsr %d %d %d %d %s %d %d %s %s %s %s" % (it, bh, bw, vk, op, rows, cols, nl(rp), nl(ci), fl(val), t)
    if k < 0.90:
        # ----- banded: arbitrary offset sets, rectangular shapes; padding entries carry garbage values
        rows = rdim(rng, sizes, allow0=False)
        cols = rdim(rng, sizes)
        if rng.random() < 0.3:
            cols = rows
        if rows + cols < 2:
            cols = 1
        maxoff = rows + cols - 2
        alloff = list(range(maxoff + 1))
        style = rng.choice(["single", "all", "sub", "super", "rand", "rand", "extreme", "tridiag", "none"])
        if style == "single":
            off = [rng.choice(alloff)]
        elif style == "all":
            off = alloff
        elif style == "sub":
            off = [o for o in alloff if o < rows - 1 and rng.random() < 0.6]
        elif style == "super":
            off = [o for o in alloff if o > rows - 1 and rng.random() < 0.6]
        elif style == "extreme":
            off = sorted({0, maxoff})
        elif style == "tridiag":
            off = [o for o in (rows - 2, rows - 1, rows) if 0 <= o <= maxoff]
        else:
            off = [o for o in alloff if rng.random() < 0.4]
        if not off and style != "none":
            off = [rng.choice(alloff)]
        op = pick_op(rng)
        if op.endswith("T") and rng.random() < 0.7:
            op = op[:-1]                      # apply_transposed is "not implemented": keep it rare
        val = [rval(rng, nonzero=rng.random() < 0.8) for _ in range(rows * len(off))]
        tr = op.endswith("T")
        nr, nx = (cols, rows) if tr else (rows, cols)
        t = tail(rng, nx, nr, op.startswith("axpy")) if op != "dense" else "0/1 0 0 0"
        return "banded %d %s %d %d %s %s %s" % (it, op, rows, cols, nl(off), fl(val), t)
    # ----- dense (a DenseMatrix with exactly one zero dimension cannot be constructed; 0x0 is the default-constructed one)
    rows, cols = rdim(rng, sizes, allow0=False), rdim(rng, sizes, allow0=False)
    if rng.random() < 0.04:
        rows = cols = 0                 # the default-constructed empty matrix
    op = pick_op(rng)
    val = [rval(rng) for _ in range(rows * cols)]
    tr = op.endswith("T")
    nr, nx = (cols, rows) if tr else (rows, cols)
    t = tail(rng, nx, nr, op.startswith("axpy")) if op != "dense" else "0/1 0 0 0"
    return "dense %s %d %d %s %s" % (op, rows, cols, fl(val), t)


# ----- meta-matrices: the catalogue of C++ types of harness/c01/meta.cpp and their tree shapes
_C, _DN = "csr", "dense"


def _b(bh, bw):
    return ("bcsr", bh, bw)


META_TYPES = {
    "prow3_csr": ("R", _C, ("R", _C, _C)),
    "pcol3_csr": ("C", _C, ("C", _C, _C)),
    "pdiag2_csr": ("D", _C, _C),
    "pdiag2_bcsr23": ("D", _b(2, 3), _b(2, 3)),
    "pfull_w3h2_csr": ("C", ("R", _C, ("R", _C, _C)), ("R", _C, ("R", _C, _C))),
    "pfull22_bcsr22": ("C", ("R", _b(2, 2), _b(2, 2)), ("R", _b(2, 2), _b(2, 2))),
    "saddle_csr": ("S", _C, _C, _C),
    "saddle_stokes": ("S", ("D", _C, _C), ("C", _C, _C), ("R", _C, _C)),
    "saddle_bcsr": ("S", _b(2, 2), _b(2, 1), _b(1, 2)),
    "tuple22_csr_dense": ("C", ("R", _C, _DN), ("R", _DN, _C)),
    "tuple22_bcsr": ("C", ("R", _b(2, 2), _b(2, 3)), ("R", _b(3, 2), _b(3, 3))),
    "tuple12_saddle": ("R", ("S", _C, _C, _C), ("S", _C, _C, _C)),
    "tuple32_csr": ("C", ("R", _C, _C), ("C", ("R", _C, _C), ("R", _C, _C))),
    "tdiag_csr_dense": ("D", _C, _DN),
    "pdiag2_cscr": ("D", "cscr", "cscr"),
    "pcol2_cscr": ("C", "cscr", "cscr"),
    "prow2_banded": ("R", "banded", "banded"),
    "saddle_banded": ("S", "banded", _C, "cscr"),
    "tuple22_banded_cscr": ("C", ("R", "banded", "cscr"), ("R", "cscr", "banded")),
    "tdiag_csr_saddle_csr": ("D", _C, ("D", ("S", _C, _C, _C), _C)),
    "pdiag2_pfull22": ("D", ("C", ("R", _C, _C), ("R", _C, _C)), ("C", ("R", _C, _C), ("R", _C, _C))),
}
# types that also have the overloads with flat DenseVector operands (all leaves use DenseVector; TupleMatrix has none and
# the flat overloads of TupleDiagMatrix cannot be instantiated: its one-block specialisation lacks them - finding F6)
META_FLAT = {"prow3_csr", "pcol3_csr", "pdiag2_csr", "pfull_w3h2_csr", "saddle_csr", "saddle_stokes", "pdiag2_pfull22",
             "pdiag2_cscr", "pcol2_cscr", "prow2_banded", "saddle_banded"}




def _unit(shape, axis):
    """granularity of the pod row (axis 0) / column (axis 1) count of a subtree (block sizes of its BCSR leaves)"""
    from math import gcd
    if shape in ("csr", "dense", "cscr", "banded"):
        return 1
    if shape[0] == "bcsr":
        return shape[1 + axis]
    u = 1
    for sub in shape[1:]:
        v = _unit(sub, axis)
        u = u * v // gcd(u, v)
    return u


def _tot(prof):
    return prof if isinstance(prof, int) else _tot(prof[1]) + _tot(prof[2])


def _parts(rng, prof, shape, axis):
    """constraint profiles for the two children of a node that splits `axis`; a profile is an int (only the total is
    prescribed) or ("+", p1, p2) (the partition of a sibling block is prescribed)"""
    if prof is None:
        return None, None
    if isinstance(prof, int):
        g = _unit(shape, axis)
        a = g * rng.randint(0, prof // g)
        return a, prof - a
    return prof[1], prof[2]


def gen_tree(rng, shape, rows, cols, dims):
    """tokens of the tree and its pod row / column profiles; rows/cols = None means free"""
    if shape == "cscr":
        rows = rng.choice(dims) if rows is None else _tot(rows)
        cols = rng.choice(dims) if cols is None else _tot(cols)
        pat, _ = gen_pattern(rng, rows, cols)
        stored = [i for i in range(rows) if pat[i] or rng.random() < 0.3]
        rp, ci = csr_arrays([pat[i] for i in stored])
        if not ci:
            stored, rp = [], [0]
        val = [rval(rng, nonzero=rng.random() < 0.8) for _ in ci]
        return ["cscr", str(rows), str(cols), nl(rp), nl(ci), fl(val), nl(stored)], rows, cols
    if shape == "banded":
        rows = max(1, rng.choice(dims)) if rows is None else _tot(rows)
        cols = max(1, rng.choice(dims)) if cols is None else _tot(cols)
        assert rows >= 1 and rows + cols >= 2
        off = [o for o in range(rows + cols - 1) if rng.random() < 0.5]
        val = [rval(rng, nonzero=rng.random() < 0.8) for _ in range(rows * len(off))]
        return ["banded", str(rows), str(cols), nl(off), fl(val)], rows, cols
    if shape == "csr" or shape == "dense" or shape[0] == "bcsr":
        bh, bw = (shape[1], shape[2]) if shape[0] == "bcsr" else (1, 1)
        lo = 1 if shape == "dense" else 0
        rows = max(lo, rng.choice(dims)) * bh if rows is None else _tot(rows)
        cols = max(lo, rng.choice(dims)) * bw if cols is None else _tot(cols)
        assert rows % bh == 0 and cols % bw == 0
        br, bc = rows // bh, cols // bw
        if shape == "dense":
            return ["dense", str(br), str(bc), fl([rval(rng) for _ in range(br * bc)])], rows, cols
        pat, _ = gen_pattern(rng, br, bc)
        rp, ci = csr_arrays(pat)
        val = [rval(rng, nonzero=rng.random() < 0.8) for _ in range(len(ci) * bh * bw)]
        head = ["csr"] if shape == "csr" else ["bcsr", str(bh), str(bw)]
        return head + [str(br), str(bc), nl(rp), nl(ci), fl(val)], rows, cols
    k = shape[0]
    if k == "R":
        c1, c2 = _parts(rng, cols, shape, 1)
        t1, r1, c1 = gen_tree(rng, shape[1], rows, c1, dims)
        t2, _, c2 = gen_tree(rng, shape[2], r1, c2, dims)
        return ["R"] + t1 + t2, r1, ("+", c1, c2)
    if k == "C":
        r1, r2 = _parts(rng, rows, shape, 0)
        t1, r1, c1 = gen_tree(rng, shape[1], r1, cols, dims)
        t2, r2, _ = gen_tree(rng, shape[2], r2, c1, dims)
        return ["C"] + t1 + t2, ("+", r1, r2), c1
    if k == "D":
        r1, r2 = _parts(rng, rows, shape, 0)
        c1, c2 = _parts(rng, cols, shape, 1)
        t1, r1, c1 = gen_tree(rng, shape[1], r1, c1, dims)
        t2, r2, c2 = gen_tree(rng, shape[2], r2, c2, dims)
        return ["D"] + t1 + t2, ("+", r1, r2), ("+", c1, c2)
    assert k == "S"
    ra, rd = _parts(rng, rows, shape, 0)
    ca, cb = _parts(rng, cols, shape, 1)
    ta, ra, ca = gen_tree(rng, shape[1], ra, ca, dims)
    tb, _, cb = gen_tree(rng, shape[2], ra, cb, dims)
    td, rd, _ = gen_tree(rng, shape[3], rd, ca, dims)
    return ["S"] + ta + tb + td, ("+", ra, rd), ("+", ca, cb)


def gen_meta_case(rng, dims=(0, 1, 1, 2, 2, 3, 4)):
    ty = rng.choice(sorted(META_TYPES))
    op = rng.choice(["apply", "axpy", "axpy", "applyT", "axpyT", "axpyT"])
    if ty in META_FLAT and rng.random() < 0.4:
        # F8: the flat overloads abort on a block with a zero dimension (judged in stream known-edge, avoided here)
        op += "F"
        dims = tuple(d for d in dims if d > 0)
    if "banded" in ty and op.rstrip("F").endswith("T"):
        op = op.replace("T", "")       # the banded format does not offer the transposed product
    if "dense" in ty or "banded" in ty:      # a DenseMatrix with a zero dimension cannot be constructed
        dims = tuple(d for d in dims if d > 0)
    toks, rows, cols = gen_tree(rng, META_TYPES[ty], None, None, dims)
    rows, cols = _tot(rows), _tot(cols)
    tr = op.rstrip("F").endswith("T")
    nr, nx = (cols, rows) if tr else (rows, cols)
    return "meta %s %s %s %s" % (ty, op, " ".join(toks), tail(rng, nx, nr, op.startswith("axpy")))


# ----- boundary-sizes: dimensions / index values / counts around 2^7, 2^8, 1000, 2^15, 2^16, with the stored entries,
# the non-zero operand entries and the stored CSCR rows at the HIGH end (last rows, highest column indices)
BOUNDARY_QUICK = [127, 128, 129, 255, 256, 257, 1000, 1001]
BOUNDARY_THOROUGH = [32767, 32768, 65535, 65536, 65537]


def _hi_vec(n, vals):
    """zeros, except the first entry and the last len(vals) entries"""
    v = [Fraction(0)] * n
    if n:
        v[0] = Fraction(1)
    for k, q in enumerate(vals):
        if n - 1 - k >= 0:
            v[n - 1 - k] = Fraction(q)
    return v


def gen_boundary_cases(rng, sizes, heavy):
    out = []
    for n in sizes:
        it = 32
        # CSR n x (n+1): entries only in the last three rows and one middle row, at the highest columns
        rows, cols = n, n + 1
        pat = [[] for _ in range(rows)]
        pat[rows - 1] = [0, cols - 2, cols - 1]
        pat[rows - 2] = [cols - 1]
        pat[rows - 3] = [cols - 1, cols - 2][::-1] if False else [cols - 2, cols - 1]
        pat[rows // 2] = [rows // 2, cols - 1]
        rp, ci = csr_arrays(pat)
        val = [rval(rng, nonzero=True) for _ in ci]
        x, xt = _hi_vec(cols, [2, -3]), _hi_vec(rows, [2, -3, 5])
        y, yt = _hi_vec(rows, [7, Fraction(1, 2)]), _hi_vec(cols, [7, Fraction(1, 2)])
        mat = "%d %d %s %s %s" % (rows, cols, nl(rp), nl(ci), fl(val))
        out.append("csr %d apply %s 1/1 %s 0 0" % (it, mat, fl(x)))
        out.append("csr %d axpyT %s -2/1 %s %s 1" % (it, mat, fl(xt), fl(yt)))
        out.append("csr 64 axpy %s 3/1 %s %s 0" % (mat, fl(x), fl(y)))
        # CSCR: 0 < used_rows < rows, the stored rows are the last but one and two rows around the middle; r is pre-filled,
        # so the rows that are not stored must come back as 0 (apply) resp. y (axpy)
        stored = [rows // 2, rows - 2]
        spat = [[cols - 1], [0, cols - 1]]
        rp2, ci2 = csr_arrays(spat)
        val2 = [rval(rng, nonzero=True) for _ in ci2]
        cm = "%d %d %s %s %s %s" % (rows, cols, nl(rp2), nl(ci2), fl(val2), nl(stored))
        out.append("cscr %d apply %s 1/1 %s 0 0" % (it, cm, fl(x)))
        out.append("cscr %d axpy %s 2/1 %s %s 0" % (it, cm, fl(x), fl(y)))
        out.append("cscr %d applyT %s 1/1 %s 0 0" % (it, cm, fl(xt)))
        # banded n x (n+1): lowest sub-diagonal, main diagonal, highest super-diagonal (offsets 0, n-1, 2n-1)
        off = [0, rows - 1, rows + cols - 2]
        bval = [Fraction(0)] * (rows * len(off))
        for k in range(len(off)):
            for i in (0, rows // 2, rows - 2, rows - 1):
                bval[k * rows + i] = rval(rng, nonzero=True)
        out.append("banded %d apply %d %d %s %s 1/1 %s 0 0" % (it, rows, cols, nl(off), fl(bval), fl(x)))
        out.append("banded %d axpy %d %d %s %s -1/1 %s %s 1" % (it, rows, cols, nl(off), fl(bval), fl(x), fl(y)))
        if heavy:
            continue
        # number of bands 3 / 5 / 9 / 25 (the FEAT_UNROLL_BANDED switch) on a matrix with n rows
        for noo in (5, 9, 25):
            offs = sorted(rng.sample(range(rows + cols - 1), noo - 2) + [0, rows + cols - 2])
            offs = sorted(set(offs))
            bv = [Fraction(0)] * (rows * len(offs))
            for k in range(len(offs)):
                for i in (0, rows - 1, rng.randrange(rows)):
                    bv[k * rows + i] = rval(rng, nonzero=True)
            if n in (128, 257, 1000):
                out.append("banded 64 apply %d %d %s %s 1/1 %s 0 0" % (rows, cols, nl(offs), fl(bv), fl(x)))
        # CSR times blocked vectors, block size 2
        xb = _hi_vec(cols * 2, [2, -3, 4])
        yb = _hi_vec(rows * 2, [7, 1])
        out.append("csrsb %d 2 axpy %s 2/1 %s %s 0" % (it, mat, fl(xb), fl(yb)))
        # BCSR 2x3, all vectors blocked, n block rows: blocks in the last block row at the first and last block column
        bpat = [[] for _ in range(rows)]
        bpat[rows - 1] = [0, cols - 1]
        bpat[rows // 2] = [cols - 1]
        brp, bci = csr_arrays(bpat)
        bvv = [rval(rng, nonzero=True) for _ in range(len(bci) * 6)]
        xbb = _hi_vec(cols * 3, [2, -3, 4])
        xbt = _hi_vec(rows * 2, [2, -3])
        out.append("bcsr %d 2 3 3 apply %d %d %s %s %s 1/1 %s 0 0" % (it, rows, cols, nl(brp), nl(bci), fl(bvv), fl(xbb)))
        out.append("bcsr %d 2 3 0 applyT %d %d %s %s %s 1/1 %s 0 0" % (it, rows, cols, nl(brp), nl(bci), fl(bvv), fl(xbt)))
        # dense n x 2 and 2 x n
        dv = [rval(rng) for _ in range(n * 2)]
        out.append("dense apply %d 2 %s 1/1 2 2/1 -1/1 0 0" % (n, fl(dv)))
        out.append("dense applyT %d 2 %s 1/1 %s 0 0" % (n, fl(dv), fl(_hi_vec(n, [2, -3]))))
        out.append("dense axpy 2 %d %s 2/1 %s 2 1/1 1/2 1" % (n, fl(dv), fl(_hi_vec(n, [2, -3]))))
        # meta: block row of three CSR blocks with n columns each, flat and structured operands
        leaf = "csr 2 %d 3 0 1 2 2 %d %d 2 3/1 -1/1" % (n, n - 1, n - 1)
        xm = _hi_vec(3 * n, [2, -3])
        out.append("meta prow3_csr apply R %s R %s %s 1/1 %s 0 0" % (leaf, leaf, leaf, fl(xm)))
        out.append("meta prow3_csr axpyTF R %s R %s %s 2/1 2 1/1 -1/1 %s 0" % (leaf, leaf, leaf, fl(_hi_vec(3 * n, [7]))))
    return out


def gen_cases(rng, count, sizes):
    return [gen_case(rng, sizes) for _ in range(count)]


CORPUS = [
    # former finding F1 (fixed in /repo by 2dc37e78b): empty result vector (0x0 dense / banded, banded n x 0 transposed)
    "dense apply 0 0 0 1/1 0 0 0",
    "dense applyT 0 0 0 1/1 0 0 0",
    "dense axpy 0 0 0 1/1 0 0 0",
    "dense axpyT 0 0 0 1/1 0 0 0",
    "banded 64 apply 0 0 0 0 1/1 0 0 0",
    "banded 64 applyT 0 0 0 0 1/1 0 0 0",
    "banded 64 axpy 0 0 0 0 1/1 0 0 0",
    "banded 64 axpyT 0 0 0 0 1/1 0 0 0",
    "dense axpy 0 0 0 2/1 0 0 1",
    "banded 64 applyT 3 0 2 0 1 6 1/1 2/1 3/1 4/1 5/1 6/1 1/1 3 1/1 1/1 1/1 0 0",
    "banded 64 axpyT 3 0 2 0 1 6 1/1 2/1 3/1 4/1 5/1 6/1 2/1 3 1/1 1/1 1/1 0 0",
    # former finding F7 (fixed in /repo by f4bb574b6): flat 4-argument PowerRowMatrix::apply_transposed
    "meta prow3_csr axpyTF R csr 2 1 3 0 1 1 1 0 1 2/1 R csr 2 1 3 0 0 0 0 0 csr 2 1 3 0 0 0 0 0 1/1 2 1/1 1/1 3 0/1 0/1 0/1 0",
    "meta pfull_w3h2_csr applyTF C R csr 3 2 4 0 0 0 0 0 0 R csr 3 1 4 0 1 1 1 1 0 1 1/1 csr 3 1 4 0 0 0 0 0 0 R csr 2 2 3 0 1 1 1 1 1 -2/1 R csr 2 1 3 0 0 0 0 0 csr 2 1 3 0 0 0 0 0 1/1 5 2/1 -5/3 4/1 0/1 7/3 0 0",
    # former finding F2 (fixed in /repo by 8f02f23f1): BCSR mixed overload with an empty y
    "bcsr 64 2 3 4 axpy 0 0 1 0 0 0 0/1 0 0 0",
    "bcsr 64 2 3 4 axpyT 0 0 1 0 0 0 0/1 0 0 0",
    "bcsr 32 2 2 4 axpy 0 2 1 0 0 0 3/1 4 1/1 1/1 1/1 1/1 0 0",
    "bcsr 32 3 2 4 axpyT 2 0 3 0 0 0 0 0 3/1 6 1/1 1/1 1/1 1/1 1/1 1/1 0 0",
    # former finding F4 / F5 (fixed in /repo by 349913221): TupleMatrix transposed products, flat SaddlePoint apply_transposed
    "meta tuple22_csr_dense applyT C R csr 1 1 2 0 1 1 0 1 2/1 dense 1 1 1 3/1 R dense 1 1 1 4/1 csr 1 1 2 0 1 1 0 1 5/1 1/1 2 1/1 1/1 0 0",
    "meta tuple22_csr_dense axpyT C R csr 1 1 2 0 1 1 0 1 2/1 dense 1 1 1 3/1 R dense 1 1 1 4/1 csr 1 1 2 0 1 1 0 1 5/1 2/1 2 1/1 1/1 2 1/1 1/1 0",
    "meta tuple12_saddle axpyT R S csr 1 1 2 0 1 1 0 1 2/1 csr 1 1 2 0 1 1 0 1 3/1 csr 1 1 2 0 1 1 0 1 4/1 S csr 1 1 2 0 1 1 0 1 5/1 csr 1 1 2 0 1 1 0 1 6/1 csr 1 1 2 0 1 1 0 1 7/1 2/1 2 1/1 1/1 4 1/1 1/1 1/1 1/1 0",
    "meta saddle_csr applyTF S csr 1 1 2 0 1 1 0 1 2/1 csr 1 2 2 0 2 2 0 1 2 3/1 4/1 csr 2 1 3 0 1 2 2 0 0 2 5/1 6/1 1/1 3 1/1 1/1 1/1 0 0",
    # hand-written edge cases replayed first on every run: empty / 1x1 / rectangular / empty rows / aliasing / alpha classes
    "csr 64 apply 0 0 1 0 0 0 1/1 0 0 0",
    "csr 32 axpy 0 0 1 0 0 0 2/1 0 0 1",
    "csr 64 apply 0 3 1 0 0 0 1/1 3 1/1 1/1 1/1 0 0",
    "csr 64 applyT 0 3 1 0 0 0 1/1 0 0 0",
    "csr 64 apply 3 0 4 0 0 0 0 0 0 1/1 0 0 0",
    "csr 32 apply 1 1 2 0 1 1 0 1 5/2 1/1 1 4/1 0 0",
    "csr 32 axpyT 2 3 3 0 2 3 3 0 2 1 3 1/1 2/1 3/1 2/1 2 1/1 1/1 3 5/1 7/1 9/1 1",
    "csr 64 axpy 2 3 3 0 0 3 3 0 2 1 3 1/1 2/1 3/1 -1/1 3 1/1 1/1 1/1 2 5/1 7/1 1",
    "csr 64 axpy 2 2 3 0 1 2 2 0 1 2 1/1 1/1 1/1152921504606846976 2 3/1 3/1 2 1/1 1/1 0",
    "csr 64 axpyT 2 2 3 0 1 2 2 0 1 2 1/1 1/1 1/4503599627370496 2 3/1 3/1 2 1/1 1/1 0",
    "csrsb 64 2 axpy 2 3 3 0 2 3 3 0 2 1 3 1/1 2/1 3/1 2/1 6 1/1 1/1 1/1 1/1 1/1 1/1 4 5/1 7/1 1/1 1/1 1",
    "cscr 64 apply 4 3 3 0 2 3 3 0 2 1 3 1/1 2/1 3/1 2 1 3 1/1 3 1/1 1/1 1/1 0 0",
    "cscr 32 axpy 4 3 3 0 2 3 3 0 2 1 3 1/1 2/1 3/1 2 1 3 3/1 3 1/1 1/1 1/1 4 1/1 2/1 3/1 4/1 1",
    "cscr 32 axpyT 4 3 3 0 2 3 3 0 2 1 3 1/1 2/1 3/1 2 1 3 3/1 4 1/1 1/1 1/1 1/1 3 1/1 2/1 3/1 0",
    "bcsr 64 2 3 0 apply 1 1 2 0 1 1 0 6 1/1 2/1 3/1 4/1 5/1 6/1 1/1 3 1/1 1/1 1/1 0 0",
    "bcsr 64 2 3 3 axpyT 1 1 2 0 1 1 0 6 1/1 2/1 3/1 4/1 5/1 6/1 2/1 2 1/1 1/1 3 1/1 1/1 1/1 0",
    "bcsr 64 2 3 4 axpy 1 1 2 0 1 1 0 6 1/1 2/1 3/1 4/1 5/1 6/1 0/1 3 1/1 1/1 1/1 2 1/1 1/1 0",
    "bcsr 32 3 2 1 applyT 2 1 3 0 1 2 2 0 0 12 1/1 2/1 3/1 4/1 5/1 6/1 7/1 8/1 9/1 1/2 1/3 1/4 1/1 6 1/1 0/1 0/1 0/1 1/1 0/1 0 0",
    "banded 64 apply 2 2 1 1 2 5/1 6/1 1/1 2 1/1 1/1 0 0",
    "banded 64 apply 3 0 2 0 1 6 1/1 2/1 3/1 4/1 5/1 6/1 1/1 0 0 0",
    "banded 32 axpy 1 1 1 0 1 7/1 -1/1 1 2/1 1 3/1 1",
    "banded 32 axpy 2 5 3 0 2 5 6 1/1 2/1 3/1 4/1 5/1 6/1 2/1 5 1/1 2/1 3/1 4/1 5/1 2 1/1 1/1 0",
    "banded 32 axpy 5 2 3 0 2 5 15 1/1 2/1 3/1 4/1 5/1 6/1 7/1 8/1 9/1 1/2 1/3 1/4 1/5 1/6 1/7 2/1 2 1/1 2/1 5 1/1 1/1 1/1 1/1 1/1 0",
    "banded 64 applyT 2 2 1 1 2 5/1 6/1 1/1 2 1/1 1/1 0 0",
    "banded 64 axpyT 2 2 1 1 2 5/1 6/1 0/1 2 1/1 1/1 2 3/1 4/1 0",
    "dense apply 1 1 1 3/1 1/1 1 2/1 0 0",
    "dense axpyT 2 3 6 1/1 2/1 3/1 4/1 5/1 6/1 -1/1 2 1/1 1/1 3 1/2 1/3 1/4 1",
    "dense axpy 2 3 6 1/1 2/1 3/1 4/1 5/1 6/1 1/1152921504606846976 3 1/1 1/1 1/1 2 1/2 1/3 0",
]


# ---------------------------------------------------------------------------------------------
# independent oracle: dense Fraction meaning of the stored arrays, product by the textbook formula
# ---------------------------------------------------------------------------------------------

class Tk:
    def __init__(self, s):
        self.t = s.split()
        self.p = 0

    def tok(self):
        self.p += 1
        return self.t[self.p - 1]

    def nat(self):
        return int(self.tok())

    def nats(self):
        return [self.nat() for _ in range(self.nat())]

    def frac(self):
        return vlib.parse_frac(self.tok())

    def fracs(self):
        return [self.frac() for _ in range(self.nat())]


class Case:
    """parsed case + the dense matrix (dict (i, j) -> Fraction) the container represents"""

    def __init__(self, line):
        c = Tk(line)
        self.fmt = c.tok()
        if self.fmt == "meta":
            self._init_meta(c)
            return
        self.it = c.nat() if self.fmt != "dense" else 0
        self.bs = c.nat() if self.fmt == "csrsb" else 1
        self.bh = self.bw = 1
        self.vk = 0
        if self.fmt == "bcsr":
            self.bh, self.bw, self.vk = c.nat(), c.nat(), c.nat()
        self.op = c.tok()
        self.rows, self.cols = c.nat(), c.nat()
        self.flags = set()
        m = {}

        self.mabs = {}      # sum of |stored value| per position (differs from |m| only for duplicate entries)

        def add(i, j, v):
            if (i, j) in m:
                self.flags.add("dups")
            m[(i, j)] = m.get((i, j), Fraction(0)) + v
            self.mabs[(i, j)] = self.mabs.get((i, j), Fraction(0)) + abs(v)

        self.nnz = 0
        if self.fmt in ("csr", "csrsb", "cscr", "bcsr"):
            rp, ci, val = c.nats(), c.nats(), c.fracs()
            rn = c.nats() if self.fmt == "cscr" else list(range(self.rows))
            self.nnz = len(val)
            self.stored_rows = len(rn)
            bh, bw = self.bh, self.bw
            for s, row in enumerate(rn):
                cs = ci[rp[s]:rp[s + 1]]
                if cs != sorted(cs):
                    self.flags.add("unsorted")
                for k in range(rp[s], rp[s + 1]):
                    for h in range(bh):
                        for w in range(bw):
                            add(row * bh + h, ci[k] * bw + w, val[k * bh * bw + h * bw + w])
            self.empty_rows = self.rows - len({row for s, row in enumerate(rn) if rp[s + 1] > rp[s]})
            self.prow, self.pcol = self.rows * bh, self.cols * bw
        elif self.fmt == "banded":
            off, val = c.nats(), c.fracs()
            self.noo = len(off)
            for k, o in enumerate(off):
                for i in range(self.rows):
                    j = i + o + 1 - self.rows
                    if 0 <= j < self.cols:
                        add(i, j, val[k * self.rows + i])
                        self.nnz += 1
            self.empty_rows = self.rows - len({i for (i, j) in m})
            self.prow, self.pcol = self.rows, self.cols
        elif self.fmt == "dense":
            val = c.fracs()
            for i in range(self.rows):
                for j in range(self.cols):
                    add(i, j, val[i * self.cols + j])
            self.nnz = len(val)
            self.empty_rows = 0
            self.prow, self.pcol = self.rows, self.cols
        else:
            raise ValueError("format " + self.fmt)
        self.m = m
        self.alpha = c.frac()
        self.x, self.y = c.fracs(), c.fracs()
        self.alias = c.nat()
        self.tr = self.op.endswith("T")
        self.axpy = self.op.startswith("axpy")

    def _init_meta(self, c):
        """meta <cppType> OP <tree> alpha x y alias: the block matrix of the leaves (independent of the Lean model)"""
        self.ty = c.tok()
        self.op = c.tok()
        self.flat = self.op.endswith("F")
        if self.flat:
            self.op = self.op[:-1]
        self.it, self.bs, self.bh, self.bw, self.vk = 64, 1, 1, 1, 0
        self.flags = set()
        self.leaves = 0
        self.depth = 0

        def tree(depth):
            """returns (rows, cols, entries dict)"""
            self.depth = max(self.depth, depth)
            t = c.tok()
            if t in ("R", "C", "D"):
                r1, c1, m1 = tree(depth + 1)
                r2, c2, m2 = tree(depth + 1)
                if t == "R":
                    assert r1 == r2, "row blocks with different row counts"
                    m1.update({(i, j + c1): v for (i, j), v in m2.items()})
                    return r1, c1 + c2, m1
                if t == "C":
                    assert c1 == c2, "column blocks with different column counts"
                    m1.update({(i + r1, j): v for (i, j), v in m2.items()})
                    return r1 + r2, c1, m1
                m1.update({(i + r1, j + c1): v for (i, j), v in m2.items()})
                return r1 + r2, c1 + c2, m1
            if t == "S":
                ra, ca, ma = tree(depth + 1)
                rb, cb, mb = tree(depth + 1)
                rd, cd, md = tree(depth + 1)
                assert ra == rb and ca == cd, "saddle point blocks do not fit"
                ma.update({(i, j + ca): v for (i, j), v in mb.items()})
                ma.update({(i + ra, j): v for (i, j), v in md.items()})
                return ra + rd, ca + cb, ma
            self.leaves += 1
            m = {}
            if t == "dense":
                rows, cols = c.nat(), c.nat()
                val = c.fracs()
                for i in range(rows):
                    for j in range(cols):
                        m[(i, j)] = val[i * cols + j]
                return rows, cols, m
            if t == "banded":
                rows, cols = c.nat(), c.nat()
                off, val = c.nats(), c.fracs()
                for k, o in enumerate(off):
                    for i in range(rows):
                        j = i + o + 1 - rows
                        if 0 <= j < cols:
                            m[(i, j)] = m.get((i, j), Fraction(0)) + val[k * rows + i]
                return rows, cols, m
            if t == "cscr":
                rows, cols = c.nat(), c.nat()
                rp, ci, val, rn = c.nats(), c.nats(), c.fracs(), c.nats()
                for s_, row in enumerate(rn):
                    for k in range(rp[s_], rp[s_ + 1]):
                        m[(row, ci[k])] = m.get((row, ci[k]), Fraction(0)) + val[k]
                return rows, cols, m
            bh = bw = 1
            if t == "bcsr":
                bh, bw = c.nat(), c.nat()
                self.bh, self.bw = max(self.bh, bh), max(self.bw, bw)
            elif t != "csr":
                raise ValueError("tree token " + t)
            rows, cols = c.nat(), c.nat()
            rp, ci, val = c.nats(), c.nats(), c.fracs()
            for row in range(rows):
                for k in range(rp[row], rp[row + 1]):
                    for h in range(bh):
                        for w in range(bw):
                            key = (row * bh + h, ci[k] * bw + w)
                            m[key] = m.get(key, Fraction(0)) + val[k * bh * bw + h * bw + w]
            return rows * bh, cols * bw, m

        self.prow, self.pcol, self.m = tree(0)
        self.rows, self.cols = self.prow, self.pcol
        self.nnz = len(self.m)
        self.empty_rows = self.prow - len({i for (i, j) in self.m})
        self.alpha = c.frac()
        self.x, self.y = c.fracs(), c.fracs()
        self.alias = c.nat()
        self.tr = self.op.endswith("T")
        self.axpy = self.op.startswith("axpy")

    def product(self):
        """(A x or A^T x, |A||x|) with blocked-vector semantics for csrsb (scalar entry times block)"""
        nr = (self.pcol if self.tr else self.prow) * self.bs
        p = [Fraction(0)] * nr
        pa = [Fraction(0)] * nr
        for (i, j), v in self.m.items():
            if self.tr:
                i, j = j, i
            for k in range(self.bs):
                p[i * self.bs + k] += v * self.x[j * self.bs + k]
                pa[i * self.bs + k] += abs(v * self.x[j * self.bs + k])
        return p, pa


def is_abnormal(out):
    return out.split(":")[0] in ("ABORT", "EXC", "TIMEOUT", "SIGNAL", "SANITIZER", "EXIT") or out.startswith("BAD-OP")


def oracle(case, out):
    try:
        c = Case(case)
    except Exception as e:  # malformed case line: generator bug
        return "unparsable case (%s)" % e
    try:
        if c.op == "dense":
            if is_abnormal(out):
                return "operator() sweep ended with " + out
            o = Tk(out)
            if o.tok() != "D" or o.nat() != c.prow or o.nat() != c.pcol:
                return "dense dump has wrong header"
            for i in range(c.prow):
                for j in range(c.pcol):
                    v = o.frac()
                    if v != c.m.get((i, j), Fraction(0)):
                        return "operator()(%d,%d) = %s, stored arrays say %s" % (i, j, v, c.m.get((i, j), Fraction(0)))
            return None
        if c.fmt == "banded" and c.tr and out == "ABORT:not-offered" and c.pcol > 0:
            return None     # the banded format does not offer the transposed product ("not implemented")
        if is_abnormal(out):
            return "%s %s on a valid input ended with %s" % (c.fmt, c.op, out)
        o = Tk(out)
        if o.tok() != "R":
            return "unparsable output"
        r = o.fracs()
        flag = o.tok()
        p, pa = c.product()
        if len(r) != len(p):
            return "result has %d entries, expected %d" % (len(r), len(p))
        a = c.alpha if c.axpy else Fraction(1)
        small = c.axpy and 0 < abs(a) < EPS
        for i in range(len(p)):
            exact = (c.y[i] if c.axpy else 0) + a * p[i]
            if r[i] == exact:
                continue
            # only an |alpha| below the unit roundoff may be dropped: that stays inside eps * (|A||x| + |y|)
            if small and abs(r[i] - exact) <= EPS * (pa[i] + abs(c.y[i])):
                continue
            return "r[%d] = %s, exact %s%s" % (i, r[i], exact, " (outside the rounding envelope)" if small else "")
        if flag != "U1":
            return "an input operand (x, y or a matrix array) was modified"
        return None
    except (IndexError, ValueError, AssertionError, ZeroDivisionError) as e:
        return "unparsable implementation output (%s): %s" % (e, out[:200])


U53 = Fraction(1, 2 ** 53)


def f64_supported(case):
    t = case.split()
    if t[0] in ("csr", "cscr", "banded"):
        return t[2] != "dense"
    if t[0] == "dense":
        return t[1] != "dense"
    if t[0] == "bcsr":
        return t[5] != "dense"          # all six block shapes
    return False


def _gamma(n, u):
    """gamma_n = n u / (1 - n u), the constant of theorem C01.fl_rowloop_gamma"""
    return n * u / (1 - n * u)


def oracle_fl(case, out):
    """T3: the same operation at double ("f64") or float ("f32") with r pre-filled with NaN; judged against the exact
    product under the a-priori bound  gamma_{n_i + 8} (|alpha| (|A||x|)_i + |y_i|)  with the gamma of the Lean theorems
    (n_i stored entries of row/column i; +8: conversion of the rational inputs, alpha, the y path, b/a trick)"""
    u = Fraction(1, 2 ** 53) if case.startswith("f64") else Fraction(1, 2 ** 24)
    try:
        c = Case(case[4:])
    except Exception as e:
        return "unparsable case (%s)" % e
    try:
        if c.fmt == "banded" and c.tr and out.startswith("ABORT") and c.pcol > 0:
            return None
        if is_abnormal(out):
            return "%s %s at %s ended with %s" % (c.fmt, c.op, case[:3], out)
        t = out.split()
        if t[0] != "F" or int(t[1]) != len(t) - 2:
            return "unparsable output"
        p, pa = c.product()
        # rounding bound with the stored entries' magnitudes (duplicates do not cancel in floating point)
        pa = [Fraction(0)] * len(p)
        for (i, j), v in c.mabs.items():
            if c.tr:
                i, j = j, i
            pa[i] += v * abs(c.x[j])
        if len(p) != len(t) - 2:
            return "result has %d entries, expected %d" % (len(t) - 2, len(p))
        cnt = [0] * len(p)
        for (i, j) in c.m:
            cnt[j if c.tr else i] += 2 if "dups" in c.flags else 1
        a = c.alpha if c.axpy else Fraction(1)
        for i in range(len(p)):
            if t[2 + i] in ("nan", "inf", "-inf", "-nan"):
                return "r[%d] = %s: stale (NaN pre-filled) data of r leaked into the result" % (i, t[2 + i])
            v = Fraction(float.fromhex(t[2 + i]))
            yi = c.y[i] if c.axpy else Fraction(0)
            exact = yi + a * p[i]
            bound = _gamma(cnt[i] + 8, u) * (abs(a) * pa[i] + abs(yi))
            if c.axpy and abs(a) < 2 * u:      # early-out below Math::eps<DT_>() = 2u
                bound += 2 * u * (pa[i] + abs(yi))
            if abs(v - exact) > bound:
                return "r[%d] = %s, exact %s, bound %s" % (i, float(v), float(exact), float(bound))
        return None
    except (IndexError, ValueError, AssertionError, ZeroDivisionError) as e:
        return "unparsable implementation output (%s): %s" % (e, out[:200])


def _flags(case):
    c = Case(case)
    f = set(c.flags)
    if c.nnz >= 1:
        f.add("nnz>0")
    if c.empty_rows > 0 and c.rows > 0:
        f.add("emptyrow")
    if c.prow != c.pcol:
        f.add("rect")
    if c.axpy and c.alpha not in (0, 1):
        f.add("alpha-general")
    if c.axpy and c.alias:
        f.add("alias")
    if c.tr:
        f.add("transposed")
    if c.bh * c.bw > 1 or c.bs > 1:
        f.add("block>1")
    return c, f


def nontrivial(case):
    try:
        c, f = _flags(case)
    except Exception:
        return False
    if c.op == "dense":
        return c.nnz >= 1
    return "nnz>0" in f and bool(f & {"emptyrow", "rect", "alpha-general", "alias", "transposed", "block>1"})


def describe(case):
    try:
        c, f = _flags(case)
    except Exception:
        return ["unparsable"]
    keys = ["fmt:" + c.fmt, "op:%s/%s" % (c.fmt, c.op)]
    if c.fmt == "meta":
        keys.append("meta-type:" + c.ty)
        keys.append("meta-depth:%d" % c.depth)
        keys.append("meta-operands:" + ("flat DenseVector" if c.flat else "Tuple/PowerVector"))
    if c.fmt not in ("dense", "meta"):
        keys.append("it:%d" % c.it)
    if c.fmt == "bcsr":
        keys.append("block:%dx%d" % (c.bh, c.bw))
        keys.append("bcsr-vk:%d" % c.vk)
    if c.fmt == "csrsb":
        keys.append("csrsb-bs:%d" % c.bs)
    if c.fmt == "banded":
        keys.append("bands:%s" % ("1" if c.noo == 1 else "all" if c.noo == c.rows + c.cols - 1 else "2+"))
    keys.append("shape:" + ("0-dim" if c.prow == 0 or c.pcol == 0 else "1x1" if c.prow == c.pcol == 1 else
                            "square" if c.prow == c.pcol else "wide" if c.prow < c.pcol else "tall"))
    keys.append("size:" + ("<=3" if max(c.prow, c.pcol) <= 3 else "<=13" if max(c.prow, c.pcol) <= 13 else ">13"))
    if c.nnz == 0:
        keys.append("pattern:no-entries")
    if c.axpy:
        a = abs(c.alpha)
        keys.append("alpha:" + ("0" if a == 0 else "+-1" if a == 1 else "tiny(<eps)" if a < EPS else
                                "eps" if a == EPS else "general"))
        keys.append("alias:%d" % c.alias)
    for k in sorted(f):
        keys.append("flag:" + k)
    return keys


def describe_boundary(case):
    """exact size histogram of the boundary stream"""
    try:
        c = Case(case)
    except Exception:
        return ["unparsable"]
    keys = ["fmt:" + c.fmt, "op:%s/%s" % (c.fmt, c.op), "rows:%d" % c.prow, "cols:%d" % c.pcol, "it:%d" % c.it]
    if c.m:
        keys.append("max-row-with-entry:%d" % max(i for (i, j) in c.m))
        keys.append("max-col-with-entry:%d" % max(j for (i, j) in c.m))
    return keys


def canon(out):
    # "not implemented" (the format does not offer the operation) is a different outcome than an assertion abort
    if out.startswith("ABORT:not_implemented") or out.startswith("ABORT:not-offered"):
        return "ABORT:not-offered"
    return "ABORT" if out.startswith("ABORT") else out


# known-edge stream: the exact failing inputs of the open finding F8, judged by the same oracle on every run
EDGE = {}
EDGE["meta pdiag2_csr applyTF D csr 2 0 3 0 0 0 0 0 csr 2 2 3 0 0 0 0 0 1/1 4 2/7 -3/1 -5/3 0/1 0 0"] = "c01-edge:F8"
EDGE["meta saddle_csr applyF S csr 2 2 3 0 2 2 2 1 0 2 -4/1 3/7 csr 2 0 3 0 0 0 0 0 csr 1 2 2 0 2 2 0 1 2 -9/7 4/3 "
     "1/1 2 -3/1 -1/1 0 0"] = "c01-edge:F8"


def edge_signature(case, out, why):
    return EDGE.get(case, "c01-edge:?")


def edge_model_filter(case):
    # the Lean model does not contain the size > 0 assertion of the range constructor (F8);
    # it does not model the std::out_of_range of F2
    return False


def signature(case, out, why):
    t = case.split()
    return "%s:%s" % (t[0], (why or "")[:40])


def main(argv):
    args = vlib.std_args(argv)
    t0 = time.time()
    rng = random.Random(args.seed * 1000003 + 1)
    lean = None if args.no_lean else vlib.lean_check(PROP, leanchecker=(args.tier == "thorough"))
    binary, err = vlib.build_harness("c01", os.path.join(vlib.VERIF, "harness", "c01", "main.cpp"),
                                      extra_srcs=[os.path.join(vlib.VERIF, "harness", "c01", "meta.cpp"),
                                                  os.path.join(vlib.VERIF, "harness", "c01", "f64.cpp")])
    if binary is None:
        v = [{"property": PROP, "kind": "harness-build-failure", "detail": err, "failing_input": None,
              "broken": "harness c01 does not compile against the current tree"}]
        return vlib.finish(PROP, args.tier, args.seed, t0, lean, [], [], v, [])
    if args.replay:
        cases = [json.load(open(args.replay))["input"]]
    elif args.tier == "quick":
        cases = CORPUS + gen_cases(rng, 8000, [0, 1, 1, 2, 2, 3, 3, 5, 8, 13])
    else:
        cases = CORPUS + gen_cases(rng, 150000, [0, 1, 1, 2, 2, 3, 3, 5, 8, 13]) \
            + gen_cases(rng, 20000, [1, 2, 3, 5, 8, 13, 21, 34, 55]) \
            + gen_cases(rng, 600, [1, 3, 34, 89, 144, 200])
    edge_cases = list(EDGE.keys())
    if args.replay:     # a replayed edge case is judged in its own stream (signature -> KNOWN-FINDING), others in "apply"
        edge_cases = [c for c in cases if c in EDGE]
        cases = [c for c in cases if c not in EDGE]
    st_edge = vlib.Stream("known-edge", edge_cases, [binary], vlib.driver_cmd(PROP),
                          oracle=oracle, describe=describe, signature=edge_signature, canon=canon,
                          model_filter=edge_model_filter)
    st = vlib.Stream("apply", cases, [binary], vlib.driver_cmd(PROP), oracle=oracle, nontrivial=nontrivial,
                     describe=describe, signature=signature, canon=canon)
    bcases = [] if args.replay else gen_boundary_cases(rng, BOUNDARY_QUICK, False)
    if args.tier == "thorough" and not args.replay:
        bcases += gen_boundary_cases(rng, BOUNDARY_THOROUGH, True)
    st_bound = vlib.Stream("boundary-sizes", bcases, [binary], vlib.driver_cmd(PROP), oracle=oracle, nontrivial=nontrivial,
                           describe=describe_boundary, signature=signature, canon=canon)
    fl_src = [c for c in cases if f64_supported(c)][: (2500 if args.tier == "quick" else 40000)]
    st_f64 = vlib.Stream("f64-nan-prefill", ["f64 " + c for c in fl_src], [binary], None, oracle=oracle_fl,
                         describe=lambda c: describe(c[4:]), signature=signature)
    st_f32 = vlib.Stream("f32-nan-prefill", ["f32 " + c for c in fl_src[: len(fl_src) // 2]], [binary], None,
                         oracle=oracle_fl, describe=lambda c: describe(c[4:]), signature=signature)
    stats_rule = ("meta-matrices (13 C++ types of depth <= 3: PowerRow/Col/Diag/Full, TupleMatrix, SaddlePoint over CSR / BCSR / "
                  "dense leaves with Tuple/PowerVector operands); f64-nan-prefill: leaf formats at double, r pre-filled with "
                  "NaN, a-priori rounding bound; "
                  "CSR (scalar and blocked vectors), CSCR, BCSR (6 block shapes x 5 vector-kind overloads), banded "
                  "(arbitrary offset sets, rectangular, garbage in the padding entries), dense; apply / axpy and their "
                  "transposed forms, 32/64-bit indices, r aliasing y, alpha in {0, +-1, below eps, eps, general}; "
                  "non-trivial = at least one stored entry and one of {empty row, rectangular, alpha not in {0,1}, "
                  "r aliases y, transposed, block > 1}")
    rc = vlib.run_pipeline(PROP, args.tier, args.seed, lean, [st, st_edge, st_bound, st_f64, st_f32], t0, assumptions=[
        "Index / IT_ (uint32, uint64) modelled as unbounded Nat; stream boundary-sizes crosses 2^7, 2^8, 1000 (thorough: 2^15, "
        "2^16) in dimensions, index values and counts with the interesting entries at the high end; 2^32 is covered by the "
        "theorems C01.index32_*",
        "exact rational arithmetic at Q in the main stream; stream f64-nan-prefill re-runs the leaf formats at double with "
        "NaN-pre-filled r under the a-priori bound gamma_{n+8}(|alpha||A||x|+|y|) (gamma of C01.fl_rowloop_gamma), stream "
        "f32-nan-prefill the same at float; meta-matrices and blocked vectors are not re-run in floating point",
        "flat meta-matrix overloads with an empty block (open finding F8) are not generated randomly; their exact failing "
        "inputs are executed and judged in stream known-edge (KNOWN_FINDINGS c01-edge:F8)"],
        extra_cov={"rule": stats_rule})
    return rc
