"""C10 - refined meshes are conforming and every mesh part follows its parent entities.

pipeline: (A) translate/refine_tables.py regenerates lean/FeatModel/Gen/RefineTables.lean from the repository under
test, (B) Lean build + audit, (C) harness build, (D) correspondence model <-> real StandardRefinery / RootMeshNode,
(E) independent oracle below (sets, fractions; its own transcription of the local-face tables of the FEAT manual).
"""
import glob
import itertools
import json
import os
import random
import re
import sys
import time
from fractions import Fraction
from math import gcd

import vlib

sys.path.insert(0, os.path.join(vlib.VERIF, "translate"))
import refine_tables  # noqa: E402

PROP = "C10"

# ---------------------------------------------------------------------------------------------
# reference-cell conventions (independent transcription; FIM[kind][c][f] = vertices of local f-face k of a c-cell)
# ---------------------------------------------------------------------------------------------
S, H = "s", "h"
FIM = {
    S: {1: {}, 2: {1: [(1, 2), (2, 0), (0, 1)]},
        3: {1: [(0, 1), (0, 2), (0, 3), (1, 2), (1, 3), (2, 3)], 2: [(1, 2, 3), (0, 2, 3), (0, 1, 3), (0, 1, 2)]}},
    H: {1: {}, 2: {1: [(0, 1), (2, 3), (0, 2), (1, 3)]},
        3: {1: [(0, 1), (2, 3), (4, 5), (6, 7), (0, 2), (1, 3), (4, 6), (5, 7), (0, 4), (1, 5), (2, 6), (3, 7)],
            2: [(0, 1, 2, 3), (4, 5, 6, 7), (0, 1, 4, 5), (2, 3, 6, 7), (0, 2, 4, 6), (1, 3, 5, 7)]}},
}


def nverts(kind, c):
    return 1 if c == 0 else (c + 1 if kind == S else 2 ** c)


def nfaces(kind, c, f):
    if f == 0:
        return nverts(kind, c)
    return len(FIM[kind][c][f])


def ref_count(kind, s, c):
    """number of c-dimensional entities created inside one s-dimensional entity by 2-level refinement
    (FEAT manual: edge -> 1 vertex, 2 edges; tria -> 0,3,4; quad -> 1,4,4; tetra -> 1,6,16,12; hexa -> 1,6,12,8)"""
    tab = {S: {0: [1], 1: [1, 2], 2: [0, 3, 4], 3: [1, 6, 16, 12]},
           H: {0: [1], 1: [1, 2], 2: [1, 4, 4], 3: [1, 6, 12, 8]}}
    return tab[kind][s][c] if c <= s else 0


def symmetries(kind, c):
    """all vertex permutations p (new local j <- old local p[j]) that map the reference c-cell onto itself"""
    if c == 0:
        return [(0,)]
    if kind == S:
        return list(itertools.permutations(range(c + 1)))
    res = []
    for axes in itertools.permutations(range(c)):
        for flips in itertools.product((0, 1), repeat=c):
            p = []
            for j in range(2 ** c):
                bits = [(j >> a) & 1 for a in range(c)]
                nb = [bits[axes[a]] ^ flips[a] for a in range(c)]
                p.append(sum(b << a for a, b in enumerate(nb)))
            res.append(tuple(p))
    return res


SYMS = {(k, c): symmetries(k, c) for k in (S, H) for c in (0, 1, 2, 3)}


def orient_code(kind, cd, src, trg):
    """position-based description of CongruencySampler codes (FEAT doc pictures): returns (a, b) = positions of
    src[0], src[1] in trg; used only for statistics"""
    try:
        return (trg.index(src[0]), trg.index(src[1]))
    except ValueError:
        return None


# ---------------------------------------------------------------------------------------------
# mesh data structure of the generator / oracle
# ---------------------------------------------------------------------------------------------

class Mesh:
    def __init__(self, kind, dim):
        self.kind, self.dim = kind, dim
        self.verts = []            # list of tuples of Fraction
        self.idx = {}              # (c, f) -> list of tuples
        self.nums = []

    def n(self, d):
        return self.nums[d]


def build_topology(kind, dim, verts, cells, rng, given=None, scramble=True):
    """cells: list of vertex tuples (valid local ordering).  Builds every index set; sub-entities get a random
    numbering and a random orientation (any element of their symmetry group) when `scramble`."""
    m = Mesh(kind, dim)
    m.verts = [tuple(v) for v in verts]
    ents = {0: None, dim: [tuple(c) for c in cells]}
    for f in range(1, dim):
        if given and f in given:
            lst = [tuple(e) for e in given[f]]
        else:
            seen, lst = {}, []
            for c in cells:
                for loc in FIM[kind][dim][f]:
                    t = tuple(c[j] for j in loc)
                    key = frozenset(t)
                    if key not in seen:
                        seen[key] = len(lst)
                        lst.append(t)
            if scramble:
                lst = [tuple(t[j] for j in rng.choice(SYMS[(kind, f)])) for t in lst]
                rng.shuffle(lst)
        ents[f] = lst
    lookup = {f: {frozenset(t): i for i, t in enumerate(ents[f])} for f in range(1, dim)}
    m.nums = [len(verts)] + [len(ents[f]) for f in range(1, dim + 1)]
    for c in range(1, dim + 1):
        m.idx[(c, 0)] = list(ents[c])
        for f in range(1, c):
            m.idx[(c, f)] = [tuple(lookup[f][frozenset(t[j] for j in loc)] for loc in FIM[kind][c][f]) for t in ents[c]]
    return m


def scramble_cells(kind, dim, verts, cells, rng, reorient=True, renumber=True):
    cells = [tuple(c) for c in cells]
    if reorient:
        cells = [tuple(c[j] for j in rng.choice(SYMS[(kind, dim)])) for c in cells]
    if renumber:
        rng.shuffle(cells)
        perm = list(range(len(verts)))
        rng.shuffle(perm)          # old vertex v gets new number perm[v]
        nv = [None] * len(verts)
        for v, p in enumerate(perm):
            nv[p] = verts[v]
        verts = nv
        cells = [tuple(perm[v] for v in c) for c in cells]
    return verts, cells


# ---- base meshes ----

def grid_mesh(kind, dim, shape, rng, holes=0.0, perturb=True):
    """structured grid of hypercubes (optionally with cells removed), or its Kuhn / diagonal simplicial split"""
    dims = list(shape) + [0] * (3 - len(shape))
    def vid(i, j, k):
        return (k * (dims[1] + 1) + j) * (dims[0] + 1) + i
    A = [[Fraction(rng.randint(-3, 3), rng.choice((1, 2))) for _ in range(dim)] for _ in range(dim)]
    for d in range(dim):
        A[d][d] = Fraction(rng.choice((2, 3, 4)))  # diagonally dominant enough to stay regular
        for e in range(dim):
            if e != d:
                A[d][e] = Fraction(rng.randint(-1, 1), 2)
    pts = {}
    for k in range(dims[2] + 1 if dim > 2 else 1):
        for j in range(dims[1] + 1 if dim > 1 else 1):
            for i in range(dims[0] + 1):
                p = [Fraction(i), Fraction(j), Fraction(k)][:dim]
                if perturb:
                    p = [x + Fraction(rng.randint(-2, 2), 16) for x in p]
                q = tuple(sum(A[r][c] * p[c] for c in range(dim)) for r in range(dim))
                pts[vid(i, j, k)] = q
    cubes = []
    for k in range(dims[2] if dim > 2 else 1):
        for j in range(dims[1] if dim > 1 else 1):
            for i in range(dims[0]):
                if holes and rng.random() < holes:
                    continue
                c = []
                for b in range(2 ** dim):
                    c.append(vid(i + (b & 1), j + ((b >> 1) & 1), k + ((b >> 2) & 1)))
                cubes.append(tuple(c))
    if not cubes:
        cubes = [tuple(vid((b & 1), ((b >> 1) & 1), ((b >> 2) & 1)) for b in range(2 ** dim))]
    if kind == H or dim == 1:
        cells = cubes
    elif dim == 2:
        cells = []
        for c in cubes:
            if rng.random() < 0.5:
                cells += [(c[0], c[1], c[3]), (c[0], c[3], c[2])]
            else:
                cells += [(c[0], c[1], c[2]), (c[1], c[3], c[2])]
    else:
        cells = []
        for c in cubes:   # Kuhn triangulation: one tetrahedron per permutation of the axes
            for perm in itertools.permutations(range(3)):
                b, t = 0, [c[0]]
                for a in perm:
                    b |= 1 << a
                    t.append(c[b])
                cells.append(tuple(t))
    used = sorted({v for c in cells for v in c})
    ren = {v: i for i, v in enumerate(used)}
    return [pts[v] for v in used], [tuple(ren[v] for v in c) for c in cells]


def fan_mesh(kind, rng):
    """2-D disc around one interior vertex of valence n (irregular vertices 3, 5, 6, ...)"""
    n = rng.choice((3, 4, 5, 6, 7))
    # rational points on a 'circle': use a convex polygon with 2n rational corners
    import math
    ring = []
    for k in range(2 * n):
        ang = 2 * math.pi * k / (2 * n)
        r = 4 if k % 2 == 0 else 5
        ring.append((Fraction(round(r * math.cos(ang) * 8), 8), Fraction(round(r * math.sin(ang) * 8), 8)))
    verts = [(Fraction(0), Fraction(0))] + ring
    cells = []
    if kind == S:
        m = 2 * n
        for k in range(m):
            cells.append((0, 1 + k, 1 + (k + 1) % m))
    else:
        for k in range(n):
            s0, c0, s1 = 1 + 2 * k, 1 + 2 * k + 1, 1 + (2 * k + 2) % (2 * n)
            cells.append((0, s0, s1, c0))
    return verts, cells


MESH_FILES = None
MESH_FILES_REJECTED = []   # shipped files that are not conforming meshes themselves (reported in the evidence)


def parse_mesh_file(path):
    """minimal reader of FEAT mesh files (root mesh + mesh parts with their mappings/topologies)"""
    txt = open(path).read()
    m = re.search(r'<Mesh\s+type="conformal:(simplex|hypercube):(\d):(\d)"\s+size="([^"]*)"', txt)
    if not m or m.group(2) != m.group(3):
        return None
    kind, dim = (S if m.group(1) == "simplex" else H), int(m.group(2))
    body = txt[m.end():txt.index("</Mesh>")]
    vs = re.search(r"<Vertices>(.*?)</Vertices>", body, re.S).group(1)
    verts = [tuple(Fraction(x) for x in line.split()) for line in vs.strip().split("\n") if line.strip()]
    topo = {}
    for t in re.finditer(r'<Topology dim="(\d)">(.*?)</Topology>', body, re.S):
        topo[int(t.group(1))] = [tuple(int(x) for x in line.split()) for line in t.group(2).strip().split("\n") if line.strip()]
    if dim not in topo or any(f not in topo for f in range(1, dim)):
        return None
    parts = []
    for p in re.finditer(r'<MeshPart\s([^>]*)>(.*?)</MeshPart>', txt, re.S):
        attrs, pb = p.group(1), p.group(2)
        nm = re.search(r'name="([^"]*)"', attrs)
        if 'parent="root"' not in attrs or not nm:
            continue
        full = 'topology="full"' in attrs
        targets = [[] for _ in range(dim + 1)]
        for mp in re.finditer(r'<Mapping dim="(\d)">(.*?)</Mapping>', pb, re.S):
            targets[int(mp.group(1))] = [int(x) for x in mp.group(2).split()]
        ptopo = {}
        for t in re.finditer(r'<Topology dim="(\d)">(.*?)</Topology>', pb, re.S):
            ptopo[int(t.group(1))] = [tuple(int(x) for x in line.split()) for line in t.group(2).strip().split("\n") if line.strip()]
        parts.append({"name": nm.group(1), "targets": targets, "topo": ptopo if full else None})
    return {"kind": kind, "dim": dim, "verts": verts, "topo": topo, "parts": parts, "file": os.path.basename(path)}


def mesh_file_defect(mf):
    """a shipped file must list exactly the faces of its cells (no orphan / missing / duplicate entities)"""
    k, D = mf["kind"], mf["dim"]
    for d in range(1, D):
        der = set()
        for c in mf["topo"][D]:
            for lf in FIM[k][D][d]:
                der.add(frozenset(c[j] for j in lf))
        giv = [frozenset(t) for t in mf["topo"][d]]
        if len(set(giv)) != len(giv):
            return "duplicate %d-entities" % d
        if set(giv) != der:
            extra = [sorted(x) for x in set(giv) - der][:4]
            return "%d-entities %s are not faces of any cell (%d listed, %d derived)" % (d, extra, len(giv), len(der))
    return None


def mesh_files(max_cells):
    global MESH_FILES
    if MESH_FILES is None:
        MESH_FILES = []
        for p in sorted(glob.glob(os.path.join(vlib.REPO, "data", "meshes", "*.xml"))):
            if os.path.getsize(p) > 200000:
                continue
            try:
                mf = parse_mesh_file(p)
            except Exception:
                mf = None
            if mf:
                why = mesh_file_defect(mf)
                if why:
                    MESH_FILES_REJECTED.append("%s: %s" % (mf["file"], why))
                else:
                    MESH_FILES.append(mf)
    return [m for m in MESH_FILES if len(m["topo"][m["dim"]]) <= max_cells]


# ---- mesh parts ----

def closure(m, dim_sets):
    """add all sub-entities of the listed entities"""
    sets = [set(s) for s in dim_sets]
    for c in range(m.dim, 0, -1):
        for e in sets[c]:
            for f in range(c):
                if f == 0:
                    sets[0].update(m.idx[(c, 0)][e])
                else:
                    sets[f].update(m.idx[(c, f)][e])
    return sets


def boundary_facets(m):
    cnt = {}
    D = m.dim
    cells = m.idx[(D, D - 1)] if D > 1 else m.idx[(1, 0)]
    for t in cells:
        for l in t:
            cnt[l] = cnt.get(l, 0) + 1
    return sorted(l for l, c in cnt.items() if c == 1)


def part_topology(m, targets, symf):
    """part-local topology of a closed entity set; the part's k-th c-entity lists the parent entity's vertices
    re-ordered by the symmetry `symf(c, k)`; sub-index sets are derived with the part's own local-face convention"""
    D = m.dim
    loc = [{t: i for i, t in enumerate(tg)} for tg in targets]
    topo = {}
    for c in range(1, D + 1):
        tv = []
        for k, e in enumerate(targets[c]):
            pv = m.idx[(c, 0)][e]
            tv.append(tuple(loc[0][pv[j]] for j in symf(c, k)))
        topo[(c, 0)] = tv
    for c in range(2, D + 1):
        for f in range(1, c):
            vsets = {frozenset(t): i for i, t in enumerate(topo[(f, 0)])}
            topo[(c, f)] = [tuple(vsets[frozenset(t[j] for j in lf)] for lf in FIM[m.kind][c][f]) for t in topo[(c, 0)]]
    return topo


def part_orientation_sweep(rng):
    """deterministic: mesh parts WITH topology whose cells/faces/edges take every orientation relative to the parent
    entity they are attached to (8 quadrilateral, 6 triangle, 2 edge codes), on 2-D meshes (part cells) and on 3-D
    meshes (boundary faces)"""
    cases = []
    for kind in (S, H):
        for dim in (2, 3):
            verts, cells = grid_mesh(kind, dim, (2, 2, 1)[:dim], rng, perturb=False)
            m = build_topology(kind, dim, verts, cells, rng, scramble=True)
            sets = [set() for _ in range(dim + 1)]
            if dim == 2:
                sets[2] = set(range(m.n(2)))
            else:
                sets[2] = set(boundary_facets(m))
            targets = [sorted(x) for x in closure(m, sets)]
            for t in targets:
                rng.shuffle(t)
            syms2, syms1 = SYMS[(kind, 2)], SYMS[(kind, 1)]
            for s2 in range(len(syms2)):
                def symf(c, k, s2=s2):
                    if c == 2:
                        return syms2[(s2 + k) % len(syms2)]     # every part face walks through all symmetries
                    return syms1[(s2 + k) % 2]
                topo = part_topology(m, targets, symf)
                cases.append(fmt_case(m, 2 if dim == 2 else 1, [{"halo": s2 % 2 == 1, "targets": targets, "topo": topo}])
                             + " @part-orient-sweep")
    return cases


def small_scope_meshes(kind):
    """ALL facet-connected conforming 2-D meshes with <= 3 cells in which two cells share at most one edge, up to
    renaming of the vertices and reordering of the cells (the vertex ORDER inside every cell is significant): cell 0 is the
    reference cell; every further cell is glued to a free edge of an earlier cell with any of its local edges in
    either direction (= all 8 / 6 vertex orders of the new cell), optionally closing a second shared edge by
    identifying one more vertex (three cells around a vertex, two cells sharing two edges are rejected by
    `check_mesh`).  Yields lists of vertex tuples."""
    n = nverts(kind, 2)
    loc = FIM[kind][2][1]

    def free_edges(cells):
        cnt = {}
        for c in cells:
            for lf in loc:
                cnt.setdefault(frozenset(c[j] for j in lf), []).append(tuple(c[j] for j in lf))
        return [v[0] for v in cnt.values() if len(v) == 1]

    def valid(cells):
        nv = 1 + max(v for c in cells for v in c)
        if len({v for c in cells for v in c}) != nv:
            return False
        try:
            m = build_topology(kind, 2, [(Fraction(i), Fraction(0)) for i in range(nv)], cells, None, scramble=False)
        except KeyError:
            return False
        if check_mesh(m) is not None:
            return False
        # two cells share at most one edge (no 'pillow' configurations)
        for x in range(len(cells)):
            for y in range(x + 1, len(cells)):
                ex = {frozenset(cells[x][j] for j in lf) for lf in loc}
                ey = {frozenset(cells[y][j] for j in lf) for lf in loc}
                if len(ex & ey) > 1:
                    return False
        return True

    def canon_mesh(cells):
        best = None
        for order in itertools.permutations(range(len(cells))):
            ren, out = {}, []
            for ci in order:
                t = []
                for v in cells[ci]:
                    if v not in ren:
                        ren[v] = len(ren)
                    t.append(ren[v])
                out.append(tuple(t))
            out = tuple(out)
            if best is None or out < best:
                best = out
        return best

    def dedupe(ms):
        seen, res = set(), []
        for m in ms:
            c = canon_mesh(m)
            if c not in seen:
                seen.add(c)
                res.append([tuple(t) for t in c])
        return res

    def attach(cells):
        out = []
        nv = 1 + max(v for c in cells for v in c)
        for (a, b) in free_edges(cells):
            for lf in loc:
                for (p, q) in ((a, b), (b, a)):
                    new = [None] * n
                    new[lf[0]], new[lf[1]] = p, q
                    k = nv
                    fresh = []
                    for j in range(n):
                        if new[j] is None:
                            new[j] = k
                            fresh.append(j)
                            k += 1
                    out.append(cells + [tuple(new)])
                    # closing variants: identify one fresh vertex with an existing vertex
                    for j in fresh:
                        for v in range(nv):
                            if v in (p, q):
                                continue
                            cl = list(new)
                            cl[j] = v
                            ren = {}
                            for x in cl:           # keep vertex numbers contiguous
                                if x >= nv and x not in ren:
                                    ren[x] = nv + len(ren)
                            cl = tuple(ren.get(x, x) for x in cl)
                            cand = cells + [cl]
                            if valid(cand):
                                out.append(cand)
        return out

    one = [[tuple(range(n))]]
    two = dedupe([m for m in attach(one[0]) if valid(m)])
    three = dedupe([m for c in two for m in attach(c) if valid(m)])
    return one + two + three


def small_scope_cases(seed, tier="thorough"):
    """the exhaustive small-scope stream: every mesh of `small_scope_meshes`, refined twice; edges with a seeded
    random numbering/orientation, generic rational coordinates, the computed boundary as a mesh part"""
    cases = []
    for kind in (S, H):
        for k, cells in enumerate(small_scope_meshes(kind)):
            # quick tier: all triangle meshes, all quadrilateral meshes of <= 2 cells, every 8th 3-cell quadrilateral
            # mesh (the residue class rotates with the seed); thorough tier: everything
            if tier == "quick" and kind == H and len(cells) == 3 and (k + seed) % 8 != 0:
                continue
            rng = random.Random(seed * 1000003 + k * 7 + (1 if kind == H else 0))
            nv = 1 + max(v for c in cells for v in c)
            pts = set()
            while len(pts) < nv:
                pts.add((Fraction(rng.randint(-40, 40), rng.choice((1, 2, 4))), Fraction(rng.randint(-40, 40), rng.choice((1, 2, 4)))))
            verts = sorted(pts)
            rng.shuffle(verts)
            m = build_topology(kind, 2, verts, cells, rng, scramble=True)
            sets = [set() for _ in range(3)]
            sets[1] = set(boundary_facets(m))
            targets = [sorted(x) for x in closure(m, sets)]
            part = {"halo": False, "targets": targets, "topo": None}
            cases.append(fmt_case(m, 2, [part]) + " @small-scope:%s%d" % (kind, len(cells)))
    return cases


def boundary_size_cases(seed, tier):
    """sub-stream `boundary-sizes`: entity counts / indices just below, at and above 2^7, 2^8, 1000 (quick) and
    2^15, 2^16 (thorough), on cheap bar-shaped meshes (n x 1 (x 1) cells).  The interesting content sits at the HIGH
    end: the last cells are re-oriented, the highest-numbered edges/faces are reversed, and mesh parts (simple, with
    topology + attribute, halo, nested child) are attached to the highest indices."""
    rng = random.Random(seed * 7368787 + 11)
    cases = []

    def bar(kind, dim, n, depth):
        verts, cells = grid_mesh(kind, dim, (n, 1, 1)[:dim], rng, perturb=False)
        cells = [tuple(c) for c in cells]
        ncell = len(cells)
        # re-orient the last cells only (the low end stays in reference orientation)
        for i in range(max(0, ncell - 6), ncell):
            cells[i] = tuple(cells[i][j] for j in rng.choice(SYMS[(kind, dim)]))
        m = build_topology(kind, dim, verts, cells, rng, scramble=False)
        # reverse / re-orient the highest-numbered sub-entities and fix the sub-index sets
        for f in range(1, dim):
            ents = list(m.idx[(f, 0)])
            for i in range(max(0, len(ents) - 8), len(ents)):
                ents[i] = tuple(ents[i][j] for j in rng.choice(SYMS[(kind, f)]))
            m.idx[(f, 0)] = ents
        if dim == 1:
            ed = list(m.idx[(1, 0)])
            for i in range(max(0, len(ed) - 5), len(ed)):
                if rng.random() < 0.6:
                    ed[i] = (ed[i][1], ed[i][0])
            m.idx[(1, 0)] = ed
        for c in range(2, dim + 1):         # sub-index sets of entities are lookups by vertex set: unchanged
            for f in range(1, c):
                look = {frozenset(t): i for i, t in enumerate(m.idx[(f, 0)])}
                m.idx[(c, f)] = [tuple(look[frozenset(t[j] for j in lf)] for lf in FIM[kind][c][f]) for t in m.idx[(c, 0)]]
        # parts on the highest indices
        top = [list(range(max(0, m.n(d) - 3), m.n(d))) for d in range(dim + 1)]
        simple = {"halo": False, "targets": [list(reversed(t)) for t in top], "topo": None, "attr": None, "children": []}
        simple["children"] = [{"halo": False, "targets": [[len(t) - 1] for t in top], "topo": None, "attr": None, "children": []}]
        halo = {"halo": True, "targets": top, "topo": None, "attr": None, "children": []}
        sets = [set() for _ in range(dim + 1)]
        fd = dim - 1
        bf = boundary_facets(m)
        sets[fd] = set(bf[-3:])
        tt = [sorted(x) for x in (closure(m, sets) if fd > 0 else sets)]
        tp = {"halo": False, "targets": tt, "topo": part_topology(m, tt, lambda c, k: SYMS[(kind, c)][(k + 1) % len(SYMS[(kind, c)])]),
              "attr": [Fraction(i, 2) for i in range(len(tt[0]))], "children": []}
        cases.append(fmt_case(m, depth, [simple, halo, tp]) + " @boundary-sizes:%s%d:n%d" % (kind, dim, n))

    for n in (127, 128, 129, 255, 256, 257, 1000, 1001):
        bar(rng.choice((S, H)), 1, n, 2 if n < 300 else 1)
    for n in (127, 128, 129, 255, 256):
        bar(H, 2, n, 1)
        bar(S, 2, n, 1)
    for n in (127, 128, 129):
        bar(H, 3, n, 1)
        bar(S, 3, (n + 5) // 6, 1)        # 6 tetrahedra per brick: 127..129 cells are not reachable exactly; 22 bricks = 132
    if tier == "thorough":
        for n in (1000, 1001):
            bar(H, 2, n, 1)
            bar(S, 2, n // 2, 1)
        for n in (32767, 32768, 65535, 65536, 65537):
            bar(H, 1, n, 1)
    return cases


def gen_part(m, rng, allow_abort=False):
    D = m.dim
    style = rng.choice(["bnd", "bnd", "bndsub", "cells", "cells", "loose", "edges", "verts"])
    sets = [set() for _ in range(D + 1)]
    closed = True
    if style in ("bnd", "bndsub"):
        bf = boundary_facets(m)
        if style == "bndsub" and bf:
            bf = rng.sample(bf, rng.randint(1, len(bf)))
        sets[D - 1] = set(bf)
        sets = closure(m, sets)
    elif style == "cells":
        k = rng.randint(1, max(1, m.n(D) // 2))
        sets[D] = set(rng.sample(range(m.n(D)), k))
        sets = closure(m, sets)
    elif style == "loose":
        closed = False
        for d in range(D + 1):
            if rng.random() < 0.6 and m.n(d) > 0:
                sets[d] = set(rng.sample(range(m.n(d)), rng.randint(1, min(m.n(d), 6))))
    elif style == "edges":
        d = rng.randint(1, D) if D > 1 else 1
        sets[d] = set(rng.sample(range(m.n(d)), rng.randint(1, min(m.n(d), 5))))
        sets = closure(m, sets)
    else:
        sets[0] = set(rng.sample(range(m.n(0)), rng.randint(1, min(m.n(0), 6))))
    targets = [sorted(s) for s in sets]
    for t in targets:
        if rng.random() < 0.7:
            rng.shuffle(t)
    topo = None
    want_topo = closed and rng.random() < 0.5
    if want_topo and (D < 3 or not targets[3] or (allow_abort and rng.random() < 0.3)):
        # part-local topology; local cells are re-oriented by a random symmetry, sub-index sets derived
        # with the part's own local-face convention
        topo = part_topology(m, targets, lambda c, k: rng.choice(SYMS[(m.kind, c)]))
    part = {"halo": rng.random() < 0.3, "targets": targets, "topo": topo, "attr": None, "children": []}
    if topo is not None and rng.random() < 0.5:
        part["attr"] = [Fraction(rng.randint(-20, 20), rng.choice((1, 2, 3))) for _ in targets[0]]
    if not part["halo"] and rng.random() < 0.35:
        part["children"] = [gen_child_part(m, part, rng) for _ in range(rng.choice((1, 1, 2)))]
    return part


def part_as_mesh(m, part):
    """the parent part seen as a mesh: its own entities, and its topology if it has one"""
    pm = Mesh(m.kind, m.dim)
    pm.nums = [len(t) for t in part["targets"]]
    pm.idx = part["topo"] if part["topo"] is not None else {}
    return pm


def gen_child_part(m, parent, rng, dims=None):
    """a child mesh part of `parent` (targets = indices of the PARENT PART's entities)"""
    pm = part_as_mesh(m, parent)
    D = m.dim
    sets = [set() for _ in range(D + 1)]
    closed = False
    if parent["topo"] is not None and dims is None and rng.random() < 0.6:
        top = max(d for d in range(D + 1) if pm.nums[d] > 0)
        sets[top] = set(rng.sample(range(pm.nums[top]), rng.randint(1, min(pm.nums[top], 4))))
        sets = closure(pm, sets) if top > 0 else sets
        closed = True
    else:
        for d in (range(D + 1) if dims is None else dims):
            if pm.nums[d] > 0 and (dims is not None or rng.random() < 0.6):
                sets[d] = set(rng.sample(range(pm.nums[d]), rng.randint(1, min(pm.nums[d], 5))))
    targets = [sorted(x) for x in sets]
    for t in targets:
        rng.shuffle(t)
    topo = None
    if closed and rng.random() < 0.6 and not (D == 3 and targets[3]):
        topo = part_topology(pm, targets, lambda c, k: rng.choice(SYMS[(m.kind, c)]))
    attr = None
    if topo is not None and rng.random() < 0.5:
        attr = [Fraction(rng.randint(-20, 20), rng.choice((1, 2))) for _ in targets[0]]
    return {"halo": False, "targets": targets, "topo": topo, "attr": attr, "children": []}


def signature_sweep(rng):
    """deterministic: mesh parts of EVERY dimension signature (every non-empty subset of the dimensions 0..D that
    carry entities), without topology, refined TWICE through the mesh-node tree, each with a nested child part of the
    same signature; plus parts with topology and attributes for the closed signatures"""
    cases = []
    for kind in (S, H):
        for dim in (2, 3):
            verts, cells = grid_mesh(kind, dim, (2, 1, 1)[:dim], rng, perturb=False)
            m = build_topology(kind, dim, verts, cells, rng, scramble=True)
            for mask in range(1, 2 ** (dim + 1)):
                dims = [d for d in range(dim + 1) if (mask >> d) & 1]
                targets = [[] for _ in range(dim + 1)]
                for d in dims:
                    k = min(m.n(d), 3)
                    targets[d] = rng.sample(range(m.n(d)), k)
                    if m.n(d) - 1 not in targets[d]:
                        targets[d][0] = m.n(d) - 1            # the highest index is always attached
                part = {"halo": False, "targets": targets, "topo": None, "attr": None, "children": []}
                part["children"] = [gen_child_part(m, part, rng, dims=dims)]
                halo = {"halo": True, "targets": targets, "topo": None, "attr": None, "children": []}
                cases.append(fmt_case(m, 2, [part, halo]) + " @signature-sweep:" + "".join(map(str, dims)))
            for top in range(0, dim):          # closed signatures {0..top} with topology, attribute and child
                sets = [set() for _ in range(dim + 1)]
                sets[top] = set(rng.sample(range(m.n(top)), min(m.n(top), 3)))
                targets = [sorted(x) for x in (closure(m, sets) if top > 0 else sets)]
                topo = part_topology(m, targets, lambda c, k: SYMS[(kind, c)][k % len(SYMS[(kind, c)])])
                part = {"halo": False, "targets": targets, "topo": topo,
                        "attr": [Fraction(3 * i - 4, 2) for i in range(len(targets[0]))], "children": []}
                part["children"] = [gen_child_part(m, part, rng), gen_child_part(m, part, rng)]
                cases.append(fmt_case(m, 2, [part]) + " @signature-sweep:topo" + "".join(map(str, range(top + 1))))
    return cases


def file_part(m, fp, given_perm):
    """mesh part of a mesh file, mapped through the renumbering (given_perm[d][old] = new)"""
    D = m.dim
    targets = [[given_perm[d][t] for t in fp["targets"][d]] if d < len(fp["targets"]) else [] for d in range(D + 1)]
    topo = None
    if fp["topo"] is not None:
        topo = {}
        for c in range(1, D + 1):
            topo[(c, 0)] = list(fp["topo"].get(c, []))
            if len(topo[(c, 0)]) != len(targets[c]):
                return None
        for c in range(2, D + 1):
            for f in range(1, c):
                vsets = {frozenset(t): i for i, t in enumerate(topo[(f, 0)])}
                try:
                    topo[(c, f)] = [tuple(vsets[frozenset(t[j] for j in lf)] for lf in FIM[m.kind][c][f]) for t in topo[(c, 0)]]
                except KeyError:
                    return None
    return {"halo": False, "targets": targets, "topo": topo, "attr": None, "children": []}


# ---- case formatting ----

def fmt_mesh_idx(kind, D, idx):
    out = []
    for c in range(1, D + 1):
        for f in range(c):
            for t in idx[(c, f)]:
                out.extend(map(str, t))
    return out


def fmt_case(m, depth, parts):
    tok = ["refine", m.kind, str(m.dim), str(depth)] + [str(x) for x in m.nums]
    for v in m.verts:
        tok.extend(vlib.frac_str(Fraction(x)) for x in v)
    tok += fmt_mesh_idx(m.kind, m.dim, m.idx)
    tok.append(str(len(parts)))

    def one(p, children):
        tok.append("h" if p.get("halo") else "m")
        tok.append("1" if p["topo"] is not None else "0")
        for t in p["targets"]:
            tok.append(str(len(t)))
            tok.extend(map(str, t))
        if p["topo"] is not None:
            tok.extend(fmt_mesh_idx(m.kind, m.dim, p["topo"]))
        if p.get("attr") is not None:
            tok.append("1")
            tok.extend(vlib.frac_str(Fraction(x)) for x in p["attr"])
        else:
            tok.append("0")
        tok.append(str(len(children)))
        for ch in children:
            one(ch, [])
    for p in parts:
        one(p, [] if p.get("halo") else p.get("children", []))
    return " ".join(tok)


def gen_refine_case(rng, tier):
    big = tier == "thorough"
    r = rng.random()
    kind = rng.choice((S, H))
    given = None
    file_parts = []
    src = "grid"
    if r < 0.12:
        dim = 1
        verts, cells = grid_mesh(kind, 1, (rng.randint(1, 6),), rng, holes=rng.choice((0, 0, 0.3)))
    elif r < 0.55:
        dim = 2
        if rng.random() < 0.25:
            verts, cells = fan_mesh(kind, rng)
            src = "fan"
        else:
            verts, cells = grid_mesh(kind, 2, (rng.randint(1, 4), rng.randint(1, 3)), rng, holes=rng.choice((0, 0, 0.25, 0.5)))
    elif r < 0.85:
        dim = 3
        shape = rng.choice([(1, 1, 1), (2, 1, 1), (2, 2, 1), (1, 2, 2), (2, 2, 2) if big else (2, 1, 2), (3, 1, 1)])
        if kind == S:
            shape = rng.choice([(1, 1, 1), (2, 1, 1), (1, 1, 2), (2, 2, 1) if big else (1, 2, 1)])
        verts, cells = grid_mesh(kind, 3, shape, rng, holes=rng.choice((0, 0, 0.2)))
    else:
        files = mesh_files(400 if big else 100)
        files = [f for f in files if f["dim"] == 2 or len(f["topo"][3]) <= (100 if big else 30)]
        if not files:
            return gen_refine_case(rng, tier)
        mf = rng.choice(files)
        kind, dim, verts, cells = mf["kind"], mf["dim"], mf["verts"], mf["topo"][mf["dim"]]
        given = {f: mf["topo"][f] for f in range(1, dim)}
        file_parts = mf["parts"]
        src = "file:" + mf["file"]
    if given is None:
        mode = rng.choice(("plain", "scramble", "scramble", "scramble"))
        if mode == "scramble":
            verts, cells = scramble_cells(kind, dim, verts, cells, rng)
        m = build_topology(kind, dim, verts, cells, rng, scramble=(mode == "scramble"))
        parts = [gen_part(m, rng, allow_abort=True) for _ in range(rng.choice((0, 1, 1, 2, 3)))]
        src += ":" + mode
    else:
        if rng.random() < 0.5:
            m = build_topology(kind, dim, verts, cells, rng, given=given, scramble=False)
            perm = [list(range(n)) for n in m.nums]
            src += ":as-is"
        else:
            # renumber the vertices, re-orient and renumber cells and all sub-entities; the file's mesh parts are
            # carried along through the renumbering
            vperm = list(range(len(verts)))
            rng.shuffle(vperm)
            nv = [None] * len(verts)
            for v, q in enumerate(vperm):
                nv[q] = verts[v]
            ncells = [tuple(vperm[c[j]] for j in rng.choice(SYMS[(kind, dim)])) for c in cells]
            order = list(range(len(ncells)))
            rng.shuffle(order)
            ncells = [ncells[i] for i in order]
            m = build_topology(kind, dim, nv, ncells, rng, scramble=True)
            perm = [vperm]
            for d in range(1, dim + 1):
                look = {frozenset(t): i for i, t in enumerate(m.idx[(d, 0)])}
                old = given[d] if d < dim else cells
                perm.append([look[frozenset(vperm[v] for v in t)] for t in old])
            src += ":scrambled"
        parts = []
        for fp in file_parts:
            q = file_part(m, fp, perm)
            if q is not None:
                parts.append(q)
        parts += [gen_part(m, rng) for _ in range(rng.choice((0, 1)))]
    ncell = m.n(dim)
    per = {1: 2, 2: 4, 3: (12 if kind == S else 8)}[dim]
    limit = 3000 if big else 700
    depth = 1
    while depth < 3 and ncell * per ** (depth + 1) <= limit and rng.random() < 0.5:
        depth += 1
    if ncell * per > limit * 4:
        return gen_refine_case(rng, tier)
    return fmt_case(m, depth, parts) + " @" + src


def gen_sampler_case(rng):
    kind = rng.choice((S, H))
    cd = rng.choice((1, 2, 2))
    n = nverts(kind, cd)
    trg = rng.sample(range(20), n)
    if rng.random() < 0.85:
        src = [trg[j] for j in rng.choice(SYMS[(kind, cd)])]
    else:
        src = rng.sample(range(20), n)   # mostly non-congruent
    return "sampler %s %d %d %s %d %s" % (kind, cd, n, " ".join(map(str, src)), n, " ".join(map(str, trg)))


def gen_cases(rng, count, tier):
    cases = []
    for _ in range(count):
        if rng.random() < 0.08:
            cases.append(gen_sampler_case(rng))
        else:
            cases.append(gen_refine_case(rng, tier))
    return cases


def orientation_sweep(rng):
    """one or two cells with every orientation code of every sub-entity (deterministic part of the stream)"""
    cases = []
    for kind in (S, H):
        for dim in (2, 3):
            verts, cells = grid_mesh(kind, dim, (2, 1, 1)[:dim], rng, perturb=False)
            for sym in SYMS[(kind, dim)]:
                cc = [tuple(cells[0][j] for j in sym)] + list(cells[1:])
                m = build_topology(kind, dim, verts, cc, rng, scramble=True)
                cases.append(fmt_case(m, 1, [gen_part(m, rng)]))
    return cases


CORPUS = [
    # hand-made regression inputs, replayed first on every run
    "refine h 1 2 2 1 0/1 1/1 1 0 0",
    "refine s 2 1 3 3 1 0/1 0/1 1/1 0/1 0/1 1/1 1 2 2 0 0 1 0 1 2 0 1 2 0",
]


# ---------------------------------------------------------------------------------------------
# independent oracle
# ---------------------------------------------------------------------------------------------

class Tk:
    def __init__(self, s):
        self.t = s.split()
        self.p = 0

    def tok(self):
        self.p += 1
        return self.t[self.p - 1]

    def nat(self):
        return int(self.tok())

    def lst(self):
        n = self.nat()
        return [self.nat() for _ in range(n)]

    def frac(self):
        return vlib.parse_frac(self.tok())

    def expect(self, s):
        t = self.tok()
        if t != s:
            raise ValueError("expected %s, got %s" % (s, t))

    def done(self):
        return self.p >= len(self.t)


def read_idx(tk, kind, D, nums):
    idx = {}
    for c in range(1, D + 1):
        for f in range(c):
            k = nfaces(kind, c, f)
            idx[(c, f)] = [tuple(tk.nat() for _ in range(k)) for _ in range(nums[c])]
    return idx


def read_mesh(tk, kind, D):
    m = Mesh(kind, D)
    m.nums = [tk.nat() for _ in range(D + 1)]
    return m


def parse_case(case):
    tk = Tk(case)
    tk.expect("refine")
    kind, D, depth = tk.tok(), tk.nat(), tk.nat()
    m = read_mesh(tk, kind, D)
    m.verts = [tuple(tk.frac() for _ in range(D)) for _ in range(m.nums[0])]
    m.idx = read_idx(tk, kind, D, m.nums)
    def one():
        halo = tk.tok() == "h"
        topo = tk.nat()
        targets = [tk.lst() for _ in range(D + 1)]
        t = read_idx(tk, kind, D, [len(x) for x in targets]) if topo else None
        attr = [tk.frac() for _ in range(len(targets[0]))] if tk.nat() else None
        nc = tk.nat()
        return {"halo": halo, "targets": targets, "topo": t, "attr": attr, "children": [one() for _ in range(nc)]}
    parts = [one() for _ in range(tk.nat())]
    return kind, D, depth, m, parts


def parse_levels(out, kind, D, nparts):
    tk = Tk(out)
    levels = []
    while not tk.done():
        tk.expect("L")
        m = read_mesh(tk, kind, D)
        tk.expect("V")
        m.verts = [tuple(tk.frac() for _ in range(D)) for _ in range(m.nums[0])]
        tk.expect("I")
        m.idx = read_idx(tk, kind, D, m.nums)
        tk.expect("N")
        nb = [tuple(int(tk.tok()) for _ in range(nfaces(kind, D, D - 1))) for _ in range(m.nums[D])]
        tk.expect("B")
        bnd = [tk.lst() for _ in range(D)]
        tk.expect("P")
        if tk.nat() != nparts:
            raise ValueError("number of parts changed")
        def one():
            tag = tk.tok()
            if tag not in ("S", "T"):
                raise ValueError("bad part tag " + tag)
            targets = [tk.lst() for _ in range(D + 1)]
            t = read_idx(tk, kind, D, [len(x) for x in targets]) if tag == "T" else None
            tk.expect("A")
            na = tk.nat()
            attr = [tk.frac() for _ in range(na)] if na else None
            tk.expect("C")
            nc = tk.nat()
            return {"targets": targets, "topo": t, "attr": attr, "children": [one() for _ in range(nc)]}
        parts = [one() for _ in range(nparts)]
        levels.append((m, nb, bnd, parts))
    return levels


def local_face(kind, c, f, tup, k):
    return frozenset(tup[j] for j in FIM[kind][c][f][k])


def check_mesh(m):
    """conformity of a mesh in the sense of the property statement; returns None or a reason"""
    kind, D = m.kind, m.dim
    for c in range(1, D + 1):
        for f in range(c):
            if len(m.idx[(c, f)]) != m.nums[c]:
                return "index set <%d,%d> has %d entities, expected %d" % (c, f, len(m.idx[(c, f)]), m.nums[c])
            for e, t in enumerate(m.idx[(c, f)]):
                for x in t:
                    if not (0 <= x < m.nums[f]):
                        return "index set <%d,%d>[%d] = %s out of range" % (c, f, e, t)
    vsets = {}
    for c in range(1, D + 1):
        seen = {}
        for e, t in enumerate(m.idx[(c, 0)]):
            if len(set(t)) != len(t):
                return "%d-entity %d has a repeated vertex: %s" % (c, e, t)
            key = frozenset(t)
            if key in seen:
                return "%d-entities %d and %d have the same vertex set %s" % (c, seen[key], e, sorted(key))
            seen[key] = e
        vsets[c] = seen
    for c in range(2, D + 1):
        for f in range(1, c):
            for e, t in enumerate(m.idx[(c, 0)]):
                sub = m.idx[(c, f)][e]
                for k in range(nfaces(kind, c, f)):
                    want = local_face(kind, c, f, t, k)
                    got = frozenset(m.idx[(f, 0)][sub[k]])
                    if want != got:
                        return "<%d,%d>[%d][%d] = %d-entity %d with vertices %s, but local face %d of the cell has vertices %s" % (
                            c, f, e, k, f, sub[k], sorted(got), k, sorted(want))
    # completeness: every lower-dimensional entity is a face of some cell
    for f in range(1, D):
        used = set()
        for t in m.idx[(D, 0)]:
            for k in range(nfaces(kind, D, f)):
                used.add(local_face(kind, D, f, t, k))
        if used != set(vsets[f]):
            extra = set(vsets[f]) - used
            return "%d-entities that are no face of any cell: %s" % (f, [sorted(x) for x in list(extra)[:3]])
    if D >= 2:
        usedv = {v for t in m.idx[(D, 0)] for v in t}
    # facet adjacency
    adj = facet_adjacency(m)
    for l, cs in enumerate(adj):
        if len(cs) not in (1, 2):
            return "facet %d has %d adjacent cells" % (l, len(cs))
    # 3-D: every cell sees each of its faces as a symmetric arrangement of the face's own vertex tuple
    # (a quadrilateral face listed in a 'twisted' order has the right vertex set but no orientation code)
    if D == 3:
        arr = SAMPLER_DOC[(kind, 2)].values()
        for e, t in enumerate(m.idx[(3, 0)]):
            for k in range(nfaces(kind, 3, 2)):
                src = [t[j] for j in FIM[kind][3][2][k]]
                trg = m.idx[(2, 0)][m.idx[(3, 2)][e][k]]
                if not any(all(src[j] == trg[p[j]] for j in range(len(src))) for p in arr):
                    return "cell %d sees its local face %d as %s, which is no symmetric arrangement of face %d = %s" % (
                        e, k, src, m.idx[(3, 2)][e][k], list(trg))
    return None


def facet_adjacency(m):
    D = m.dim
    adj = [[] for _ in range(m.nums[D - 1])]
    for k, t in enumerate(m.idx[(D, D - 1)]):
        for l in t:
            adj[l].append(k)
    return adj


def vsub(a, b):
    return tuple(x - y for x, y in zip(a, b))


def det(rows):
    n = len(rows)
    if n == 1:
        return rows[0][0]
    if n == 2:
        return rows[0][0] * rows[1][1] - rows[0][1] * rows[1][0]
    a, b, c = rows
    return (a[0] * (b[1] * c[2] - b[2] * c[1]) - a[1] * (b[0] * c[2] - b[2] * c[0]) + a[2] * (b[0] * c[1] - b[1] * c[0]))


def _grid_weights(D):
    """for every point of the {0,1/2,1}^D grid: (Simpson weight * 6^D, is_corner, per axis the integer weights of
    the 2^D corner points in the Jacobian column, scaled by 2^(D-1))"""
    res = []
    for xs in itertools.product((0, 1, 2), repeat=D):      # x = xs/2
        sw = 1
        for x in xs:
            sw *= (4 if x == 1 else 1)
        axes = []
        for a in range(D):
            w = []
            for j in range(2 ** D):
                v = 1
                for b in range(D):
                    bit = (j >> b) & 1
                    if b == a:
                        v *= (1 if bit else -1)
                    else:
                        v *= (xs[b] if bit else 2 - xs[b])
                w.append(v)
            axes.append(w)
        res.append((sw, all(x != 1 for x in xs), axes))
    return res


GRID_W = {D: _grid_weights(D) for D in (1, 2, 3)}


def cell_volume_and_signs(kind, D, pts):
    """pts: integer coordinates.  Returns (signed volume times a fixed positive constant that depends only on
    (kind, D), set of signs of the Jacobian determinant at the cell's vertices).  Simplices: the determinant of the
    edge vectors.  Hypercubes: the Jacobian determinant of the multilinear map has degree <= 2 per variable, so the
    tensor Simpson rule on {0,1/2,1}^D integrates it exactly."""
    if kind == S:
        dj = det([vsub(pts[j + 1], pts[0]) for j in range(D)])
        return dj, {(dj > 0) - (dj < 0)}
    vol = 0
    signs = set()
    for sw, corner, axes in GRID_W[D]:
        cols = [[sum(w * p[r] for w, p in zip(axes[a], pts) if w) for r in range(D)] for a in range(D)]
        dj = det([[cols[a][r] for a in range(D)] for r in range(D)])
        vol += sw * dj
        if corner:
            signs.add((dj > 0) - (dj < 0))
    return vol, signs


def hex_vol12_grandy(p):
    """the closed form used by the Lean theorem C10.volume_hexahedron (`hexVol12`), FEAT vertex numbering"""
    def sub(a, b):
        return tuple(x - y for x, y in zip(a, b))

    def add(a, b):
        return tuple(x + y for x, y in zip(a, b))
    return (det([add(sub(p[7], p[1]), sub(p[6], p[0])), sub(p[7], p[2]), sub(p[3], p[0])])
            + det([sub(p[6], p[0]), add(sub(p[7], p[2]), sub(p[5], p[0])), sub(p[7], p[4])])
            + det([sub(p[7], p[1]), sub(p[5], p[0]), add(sub(p[7], p[4]), sub(p[3], p[0]))]))


def self_check_hex_volume(seed):
    """`hexVol12` (Lean) equals 12 x the exact integral of the Jacobian determinant (oracle), on random hexahedra"""
    rng = random.Random(seed)
    for _ in range(200):
        pts = [tuple(rng.randint(-50, 50) for _ in range(3)) for _ in range(8)]
        vol, _ = cell_volume_and_signs(H, 3, pts)        # scaled by 6^3 * 2^6
        if hex_vol12_grandy(pts) * 216 * 64 != 12 * vol:
            raise RuntimeError("hexVol12 differs from the exact integral of det J for %s" % (pts,))


def bary(pts):
    n = len(pts)
    return tuple(sum(p[d] for p in pts) / n for d in range(len(pts[0])))


def check_part(kind, D, label, coarse_nums, fine_nums, fine_verts_of, cp, fp):
    """cp / fp: coarse / refined part attached to a parent (root mesh or parent part) with the entity counts
    coarse_nums / fine_nums; fine_verts_of(c, x) = vertex tuple of the parent's fine c-entity x (None if the parent
    has no topology).  Every refined entity must be attached to a child of the parent entity its coarse entity was
    attached to; whatever the dimension signature of the part, it must really be refined (counts)."""
    foff = {}
    for c in range(D + 1):
        pos = 0
        for s in range(c, D + 1):
            foff[(c, s)] = pos
            pos += ref_count(kind, s, c) * coarse_nums[s]
    if (cp["topo"] is None) != (fp["topo"] is None):
        return "%s: topology appeared/disappeared" % label
    for c in range(D + 1):
        ft = fp["targets"][c]
        pos = 0
        for s in range(c, D + 1):
            cnt = ref_count(kind, s, c)
            for i, t in enumerate(cp["targets"][s]):
                kids = ft[pos:pos + cnt]
                if len(kids) != cnt:
                    return ("%s: target set of dimension %d has %d entries, but the part's %d-entities alone have %d "
                            "children of dimension %d (part not refined?)" % (label, c, len(ft), s, cnt * len(cp["targets"][s]), c))
                lo = foff[(c, s)] + cnt * t
                if sorted(kids) != list(range(lo, lo + cnt)):
                    return ("%s: the %d-children of its %d-entity %d (attached to parent entity %d) are attached to %s, "
                            "the children of that parent entity are %d..%d" % (label, c, s, i, t, kids, lo, lo + cnt - 1))
                pos += cnt
        if pos != len(ft):
            return "%s: target set %d has %d entries, expected %d" % (label, c, len(ft), pos)
        for x in ft:
            if not (0 <= x < fine_nums[c]):
                return "%s: target %d of dimension %d out of range" % (label, x, c)
    if fp["topo"] is not None:
        vt = fp["targets"][0]
        for c in range(1, D + 1):
            if len(fp["topo"][(c, 0)]) != len(fp["targets"][c]):
                return "%s: topology size mismatch" % label
            for j, t in enumerate(fp["topo"][(c, 0)]):
                if any(not (0 <= v < len(vt)) for v in t):
                    return "%s: topology vertex index out of range" % label
                if fine_verts_of is not None:
                    img = frozenset(vt[v] for v in t)
                    want = frozenset(fine_verts_of(c, fp["targets"][c][j]))
                    if img != want:
                        return ("%s: its fine %d-entity %d has (mapped) vertices %s but is attached to parent entity %d "
                                "with vertices %s" % (label, c, j, sorted(img), fp["targets"][c][j], sorted(want)))
            for f in range(1, c):
                for j, t in enumerate(fp["topo"][(c, 0)]):
                    sub = fp["topo"][(c, f)][j]
                    for k in range(nfaces(kind, c, f)):
                        if not (0 <= sub[k] < len(fp["topo"][(f, 0)])):
                            return "%s: topology index out of range" % label
                        if frozenset(fp["topo"][(f, 0)][sub[k]]) != local_face(kind, c, f, t, k):
                            return "%s: refined topology <%d,%d>[%d][%d] is not the local face" % (label, c, f, j, k)
        # attributes: coarse values kept, new part vertices get the mean over the entity they are the midpoint of
        if cp.get("attr") is not None:
            exp = list(cp["attr"])
            for s in range(1, D + 1):
                if ref_count(kind, s, 0):
                    for t in cp["topo"][(s, 0)]:
                        exp.append(sum(cp["attr"][v] for v in t) / len(t))
            if fp.get("attr") != exp:
                return "%s: refined attribute %s..., expected %s..." % (label, (fp.get("attr") or [])[:6], exp[:6])
    return None


def check_level(co, fi, nb, bnd, cparts, fparts, in_parts_topo):
    """co: coarse mesh (valid), fi: fine mesh as produced by the implementation"""
    kind, D = co.kind, co.dim
    # --- counts follow the refinement formulas
    exp = [sum(ref_count(kind, s, c) * co.nums[s] for s in range(c, D + 1)) for c in range(D + 1)]
    if fi.nums != exp:
        return "entity counts %s, refinement formulas give %s" % (fi.nums, exp)
    if len(fi.verts) != fi.nums[0]:
        return "vertex set size mismatch"
    # --- Euler characteristic
    chi = lambda n: sum((-1) ** d * n[d] for d in range(D + 1))
    if chi(fi.nums) != chi(co.nums):
        return "Euler characteristic changed from %d to %d" % (chi(co.nums), chi(fi.nums))
    # --- conformity of the fine mesh
    e = check_mesh(fi)
    if e:
        return "fine mesh: " + e
    # --- vertices: coarse vertices, then the midpoints of edges / quads / cells
    off = [0] * (D + 2)
    pos = 0
    for s in range(D + 1):
        off[s] = pos
        pos += ref_count(kind, s, 0) * co.nums[s]
    for v in range(co.nums[0]):
        if fi.verts[v] != co.verts[v]:
            return "coarse vertex %d moved" % v
    for s in range(1, D + 1):
        if ref_count(kind, s, 0):
            for i, t in enumerate(co.idx[(s, 0)]):
                if fi.verts[off[s] + i] != bary([co.verts[v] for v in t]):
                    return "fine vertex %d is not the midpoint of coarse %d-entity %d" % (off[s] + i, s, i)
    # --- children lie in their parent, volume and orientation (integer arithmetic on a common denominator)
    nch = ref_count(kind, D, D)
    tot_c = tot_f = 0
    den = 1
    for v in fi.verts:
        for x in v:
            den = den * x.denominator // gcd(den, x.denominator)
    iv = [tuple(int(x * den) for x in v) for v in fi.verts]     # coarse vertices are the first co.nums[0] of these
    for i, t in enumerate(co.idx[(D, 0)]):
        cp = [co.verts[v] for v in t]
        vol, signs = cell_volume_and_signs(kind, D, [iv[v] for v in t])
        grid = set(cp)
        for f in range(1, D + 1):
            if f == D:
                if ref_count(kind, D, 0):
                    grid.add(bary(cp))
            elif ref_count(kind, f, 0):
                for k in range(nfaces(kind, D, f)):
                    grid.add(bary([cp[j] for j in FIM[kind][D][f][k]]))
        cv = 0
        for j in range(nch):
            ft = fi.idx[(D, 0)][nch * i + j]
            fp = [fi.verts[v] for v in ft]
            if any(p not in grid for p in fp):
                return "child %d of cell %d has a vertex outside the parent's refinement points" % (j, i)
            v2, s2 = cell_volume_and_signs(kind, D, [iv[v] for v in ft])
            cv += v2
            if len(signs) == 1 and 0 not in signs and s2 != signs:
                return "orientation of child %d of cell %d is %s, parent has %s" % (j, i, sorted(s2), sorted(signs))
        if cv != vol:
            return "children of cell %d have total volume %s, the cell has %s" % (i, cv, vol)
        tot_c += vol
        tot_f += cv
    if tot_c != tot_f:
        return "total volume changed"
    # --- neighbours and boundary
    adj = facet_adjacency(fi)
    for k, t in enumerate(fi.idx[(D, D - 1)]):
        for j, l in enumerate(t):
            others = [c for c in adj[l] if c != k]
            want = others[0] if others else -1
            if nb[k][j] != want:
                return "neighbour %d of fine cell %d is %d, expected %d" % (j, k, nb[k][j], want)
    bf = [l for l, cs in enumerate(adj) if len(cs) == 1]
    want_b = [set() for _ in range(D)]
    want_b[D - 1] = set(bf)
    for l in bf:
        for f in range(D - 1):
            want_b[f].update(fi.idx[(D - 1, f)][l])
    for d in range(D):
        if bnd[d] != sorted(want_b[d]):
            return "computed boundary, dimension %d: %s..., expected the faces of the facets with one adjacent cell %s..." % (
                d, bnd[d][:8], sorted(want_b[d])[:8])
    # --- mesh parts (refined through the mesh-node tree) follow their parents; child parts follow their parent part
    for pi, (cp, fp) in enumerate(zip(cparts, fparts)):
        e = check_part(kind, D, "part %d" % pi, co.nums, fi.nums, lambda c, x: fi.idx[(c, 0)][x], cp, fp)
        if e:
            return e
        if len(cp.get("children", [])) != len(fp.get("children", [])):
            return "part %d: number of child parts changed" % pi
        for ci, (cc, fc) in enumerate(zip(cp.get("children", []), fp.get("children", []))):
            pn_c = [len(t) for t in cp["targets"]]
            pn_f = [len(t) for t in fp["targets"]]
            look = (lambda c, x: fp["topo"][(c, 0)][x]) if fp["topo"] is not None else None
            e = check_part(kind, D, "part %d child %d" % (pi, ci), pn_c, pn_f, look, cc, fc)
            if e:
                return e
    return None


def is_abnormal(out):
    return out.split(":")[0] in ("ABORT", "EXC", "TIMEOUT", "SIGNAL", "SANITIZER", "EXIT") or out in ("HANG", "BAD-OP")


def expect_abort(D, parts):
    """documented limitations (loud aborts): StandardTargetRefiner is 'not implemented' for 3-D cells of a part WITH
    topology; a child part with topology needs a parent part with topology"""
    for p in parts:
        allp = [p] + list(p.get("children", []))
        if any(q["topo"] is not None and D == 3 and len(q["targets"][3]) > 0 for q in allp):
            return True
        if any(ch["topo"] is not None and p["topo"] is None for ch in p.get("children", [])):
            return True
    return False


SAMPLER_DOC = {
    # orientation codes as drawn in congruency_sampler.hpp: code -> target positions of source vertices 0,1,..
    (S, 1): {0: (0, 1), 1: (1, 0)}, (H, 1): {0: (0, 1), 1: (1, 0)},
    (S, 2): {0: (0, 1, 2), 1: (1, 2, 0), 2: (2, 0, 1), 4: (0, 2, 1), 5: (1, 0, 2), 6: (2, 1, 0)},
    (H, 2): {0: (0, 1, 2, 3), 1: (1, 3, 0, 2), 2: (2, 0, 3, 1), 3: (3, 2, 1, 0),
             4: (0, 2, 1, 3), 5: (1, 0, 3, 2), 6: (2, 3, 0, 1), 7: (3, 1, 2, 0)},
}


def oracle(case, out):
    try:
        if case.startswith("sampler"):
            tk = Tk(case)
            tk.tok()
            kind, cd = tk.tok(), tk.nat()
            src, trg = tk.lst(), tk.lst()
            if is_abnormal(out):
                return "sampler ended with " + out
            o = Tk(out)
            o.expect("O")
            code = int(o.tok())
            vm, em = o.lst(), o.lst()
            congruent = any(all(src[j] == trg[p[j]] for j in range(len(src))) for p in SAMPLER_DOC[(kind, cd)].values())
            if not congruent:
                return None  # code for non-congruent tuples is unspecified (-1 or a code of the first two vertices)
            if code not in SAMPLER_DOC[(kind, cd)]:
                return "orientation code %d for congruent tuples" % code
            if any(src[j] != trg[vm[j]] for j in range(len(src))):
                return "vertex congruency map %s of code %d does not map %s onto %s" % (vm, code, src, trg)
            if cd == 2:
                for k, lf in enumerate(FIM[kind][2][1]):
                    a = frozenset(src[j] for j in lf)
                    b = frozenset(trg[j] for j in FIM[kind][2][1][em[k]])
                    if a != b:
                        return "edge congruency map %s of code %d: local edge %d is not target edge %d" % (em, code, k, em[k])
            return None
        kind, D, depth, m, parts = parse_case(case)
        if check_mesh(m) is not None:
            return None     # precondition (valid conforming input mesh) not met: nothing to judge
        if is_abnormal(out):
            if out.startswith("ABORT") and expect_abort(D, parts):
                return None
            return "refinement of a valid mesh ended with " + out
        if expect_abort(D, parts):
            return "3-D cells in a mesh part with topology are documented as not implemented, but no abort happened"
        levels = parse_levels(out, kind, D, len(parts))
        if len(levels) != depth:
            return "expected %d levels, got %d" % (depth, len(levels))
        co, cparts = m, parts
        for lv, (fi, nb, bnd, fparts) in enumerate(levels):
            fi.kind, fi.dim = kind, D
            e = check_level(co, fi, nb, bnd, cparts, fparts, None)
            if e:
                return "level %d: %s" % (lv + 1, e)
            co, cparts = fi, fparts
        return None
    except (IndexError, ValueError, KeyError, AssertionError) as e:
        return "unparsable implementation output (%s: %s): %s" % (type(e).__name__, e, out[:200])


# ---------------------------------------------------------------------------------------------
# statistics
# ---------------------------------------------------------------------------------------------

_DESC_CACHE = {}


def codes_of(m):
    """orientation codes (as position pairs) of every (cell, local sub-entity) pair, plus whether two cells share
    a facet"""
    keys = set()
    for c in range(2, m.dim + 1):
        for f in range(1, c):
            for e, t in enumerate(m.idx[(c, 0)]):
                for k in range(nfaces(m.kind, c, f)):
                    src = [t[j] for j in FIM[m.kind][c][f][k]]
                    trg = list(m.idx[(f, 0)][m.idx[(c, f)][e][k]])
                    oc = orient_code(m.kind, f, src, trg)
                    if oc is not None:
                        keys.add("orient:%s%d:%d%d" % (m.kind, f, oc[0], oc[1]))
    if m.dim == 3:
        # (local face, orientation code) histogram of the 3-D cells, split into interior / boundary faces
        adj = facet_adjacency(m)
        doc = {v[:2]: code for code, v in SAMPLER_DOC[(m.kind, 2)].items()}
        for e, t in enumerate(m.idx[(3, 0)]):
            for k in range(nfaces(m.kind, 3, 2)):
                q = m.idx[(3, 2)][e][k]
                src = [t[j] for j in FIM[m.kind][3][2][k]]
                oc = orient_code(m.kind, 2, src, list(m.idx[(2, 0)][q]))
                if oc in doc:
                    keys.add("facecode:%s:face%d:code%d:%s" % (m.kind, k, doc[oc], "interior" if len(adj[q]) == 2 else "boundary"))
    return keys


def describe(case):
    if case in _DESC_CACHE:
        return _DESC_CACHE[case]
    t = case.split(None, 4)
    keys = ["op:" + t[0]]
    if t[0] == "refine":
        try:
            kind, D, depth, m, parts = parse_case(case)
            last = case.rsplit(None, 1)[-1]
            if last.startswith("@"):
                keys.append("src:" + (last[1:] if not last.startswith("@file:") else "file:" + last.rsplit(":", 1)[-1]))
                if last.startswith("@file:"):
                    keys.append("meshfile:" + last[6:].rsplit(":", 1)[0])
                if last.startswith("@boundary-sizes:"):
                    keys.append("size:" + last[16:])
            keys += ["shape:%s%d" % (kind, D), "depth:%d" % depth,
                     "cells:%s" % ("1" if m.nums[D] == 1 else "2-8" if m.nums[D] <= 8 else "9-64" if m.nums[D] <= 64 else ">64")]
            valid = check_mesh(m) is None
            keys.append("input-valid" if valid else "input-INVALID")
            if valid:
                keys += sorted(codes_of(m))
                adj = facet_adjacency(m)
                keys.append("shared-facet" if any(len(a) == 2 for a in adj) else "no-shared-facet")
            for p in parts:
                dims = "".join(str(d) for d in range(D + 1) if p["targets"][d])
                keys.append("part:%s:%s:dims%s" % ("halo" if p["halo"] else "meshpart", "topo" if p["topo"] is not None else "simple", dims))
                if p.get("attr") is not None:
                    keys.append("part-attribute")
                for ch in p.get("children", []):
                    keys.append("childpart:%s-under-%s:dims%s" % (
                        "topo" if ch["topo"] is not None else "simple", "topo" if p["topo"] is not None else "simple",
                        "".join(str(d) for d in range(D + 1) if ch["targets"][d])))
                if p["topo"] is not None and valid:
                    for c in range(1, D + 1):
                        for j, tt in enumerate(p["topo"][(c, 0)]):
                            src = [p["targets"][0][v] for v in tt]
                            trg = list(m.idx[(c, 0)][p["targets"][c][j]])
                            oc = orient_code(kind, c, src, trg)
                            if oc is not None:
                                keys.append("part-orient:%s%d:%d%d" % (kind, c, oc[0], oc[1]))
            if expect_abort(D, parts):
                keys.append("expected-abort(part with topology and 3-D cells)")
        except Exception as e:  # malformed replay input
            keys.append("unparsable-input")
    else:
        keys.append("sampler:" + t[1] + t[2])
    keys = sorted(set(keys))
    _DESC_CACHE[case] = keys
    return keys


def nontrivial(case):
    k = describe(case)
    if case.startswith("sampler"):
        return True
    # >= 2 cells sharing a facet and at least one non-identity orientation code (1-D: a shared vertex)
    if "input-valid" not in k or "shared-facet" not in k:
        return False
    if any(x.startswith("shape:") and x.endswith("1") for x in k):
        return True
    return any(x.startswith("orient:") and not x.endswith(":01") for x in k)


def signature(case, out, why):
    t = case.split()
    return "%s:%s%s:%s" % (t[0], t[1], t[2], (why or "")[:60])


def canon(out):
    return "ABORT" if out.startswith("ABORT") else " ".join(out.split())


def main(argv):
    args = vlib.std_args(argv)
    t0 = time.time()
    rng = random.Random(args.seed * 1000003 + 10)
    # (A) T1: regenerate the tables from the repository under test
    t1_error = None
    try:
        changed, tstats = refine_tables.regenerate(vlib.REPO)
        vlib.log("[translate] RefineTables.lean %s %s" % ("regenerated" if changed else "unchanged", tstats))
    except refine_tables.TranslateError as e:
        t1_error, tstats = str(e), {}
    if t1_error:
        # the model cannot be regenerated: the theorems no longer speak about the current code.  Keep going with the
        # implementation + independent oracle only, so that a concrete failing input is reported if there is one.
        vlib.log("[translate] ERROR: " + t1_error)
        lean = vlib.LeanResult()
        lean.ok = False
        lean.errors = ["translate/refine_tables.py cannot classify the current sources: " + t1_error]
        lean.failed_names = ["FeatModel.Gen.RefineTables (T1 translator: %s)" % t1_error[:200]]
    elif args.no_lean:
        lean = None
        r = vlib._lake(["build", "drv_c10"])
        if r.returncode != 0:
            vlib.log("[lean] driver build failed:\n" + (r.stdout + r.stderr)[-3000:])
    else:
        lean = vlib.lean_check(PROP, leanchecker=(args.tier == "thorough"))
    binary, err = vlib.build_harness("c10", os.path.join(vlib.VERIF, "harness", "c10", "main.cpp"))
    if binary is None:
        v = [{"property": PROP, "kind": "harness-build-failure", "detail": err, "failing_input": None,
              "broken": "harness c10 does not compile against the current tree"}]
        return vlib.finish(PROP, args.tier, args.seed, t0, lean, [], [], v, [])
    self_check_hex_volume(args.seed)
    if args.replay:
        cases = [json.load(open(args.replay))["input"]]
    else:
        corpus = list(CORPUS)
        cdir = os.path.join(vlib.CORPUS, "c10")
        for p in sorted(glob.glob(os.path.join(cdir, "*.txt"))):
            corpus += [l.strip() for l in open(p) if l.strip()]
        sweep = orientation_sweep(random.Random(args.seed * 7919 + 1))
        psweep = part_orientation_sweep(random.Random(args.seed * 104729 + 3))
        need = {"part-orient:h2": 8, "part-orient:s2": 6, "part-orient:h1": 2, "part-orient:s1": 2,
                "orient:h2": 8, "orient:s2": 6, "orient:h1": 2, "orient:s1": 2}
        seen = {}
        for c in psweep + sweep:
            for k in describe(c):
                for pre in need:
                    if k.startswith(pre + ":"):
                        seen.setdefault(pre, set()).add(k)
        short = {pre: sorted(seen.get(pre, ())) for pre, n in need.items() if len(seen.get(pre, ())) < n}
        if short:
            raise RuntimeError("deterministic sweeps no longer cover every relative orientation: %s" % short)
        small = small_scope_cases(args.seed, args.tier)
        cases = corpus + sweep + psweep + signature_sweep(random.Random(args.seed * 15485863 + 5)) + small + gen_cases(rng, 800 if args.tier == "quick" else 6000, args.tier)
    if not args.replay and args.tier == "thorough":
        want = {"facecode:%s:face%d:code%d:%s" % (k, f, c, w) for k, nf, cs in ((H, 6, range(8)), (S, 4, (0, 1, 2, 4, 5, 6)))
                for f in range(nf) for c in cs for w in ("interior", "boundary")}
        got = {k for c in cases if c.startswith("refine") and (" h 3 " in c[:12] or " s 3 " in c[:12]) for k in describe(c)
               if k.startswith("facecode:")}
        if want - got:
            raise RuntimeError("thorough stream misses (local face, code) combinations: %s" % sorted(want - got)[:10])
    st = vlib.Stream("refine", cases, [binary], (None if t1_error else vlib.driver_cmd(PROP)), oracle=oracle, nontrivial=nontrivial,
                     describe=describe, signature=signature, canon=canon, env={"VERIF_CASE_TIMEOUT": "120"})
    rule = ("meshes: segment/triangle/quadrilateral/tetrahedron/hexahedron; structured grids (with holes), Kuhn/diagonal "
            "simplicial splits, fans around irregular vertices, shipped data/meshes/*.xml with their mesh parts; cells "
            "re-oriented by random elements of the full symmetry group, edges/faces randomly numbered and oriented; "
            "deterministic sweep over all symmetries of one cell next to a neighbour; EXHAUSTIVE small scope: all "
            "facet-connected 2-D meshes of <= 3 cells with all vertex orders of the cells, refined twice; depth 1-3; mesh parts and halos "
            "(boundary, cell patches, loose entity sets, with and without own topology, re-oriented part cells); "
            "non-trivial = valid input with >= 2 cells sharing a facet and a non-identity orientation code")
    streams = [st]
    if not args.replay:
        bs = boundary_size_cases(args.seed, args.tier)
        streams.append(vlib.Stream("boundary-sizes", bs, [binary], (None if t1_error else vlib.driver_cmd(PROP)),
                                   oracle=oracle, nontrivial=nontrivial, describe=describe, signature=signature,
                                   canon=canon, env={"VERIF_CASE_TIMEOUT": "300"}))
    rc = vlib.run_pipeline(PROP, args.tier, args.seed, lean, streams, t0, assumptions=[
        "Index modelled as unbounded Nat (no 64-bit overflow at the sizes FEAT can allocate)",
        "coordinates at the exact rational type Q (vertex refinement is exact); chart adaption not covered",
        "orientation sampler hand-transcribed (not generated); target refiner child rules hand-transcribed",
        "a part with own topology and 3-D cells is documented 'not implemented' (abort) and treated as such"],
        extra_cov={"rule": rule, "translator": tstats, "shipped_mesh_files_usable": len(MESH_FILES or []),
                   "shipped_mesh_files_rejected_as_nonconforming": list(MESH_FILES_REJECTED)})
    return rc
