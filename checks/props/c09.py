"""C09 - multigrid performs the documented V/F/W cycle (and converges level-independently: measured only)."""
import json
import os
import random
import time
from fractions import Fraction as Fr

import sys

import vlib

PROP = "C09"
if hasattr(sys, "set_int_max_str_digits"):
    sys.set_int_max_str_digits(0)  # exact rationals of adaptive step lengths have thousands of digits


# ---------------------------------------------------------------------------------------------
# generator
# ---------------------------------------------------------------------------------------------

def fs(x):
    return vlib.frac_str(Fr(x))


def rnd_entry(rng, frac=0.15):
    if rng.random() < frac:
        return Fr(rng.randint(-3, 3), rng.choice([2, 3, 4]))
    return Fr(rng.randint(-2, 2))


def mat_mul(a, b):
    return [[sum((a[i][k] * b[k][j] for k in range(len(b))), Fr(0)) for j in range(len(b[0]))] for i in range(len(a))]


def transpose(a):
    return [list(r) for r in zip(*a)] if a else []


def rank(a):
    m = [list(r) for r in a]
    rk = 0
    rows, cols = len(m), len(m[0]) if m else 0
    for c in range(cols):
        piv = None
        for r in range(rk, rows):
            if m[r][c] != 0:
                piv = r
                break
        if piv is None:
            continue
        m[rk], m[piv] = m[piv], m[rk]
        for r in range(rows):
            if r != rk and m[r][c] != 0:
                f = m[r][c] / m[rk][c]
                m[r] = [x - f * y for x, y in zip(m[r], m[rk])]
        rk += 1
    return rk


def inverse(a):
    n = len(a)
    m = [list(r) + [Fr(int(i == j)) for j in range(n)] for i, r in enumerate(a)]
    for c in range(n):
        piv = next(r for r in range(c, n) if m[r][c] != 0)
        m[c], m[piv] = m[piv], m[c]
        p = m[c][c]
        m[c] = [x / p for x in m[c]]
        for r in range(n):
            if r != c and m[r][c] != 0:
                f = m[r][c]
                m[r] = [x - f * y for x, y in zip(m[r], m[c])]
    return [r[n:] for r in m]


def gen_spd(rng, n):
    b = [[Fr(rng.randint(-2, 2)) for _ in range(n)] for _ in range(n)]
    a = mat_mul(b, transpose(b))
    for i in range(n):
        a[i][i] += rng.randint(1, 3)
    if rng.random() < 0.2:
        a = [[x / 2 for x in r] for r in a]
    return a


def gen_fullrank(rng, n, nc):
    while True:
        p = [[Fr(rng.randint(-2, 2)) for _ in range(nc)] for _ in range(n)]
        if rng.random() < 0.3:
            p = [[x / 2 for x in r] for r in p]
        if rank(p) == nc:
            return p


def zero_rows(m, idx):
    return [[Fr(0)] * len(r) if i in idx else list(r) for i, r in enumerate(m)]


def gen_case(rng, tier_big=False, raw=False, bad_range=False, vanish=False):
    nl = rng.choice([1, 2, 2, 3, 3, 4, 4, 5, 6])
    adaptive = vanish or rng.random() < 0.4
    ns = []
    if adaptive:
        # degenerate 0/0 step lengths are frequent when a level has one or two free dofs: use 2..5 dofs, growing
        n = 2
        for _ in range(nl):
            ns.append(n)
            n = min(5, n + rng.choice([0, 1, 1]))
    else:
        n = rng.choice([1, 2, 2, 3])
        for _ in range(nl):
            ns.append(n)
            n = n + rng.choice([0, 0, 1]) if n < 4 else n
    ns = ns[::-1]  # level 0 finest (largest)
    levels = []
    for l in range(nl):
        n = ns[l]
        if raw and rng.random() < 0.5:
            a = [[rnd_entry(rng) for _ in range(n)] for _ in range(n)]
        else:
            a = gen_spd(rng, n)
        if adaptive:
            fidx = [rng.randrange(n)] if (n >= 3 and rng.random() < 0.3) else []
        else:
            fidx = sorted(rng.sample(range(n), rng.choice([0, 0, 0, 1, 1, min(2, n - 1)]))) if n > 1 else \
                ([0] if rng.random() < 0.03 else [])
        lev = {"n": n, "A": a, "f": fidx}
        if l + 1 < nl:
            p = gen_fullrank(rng, n, ns[l + 1])
            r = transpose(p) if rng.random() < 0.7 else [[rnd_entry(rng) for _ in range(n)] for _ in range(ns[l + 1])]
            lev["P"], lev["R"] = p, r
        sl = []
        for s in range(4):
            present = rng.random() < (0.65 if s != 2 else 0.5)
            if not present:
                sl.append(None)
                continue
            style = rng.random()
            if s == 3 and style < 0.5 and not raw:
                # exact solve on the free dofs
                ab = [[(Fr(int(i == j)) if (i in fidx or j in fidx) else a[i][j]) for j in range(n)] for i in range(n)]
                m = inverse(ab)
                m = [[Fr(0) if (i in fidx or j in fidx) else m[i][j] for j in range(n)] for i in range(n)]
            elif style < 0.75 and all(a[i][i] != 0 for i in range(n)):
                om = rng.choice([Fr(1), Fr(1, 2), Fr(2, 3)]) if n > 1 else rng.choice([Fr(1, 2), Fr(2, 3)])
                m = [[(om / a[i][i] if i == j else Fr(0)) for j in range(n)] for i in range(n)]
            else:
                m = [[rnd_entry(rng) for _ in range(n)] for _ in range(n)]
            if not raw:
                m = zero_rows(m, fidx)
            sl.append(m)
        lev["s"] = sl
        levels.append(lev)
    vmode = rng.randrange(3) if vanish else -1
    if vmode == 1 and nl >= 2:
        # a restriction that annihilates every defect: all coarser visits work on a zero right hand side
        lv = levels[rng.randrange(nl - 1)]
        lv["R"] = [[Fr(0)] * len(r) for r in lv["R"]]
    elif vmode == 2 and nl >= 2:
        # an exact pre-smoother: the defect after pre-smoothing (hence every correction from below) vanishes
        lv = levels[rng.randrange(nl - 1)]
        f, a, n = lv["f"], lv["A"], lv["n"]
        ab = [[(Fr(int(i == j)) if (i in f or j in f) else a[i][j]) for j in range(n)] for i in range(n)]
        m = inverse(ab)
        lv["s"][0] = [[Fr(0) if (i in f or j in f) else m[i][j] for j in range(n)] for i in range(n)]
    napp = rng.choice([1, 1, 2, 3])
    apps = []
    for k in range(napp):
        cyc = rng.choice([0, 1, 1, 2, 2])
        cgc = rng.choice([1, 2]) if adaptive and (vanish or rng.random() < 0.8) else 0
        top = rng.randrange(nl)
        crs = rng.randrange(top, nl)
        if rng.random() < 0.45:
            top, crs = 0, nl - 1
        ell = crs - top
        if cgc != 0:
            # exact rationals grow with every adaptive step length: keep the number of prolongation steps small
            lim = {0: 5, 1: 3, 2: 2}[cyc]
            if ell > lim:
                top = crs - lim
        crs_arg = crs
        if rng.random() < 0.3:
            crs_arg = crs - nl  # negative: counted from the end
        d = [rnd_entry(rng, 0.1) for _ in range(ns[top])]
        while all(x == 0 for x in d):
            d = [rnd_entry(rng, 0.1) for _ in range(ns[top])]
        if rng.random() < (0.03 if vmode != 0 else 0.7):
            d = [Fr(0)] * ns[top]
        if rng.random() < (0.12 if cgc != 0 else 0.03):
            # guard boundary: tiny but non-zero denominators (quadratic in the defect) must still give the minimiser
            d = [x / 2 ** rng.choice([30, 100, 200]) for x in d]
        if bad_range and k == napp - 1:
            kind = rng.randrange(5)
            if kind == 0:
                crs_arg = nl + rng.randrange(3)
            elif kind == 1:
                crs_arg = -nl - 1 - rng.randrange(2)
            elif kind == 2:
                top = crs + 1 + rng.randrange(2)
            elif kind == 3:
                top = -1 - rng.randrange(2)
            else:
                top, crs_arg = nl, nl
        apps.append((cyc, cgc, top, crs_arg, d))
    return fmt_case("mgr" if raw else "mg", ns, levels, apps)


def fmt_mat(m):
    return " ".join(fs(x) for r in m for x in r)


def fmt_case(op, ns, levels, apps):
    t = [op, str(len(ns))] + [str(n) for n in ns]
    for l, lev in enumerate(levels):
        t.append(fmt_mat(lev["A"]))
        t.append(" ".join([str(len(lev["f"]))] + [str(i) for i in lev["f"]]))
        if "P" in lev:
            t.append(fmt_mat(lev["P"]))
            t.append(fmt_mat(lev["R"]))
        for m in lev["s"]:
            t.append("0" if m is None else "1 " + fmt_mat(m))
    t.append(str(len(apps)))
    for (cyc, cgc, top, crs, d) in apps:
        t.append("%d %d %d %d %d %s" % (cyc, cgc, top, crs, len(d), " ".join(fs(x) for x in d)))
    return " ".join(x for x in t if x != "")


def gen_cases(rng, count):
    cases = []
    for _ in range(count):
        k = rng.random()
        cases.append(gen_case(rng, raw=(0.70 <= k < 0.92), bad_range=(k >= 0.92), vanish=(0.64 <= k < 0.70)))
    return cases


def enum_control_cases():
    """every cycle x every (top, crs) sub-range of 1..6 levels, 1x1 level systems, all slots present / all absent"""
    cases = []
    for nl in range(1, 7):
        for slots in (True, False):
            levels = []
            for l in range(nl):
                lev = {"n": 1, "A": [[Fr(2 + l)]], "f": []}
                if l + 1 < nl:
                    lev["P"], lev["R"] = [[Fr(1)]], [[Fr(1)]]
                lev["s"] = [[[Fr(1, 3 + l + s)]] if slots else None for s in range(4)]
                levels.append(lev)
            for cyc in range(3):
                apps = [(cyc, 0, top, crs, [Fr(1)]) for top in range(nl) for crs in range(top, nl)]
                for i in range(0, len(apps), 4):
                    cases.append(fmt_case("mg", [1] * nl, levels, apps[i:i + 4]))
    return cases


# Finding F-C09-1 (FIXED in /repo by "fix: MultiGrid adaptive coarse grid correction: do not divide by zero for a
# vanishing correction"): the adaptive step lengths of MultiGrid::_apply_prol
#   MinEnergy  omega = <def,cor> / <A cor,cor>      MinDefect  omega = <def,A cor> / <A cor,A cor>
# were computed without guarding the denominator; a vanishing correction (zero defect, or an inner visit whose
# restricted defect vanishes) gave 0/0: NaN vec_cor with Status::success at double, "Q: division by zero" at Q.
# Now a zero denominator keeps omega = 1. The two original inputs stay in the corpus (at Q and at double) with their
# expected results; the generator produces zero defects / vanishing restricted defects on purpose (a few %).
F_C09_1_V = ("2 2 1 2/1 -1/1 -1/1 2/1 0 1/1 1/1 1/1 1/1 1 1/2 0/1 0/1 1/2 0 0 0 2/1 0 0 0 0 1 1/2 "
             "1 0 1 0 1 2 0/1 0/1")   # V-cycle, MinEnergy, zero defect
F_C09_1_W = ("2 2 1 2/1 -1/1 -1/1 2/1 0 1/1 1/1 1/1 1/1 1 1/2 0/1 0/1 1/2 0 0 0 2/1 0 0 0 0 1 1/2 "
             "1 2 1 0 1 2 1/1 0/1")   # W-cycle, MinEnergy, defect (1,0): the second coarse visit gets R*def = 0
REGRESSION = {  # case tail -> expected vec_cor of the (single) application
    F_C09_1_V: [Fr(0), Fr(0)],
    F_C09_1_W: [Fr(5, 8), Fr(3, 8)],
}
def boundary_cases(tier):
    """large level counts: W-cycle with 2^L coarse solves for L = 8, 10, 12 (13 levels), F and V on the same
    hierarchy, also on sub-ranges with top > 0; 1x1 level systems, only the coarse solver (1/2) present, so the
    values stay small dyadic rationals while the call log has up to ~40000 events"""
    cases = []
    nl = 13
    levels = []
    for l in range(nl):
        lev = {"n": 1, "A": [[Fr(1)]], "f": []}
        if l + 1 < nl:
            lev["P"], lev["R"] = [[Fr(1)]], [[Fr(1)]]
        lev["s"] = [None, None, None, [[Fr(1, 2)]]]
        levels.append(lev)
    for (top, crs) in ((4, 12), (2, 12), (0, 12)) if tier == "quick" else ((4, 12), (3, 11), (2, 12), (1, 12), (0, 12)):
        cases.append(fmt_case("mg", [1] * nl, levels, [(2, 0, top, crs, [Fr(1)]), (1, 0, top, crs, [Fr(1)]),
                                                         (0, 0, top, crs, [Fr(1)])]))
    return cases


CORPUS = [
    # regression inputs of finding F-C09-1 (vanishing correction with adaptive coarse grid correction)
    "mg " + F_C09_1_V,
    "mg " + F_C09_1_W,
    "mg " + F_C09_1_V.replace(" 1 0 1 0 1 2 0/1 0/1", " 1 0 2 0 1 2 0/1 0/1"),   # the same with MinDefect
    "mg " + F_C09_1_W.replace(" 1 2 1 0 1 2 1/1 0/1", " 1 2 2 0 1 2 1/1 0/1"),
    # sub-range + negative coarse level + three applications on one object
    "mg 2 2 1 2/1 -1/1 -1/1 2/1 0 1/1 1/1 1/1 1/1 1 1/2 0/1 0/1 1/2 0 0 0 2/1 0 0 0 0 1 1/2 3 2 0 0 1 2 1/1 0/1 0 2 0 -1 2 0/1 1/1 0 0 1 1 1 5/1",
    # invalid level range must be reported
    "mg 2 2 1 2/1 -1/1 -1/1 2/1 0 1/1 1/1 1/1 1/1 1 1/2 0/1 0/1 1/2 0 0 0 2/1 0 0 0 0 1 1/2 1 2 1 1 0 2 1/1 0/1",
]


# ---------------------------------------------------------------------------------------------
# independent oracle: recursive textbook multigrid on values (no instruction lists, no persistent state)
# ---------------------------------------------------------------------------------------------

class Tk:
    def __init__(self, s):
        self.t = s.split()
        self.p = 0

    def tok(self):
        self.p += 1
        return self.t[self.p - 1]

    def nat(self):
        return int(self.tok())

    def fr(self):
        return vlib.parse_frac(self.tok())

    def mat(self, r, c):
        return [[self.fr() for _ in range(c)] for _ in range(r)]

    def done(self):
        return self.p >= len(self.t)


_PARSE_CACHE = {}


def parse_case(case):
    """parsed (op, sizes, levels, applications); the pipeline asks for the same line several times in a row"""
    hit = _PARSE_CACHE.get(case)
    if hit is None:
        if len(_PARSE_CACHE) > 16:
            _PARSE_CACHE.clear()
        hit = _PARSE_CACHE[case] = _parse_case(case)
    return hit


def _parse_case(case):
    c = Tk(case)
    op = c.tok()
    nl = c.nat()
    ns = [c.nat() for _ in range(nl)]
    levels = []
    for l in range(nl):
        n = ns[l]
        lev = {"n": n, "A": c.mat(n, n)}
        lev["f"] = [c.nat() for _ in range(c.nat())]
        if l + 1 < nl:
            lev["P"] = c.mat(n, ns[l + 1])
            lev["R"] = c.mat(ns[l + 1], n)
        lev["s"] = [(c.mat(n, n) if c.nat() else None) for _ in range(4)]
        levels.append(lev)
    apps = []
    for _ in range(c.nat()):
        cyc, cgc, top, crs = c.nat(), c.nat(), c.nat(), c.nat()
        d = [c.fr() for _ in range(c.nat())]
        apps.append((cyc, cgc, top, crs, d))
    return op, ns, levels, apps


def mv(a, x):
    return [sum((p * q for p, q in zip(r, x)), Fr(0)) for r in a]


def ip(x, y):
    return sum((p * q for p, q in zip(x, y)), Fr(0))


class RefMG:
    """the documented cycles, written as the usual recursion `x = cycle(kind, level, b)`"""

    def __init__(self, levels, cgc, crs):
        self.lv, self.cgc, self.crs, self.log = levels, cgc, crs, []
        self.zero_den = 0

    def F(self, l, v):
        f = self.lv[l]["f"]
        return [Fr(0) if i in f else x for i, x in enumerate(v)]

    def defect(self, l, b, x, counted=True):
        """filtered residual b - A x; every residual that needs a matrix product is one `D<l>` event of the log
        (not counted: the residual of the zero initial guess, and the shortcut update under adaptive correction)"""
        if counted:
            self.log.append("D%d" % l)
        return self.F(l, [p - q for p, q in zip(b, mv(self.lv[l]["A"], x))])

    def smooth(self, l, slot, tag, b, x):
        m = self.lv[l]["s"][slot]
        if m is None:
            return x
        d = self.defect(l, b, x)
        self.log.append("%s%d" % (tag, l))
        c = self.F(l, mv(m, d))
        return [p + q for p, q in zip(x, c)]

    def peak(self, l, b, x):
        if self.lv[l]["s"][2] is not None:
            return self.smooth(l, 2, "k", b, x)
        x = self.smooth(l, 0, "a", b, x)
        return self.smooth(l, 1, "b", b, x)

    def correct(self, kind, l, b, x, zero_guess=False):
        """coarse grid correction of x on level l by one cycle of type `kind` on level l+1"""
        lev = self.lv[l]
        d = self.defect(l, b, x, counted=not zero_guess)
        self.log.append("R%d" % l)
        bc = self.F(l + 1, mv(lev["R"], d))
        xc = self.cycle(kind, l + 1, bc)
        self.log.append("P%d" % l)
        c = self.F(l, mv(lev["P"], xc))
        om = Fr(1)
        if self.cgc != 0:
            self.log.append("M%d" % l)  # the product A*c is formed once per adaptive correction
        if self.cgc == 1:
            # minimise the energy norm of the error: <b - A x, c> / <A c, c>
            r = [p - q for p, q in zip(b, mv(lev["A"], x))]
            den = ip(mv(lev["A"], c), c)
            self.zero_den += int(den == 0)
            if den != 0:  # a vanishing denominator (c = 0 for SPD A) leaves the plain correction, omega = 1
                om = ip(r, c) / den
        elif self.cgc == 2:
            # minimise the euclidean norm of the (filtered) defect
            ac = self.F(l, mv(lev["A"], c))
            den = ip(ac, ac)
            self.zero_den += int(den == 0)
            if den != 0:
                om = ip(d, ac) / den
        return [p + om * q for p, q in zip(x, c)]

    def cycle(self, kind, l, b):
        """kind: 'V', 'W', 'F' (top level of an F-cycle), 'Fi' (inner F-cycle level: F then V)"""
        if l == self.crs:
            m = self.lv[l]["s"][3]
            if m is None:
                return self.F(l, list(b))
            self.log.append("c%d" % l)
            return mv(m, b)
        # pre-smoothing from the zero initial guess
        x = [Fr(0)] * self.lv[l]["n"]
        m = self.lv[l]["s"][0]
        if m is not None:
            self.log.append("a%d" % l)
            x = mv(m, b)
        first = {"V": "V", "W": "W", "F": "Fi", "Fi": "Fi"}[kind]
        x = self.correct(first, l, b, x, zero_guess=(m is None))
        if kind in ("W", "Fi"):
            x = self.peak(l, b, x)
            x = self.correct("W" if kind == "W" else "V", l, b, x)
        m = self.lv[l]["s"][1]
        if m is not None:
            # with adaptive correction the defect is updated by the shortcut def - omega*A*c: no new matrix product
            d = self.defect(l, b, x, counted=(self.cgc == 0))
            self.log.append("b%d" % l)
            x = [p + q for p, q in zip(x, mv(m, d))]
        return x


def ruler_peaks(top, crs):
    """W-cycle peak levels in binary-counter order: the k-th inner turn happens on level crs-1-ctz(k)"""
    out = []
    for k in range(1, 2 ** (crs - top)):
        tz = 0
        while k % 2 == 0:
            k //= 2
            tz += 1
        out.append(crs - 1 - tz)
    return out


def skeleton(events):
    """(coarse visits, peak levels) read off the transfer events of a call log"""
    tr = [e for e in events if e[0] in "RP"]
    peaks = [int(a[1:]) for a, b in zip(tr, tr[1:]) if a[0] == "P" and b[0] == "R"]
    visits = sum(1 for a, b in zip(tr, tr[1:]) if a[0] == "R" and b[0] == "P")
    return visits, peaks


def level_range(nl, top, crs):
    c = crs if crs >= 0 else nl + crs
    if 0 <= c < nl and 0 <= top <= c:
        return top, c
    return None


def is_abnormal(out):
    return out.split(":")[0] in ("ABORT", "EXC", "TIMEOUT", "SIGNAL", "SANITIZER", "EXIT") or out in ("HANG", "BAD-OP")


def parse_out(out):
    o = Tk(out)
    res = []
    while not o.done():
        assert o.tok() == "E"
        ev = [o.tok() for _ in range(o.nat())]
        assert o.tok() == "X"
        x = [o.fr() for _ in range(o.nat())]
        assert o.tok() == "S"
        st = o.nat()
        y = None
        if not o.done() and o.t[o.p] == "Y":
            o.tok()
            y = [o.fr() for _ in range(o.nat())]
        res.append((ev, x, st, y))
    return res


VANISHING = {"count": 0}  # adaptive step lengths with a zero denominator seen by the oracle


def double_oracle(case, out):
    """the same template code instantiated at double performs the same documented cycle (call log) and returns a
    finite vec_cor (in particular for vanishing corrections, finding F-C09-1); supporting evidence only"""
    try:
        op, ns, levels, apps = parse_case(case)
    except Exception as e:
        return "unparsable case: %s" % e
    nl = len(ns)
    if is_abnormal(out):
        return "double run ended with " + out[:100]
    o = out.split()
    p = 0
    for k, (cyc, cgc, top, crs, d) in enumerate(apps):
        top, crs = level_range(nl, top, crs)
        ref = RefMG(levels, cgc, crs)
        ex = ref.cycle("VFW"[cyc], top, d)
        try:
            assert o[p] == "E"
            n = int(o[p + 1])
            ev = o[p + 2:p + 2 + n]
            p += 2 + n
            assert o[p] == "X"
            m = int(o[p + 1])
            xs = o[p + 2:p + 2 + m]
            p += 2 + m + 2
        except (AssertionError, IndexError, ValueError):
            return "unparsable double output: " + out[:120]
        if ev != ref.log:
            return "application %d (double): call log differs from the documented cycle" % k
        for a in xs:
            if "nan" in a or "inf" in a:
                return "application %d (double): non-finite vec_cor %s (finding F-C09-1 regressed?)" % (k, " ".join(xs))
        want = REGRESSION.get(case.split(" ", 1)[1]) if len(apps) == 1 else None
        if want is not None and any(abs(float.fromhex(a) - float(b)) > 1e-12 for a, b in zip(xs, want)):
            return "regression F-C09-1 (double): vec_cor %s, expected %s" % (" ".join(xs), " ".join(map(fs, want)))
        # beyond finiteness, values are not judged at double: the mock operators are arbitrary (non-contractive) matrices, so rounding
        # errors are amplified without bound while the exact run cancels exactly; vec_cor is judged at Q only
    return None


HOMOG = {"scalings_compared_bitwise": 0, "scalings_skipped_out_of_range": 0,
         "reference_compared": 0, "reference_skipped_unstable": 0}
SCALES = [0, -10, -20, -30, -40, -60, 10, 20, 30, 40, 60]


def homog_oracle(case, out):
    """double stream tied to C09.textbook_homogeneous / C09.omega_scale_invariant: scaling the defect by 2^k commutes
    exactly with every IEEE operation (no under-/overflow at these magnitudes), and the adaptive step lengths are
    ratios, so FEAT at double must satisfy MG(2^k d) = 2^k MG(d) BIT FOR BIT for all cycles and correction modes;
    additionally FEAT is compared with the independent C++ recursion at double on the same scaled defects whenever
    that recursion is numerically stable on the case (agrees with the exact recursion to 1e-6)."""
    import math
    if is_abnormal(out):
        return "double run ended with " + out[:100]
    try:
        op, ns, levels, apps = parse_case(case)
        t = out.split()
        p = 0

        def vec(tag):
            nonlocal p
            assert t[p] == tag, (tag, t[p])
            n = int(t[p + 1])
            v = t[p + 2:p + 2 + n]
            p += 2 + n
            return v

        for a in range(len(apps)):
            assert t[p] == "APP"
            p += 1
            q = [float.fromhex(h) for h in vec("Q")]
            blocks = []
            for k in SCALES:
                assert t[p] == "K" and int(t[p + 1]) == k
                p += 1
                xs = vec(str(k))
                rs = vec("R")
                ws = vec("W")
                blocks.append((k, xs, rs, ws))
            x0 = [float.fromhex(h) for h in blocks[0][1]]
            if any(math.isnan(v) or math.isinf(v) for v in x0):
                return "application %d (double): non-finite vec_cor" % a
            mags = [abs(v) for v in x0 if v != 0]
            in_range = (not mags) or (max(mags) < 1e60 and min(mags) > 1e-60)
            for (k, xs, rs, ws) in blocks[1:]:
                xk = [float.fromhex(h) for h in xs]
                if in_range:
                    HOMOG["scalings_compared_bitwise"] += 1
                    for i, (u, v) in enumerate(zip(xk, x0)):
                        if not (u == math.ldexp(v, k)):
                            return ("application %d (cycle %s, cgc %d): MG(2^%d d)[%d] = %s but 2^%d MG(d)[%d] = %s - the "
                                    "cycle is not homogeneous at double (reference step lengths at this scale: %s)" % (
                                        a, "VFW"[apps[a][0]], apps[a][1], k, i, xs[i], k, i,
                                        float.hex(math.ldexp(v, k)), " ".join(ws[:6])))
                else:
                    HOMOG["scalings_skipped_out_of_range"] += 1
            for (k, xs, rs, ws) in blocks:
                xk = [float.fromhex(h) for h in xs]
                rk = [float.fromhex(h) for h in rs]
                qk = [math.ldexp(v, k) for v in q]
                sc = max([abs(v) for v in qk] + [0.0])
                if len(qk) == len(rk) and sc > 0 and all(math.isfinite(v) for v in rk) and \
                        max(abs(u - v) for u, v in zip(rk, qk)) <= 1e-6 * sc:
                    HOMOG["reference_compared"] += 1
                    if not all(math.isfinite(v) for v in xk) or max(abs(u - v) for u, v in zip(xk, rk)) > 1e-6 * sc:
                        return ("application %d (cycle %s, cgc %d), defect scaled by 2^%d: FEAT %s differs from the "
                                "independent recursion at double %s (its step lengths: %s)" % (
                                    a, "VFW"[apps[a][0]], apps[a][1], k, " ".join(xs[:4]), " ".join(rs[:4]),
                                    " ".join(ws[:6])))
                else:
                    HOMOG["reference_skipped_unstable"] += 1
    except (AssertionError, IndexError, ValueError) as e:
        return "unparsable mgh output (%s): %s" % (e, out[:160])
    return None


def oracle(case, out):
    try:
        op, ns, levels, apps = parse_case(case)
    except Exception as e:  # a malformed case is a bug of this check
        return "unparsable case: %s" % e
    nl = len(ns)
    judge_values = op in ("mg", "mgx")
    with_ref = op in ("mgx", "mgxr")
    expected = []
    verdict = None  # expected abnormal outcome
    for (cyc, cgc, top, crs, d) in apps:
        rg = level_range(nl, top, crs)
        if rg is None:
            verdict = "ABORT:range"
            break
        top, crs = rg
        ref = RefMG(levels, cgc, crs)
        x = ref.cycle("VFW"[cyc], top, d)
        VANISHING["count"] += ref.zero_den
        expected.append((cyc, top, crs, ref.log, x))
    if verdict is not None:
        if out == verdict:
            return None
        return "expected %s (invalid level range must be reported), got %s" % (verdict, out[:120])
    if is_abnormal(out):
        return "valid multigrid application ended with " + out[:120]
    try:
        got = parse_out(out)
    except (AssertionError, IndexError, ValueError) as e:
        return "unparsable implementation output (%s): %s" % (e, out[:200])
    if len(got) != len(expected):
        return "%d applications reported, expected %d" % (len(got), len(expected))
    for k, ((cyc, top, crs, elog, ex), (ev, x, st, y)) in enumerate(zip(expected, got)):
        ell = crs - top
        visits, peaks = skeleton(ev)
        if ell == 0:
            if any(e[0] in "RP" for e in ev):
                return "application %d: transfer on a one-level range" % k
        else:
            want_visits = {0: 1, 1: ell, 2: 2 ** ell}[cyc]
            if visits != want_visits:
                return "application %d: %d coarse level visits, documented %d for cycle %s with L=%d" % (
                    k, visits, want_visits, "VFW"[cyc], ell)
            want_peaks = {0: [], 1: list(range(crs - 1, top, -1)), 2: ruler_peaks(top, crs)}[cyc]
            if peaks != want_peaks:
                return "application %d: peak levels %s, documented %s (cycle %s, top %d, crs %d)" % (
                    k, peaks, want_peaks, "VFW"[cyc], top, crs)
        if levels[crs]["s"][3] is not None:
            nc = sum(1 for e in ev if e == "c%d" % crs)
            want = {0: 1, 1: max(ell, 1), 2: 2 ** ell}[cyc]
            if nc != want:
                return "application %d: %d coarse solves, documented %d" % (k, nc, want)
        if ev != elog:
            j = next((i for i, (a, b) in enumerate(zip(ev, elog)) if a != b), min(len(ev), len(elog)))
            return "application %d: call log differs from the documented cycle at event %d: got %s, expected %s" % (
                k, j, " ".join(ev[j:j + 4]), " ".join(elog[j:j + 4]))
        if st != 1:
            return "application %d: status not success" % k
        if with_ref and y != x:
            return "application %d: vec_cor differs from the independent recursive C++ reference: got %s, reference %s" \
                % (k, " ".join(map(fs, x))[:120], " ".join(map(fs, y or []))[:120])
        want = REGRESSION.get(case.split(" ", 1)[1]) if len(expected) == 1 else None
        if want is not None and x != want:
            return "regression F-C09-1: vec_cor %s, expected %s" % (" ".join(map(fs, x)), " ".join(map(fs, want)))
        if judge_values and x != ex:
            return "application %d: vec_cor differs from the reference recursion: got %s, expected %s" % (
                k, " ".join(map(fs, x))[:120], " ".join(map(fs, ex))[:120])
    return None


# ---------------------------------------------------------------------------------------------
# measured only: contraction numbers at double (nested 1D Poisson), thorough tier
# ---------------------------------------------------------------------------------------------

RATES = {}


def rate_oracle(case, out):
    t = case.split()
    op, nl, cyc, cgc = t[0], int(t[1]), int(t[2]), int(t[3])
    dim = "2D" if op == "rate2d" else "1D"
    o = out.split()
    if len(o) != 5 or o[0] != "RATE":
        return "rate measurement failed: " + out[:100]
    worst = float(o[3])
    key = "%s %s cgc=%d NL=%%d" % (dim, "VFW"[cyc], cgc)
    RATES[key % nl] = worst
    if not worst < 0.9:
        return "measured defect contraction %.3f per cycle on %d levels (alarm threshold 0.9)" % (worst, nl)
    prev = RATES.get(key % (nl - 1))
    # the first levels are a transient (two-grid -> multigrid); growth is an alarm only in the asymptotic range
    if prev is not None and nl >= (6 if dim == "2D" else 5) and worst > prev + 0.05:
        return "measured contraction grows from %.3f (%d levels) to %.3f (%d levels)" % (prev, nl - 1, worst, nl)
    return None


# ---------------------------------------------------------------------------------------------
# statistics
# ---------------------------------------------------------------------------------------------

def nontrivial(case):
    if case.startswith("rate"):
        return True
    try:
        op, ns, levels, apps = parse_case(case)
    except Exception:
        return False
    nl = len(ns)
    absent = any(m is None for lev in levels for m in lev["s"])
    for (cyc, cgc, top, crs, d) in apps:
        rg = level_range(nl, top, crs)
        if rg and rg[1] - rg[0] >= 2 and cyc != 0:
            return True
    return absent and nl >= 2


def describe(case):
    if case.startswith("rate"):
        return ["op:" + case.split()[0]]
    try:
        op, ns, levels, apps = parse_case(case)
    except Exception:
        return ["unparsable"]
    nl = len(ns)
    keys = ["op:" + op, "levels:%d" % nl, "applications:%d" % len(apps)]
    for (cyc, cgc, top, crs, d) in apps:
        rg = level_range(nl, top, crs)
        if rg is None:
            keys.append("range:invalid")
            continue
        keys.append("cycle:%s L=%d" % ("VFW"[cyc], rg[1] - rg[0]))
        if rg[0] > 0:
            keys.append("cycle:%s top>0" % "VFW"[cyc])
        keys.append("cgc:%s" % ["fixed", "minEnergy", "minDefect"][cgc])
        keys.append("range:%s" % ("full" if rg == (0, nl - 1) else "sub"))
        if crs < 0:
            keys.append("crs:negative")
        keys.append("coarse-solver:%s" % ("present" if levels[rg[1]]["s"][3] else "absent"))
        if all(x == 0 for x in d):
            keys.append("defect:zero")
        elif max(abs(x) for x in d) < Fr(1, 2 ** 25):
            keys.append("defect:tiny(<2^-25)")
    for lev in levels[:-1]:
        keys.append("slots(pre,post,peak):%s" % "".join("1" if m else "0" for m in lev["s"][:3]))
    if any(lev["f"] for lev in levels):
        keys.append("filter:unit")
    return keys


def canon(out):
    if out.startswith("ABORT:"):
        if "invalid_coarse_level" in out or "invalid_topcoarse_level" in out:
            return "ABORT:range"
        if "W-cycle_sanity" in out:
            return "ABORT:sanity"
    return out


def signature(case, out, why):
    return "%s:%s" % (case.split()[0], (why or "")[:40])


def main(argv):
    args = vlib.std_args(argv)
    t0 = time.time()
    rng = random.Random(args.seed * 1000003 + 9)
    lean = None if args.no_lean else vlib.lean_check(PROP, leanchecker=(args.tier == "thorough"))
    binary, err = vlib.build_harness("c09", os.path.join(vlib.VERIF, "harness", "c09", "main.cpp"))
    if binary is None:
        v = [{"property": PROP, "kind": "harness-build-failure", "detail": err, "failing_input": None,
              "broken": "harness c09 does not compile against the current tree"}]
        return vlib.finish(PROP, args.tier, args.seed, t0, lean, [], [], v, [])
    rate_cases = []
    if args.replay:
        cases = [json.load(open(args.replay))["input"]]
        if cases[0].startswith("rate"):
            rate_cases, cases = cases, []
    else:
        cases = CORPUS + boundary_cases(args.tier) + enum_control_cases() + gen_cases(rng, 4500 if args.tier == "quick" else 80000)
        if args.tier == "thorough":
            rate_cases = ["rate %d %d %d" % (nl, cyc, cgc) for cyc in range(3) for cgc in range(3) for nl in range(2, 9)]
            rate_cases += ["rate2d %d %d %d" % (nl, cyc, cgc) for cyc in range(3) for cgc in range(3) for nl in range(2, 8)]
        else:
            rate_cases = ["rate %d %d 0" % (nl, cyc) for cyc in range(3) for nl in range(2, 7)]
            rate_cases += ["rate2d %d %d %d" % (nl, cyc, cgc) for cyc in range(3) for cgc in (1, 2) for nl in range(2, 6)]
    streams = []
    if cases:
        streams.append(vlib.Stream("multigrid", cases, [binary], vlib.driver_cmd(PROP), oracle=oracle,
                                   nontrivial=nontrivial, describe=describe, signature=signature, canon=canon))
    refc = []
    if not args.replay:
        lim = 1500 if args.tier == "quick" else 30000
        for c in enum_control_cases() + cases:
            if len(refc) >= lim:
                break
            if c.startswith("mg ") or c.startswith("mgr "):
                op, ns, levels, apps = parse_case(c)
                if all(level_range(len(ns), a[2], a[3]) for a in apps):
                    refc.append(("mgx " if op == "mg" else "mgxr ") + c.split(" ", 1)[1])
    elif cases and cases[0].startswith("mgx"):
        refc, cases = cases, []
        streams = []
    if refc:
        streams.append(vlib.Stream("reference", refc, [binary], vlib.driver_cmd(PROP), oracle=oracle,
                                   nontrivial=nontrivial, describe=describe, signature=signature, canon=canon))
    hom = []
    if not args.replay:
        lim = 450 if args.tier == "quick" else 6000
        for c in cases:
            if len(hom) >= lim:
                break
            if c.startswith("mg "):
                op, ns, levels, apps = parse_case(c)
                if not all(level_range(len(ns), a[2], a[3]) for a in apps):
                    continue
                if any(all(x == 0 for x in a[4]) or max(abs(x) for x in a[4]) < Fr(1, 2 ** 25) for a in apps):
                    continue  # the scaled copies are produced by the harness from O(1) defects
                # every correction mode on the same hierarchy / cycles / ranges
                for cg in range(3):
                    hom.append(fmt_case("mgh", ns, levels, [(a[0], cg, a[2], a[3], a[4]) for a in apps]))
    elif cases and cases[0].startswith("mgh"):
        hom, cases = cases, []
        streams = []
    if hom:
        streams.append(vlib.Stream("double-homogeneity", hom, [binary], None, oracle=homog_oracle,
                                   nontrivial=nontrivial, describe=describe, signature=signature))
    dbl = []
    if not args.replay:
        dbl = ["mgd " + F_C09_1_V, "mgd " + F_C09_1_W]
        for c in cases:
            if c.startswith("mg ") and len(dbl) < (300 if args.tier == "quick" else 4000):
                try:
                    op, ns, levels, apps = parse_case(c)
                except Exception:
                    continue
                if all(level_range(len(ns), a[2], a[3]) for a in apps):
                    dbl.append("mgd" + c[2:])
        # plus every generated case whose defect is zero (vanishing corrections on purpose)
        for c in cases:
            if c.startswith("mg ") and len(dbl) < (900 if args.tier == "quick" else 12000):
                op, ns, levels, apps = parse_case(c)
                if any(all(x == 0 for x in a[4]) for a in apps) and all(level_range(len(ns), a[2], a[3]) for a in apps) \
                        and "mgd" + c[2:] not in dbl[:400]:
                    dbl.append("mgd" + c[2:])
    elif cases and cases[0].startswith("mgd"):
        dbl, cases = cases, []
        streams = []
    if dbl:
        streams.append(vlib.Stream("double-control-flow", dbl, [binary], None, oracle=double_oracle,
                                   nontrivial=nontrivial, describe=describe, signature=signature))
    if rate_cases:
        streams.append(vlib.Stream("rate-measured", rate_cases, [binary], None, oracle=rate_oracle,
                                   nontrivial=nontrivial, describe=describe, signature=signature))
    stats_rule = ("hierarchies of 1..6 levels with random SPD (stream mg) or arbitrary (stream mgr) level matrices of size "
                  "1..4, full-rank integer/rational prolongations, restriction = transpose or arbitrary, unit filters, "
                  "every smoother slot / coarse solver present or absent, V/F/W, every top/coarse sub-range (enumerated "
                  "exhaustively on 1x1 systems, random otherwise, negative coarse indices), fixed/MinEnergy/MinDefect "
                  "coarse grid correction, 1-4 applications per object with changing cycle/range/mode, invalid ranges; "
                  "zero defects / annihilating restrictions / exact pre-smoothers on purpose (vanishing adaptive "
                  "corrections, about 6 % of the cases); "
                  "non-trivial = an application with L >= 2 and cycle != V, or a smoother slot absent")
    rc = vlib.run_pipeline(PROP, args.tier, args.seed, lean, streams, t0, assumptions=[
        "Index modelled as unbounded Nat; int -> Index conversions of top/crs modelled on Int",
        "mock smoothers/coarse solvers are fixed linear operators (matrices); their status is always success",
        "single process: size_physical = size_virtual, no ghost transfer",
        "level-independent convergence rate is measured at double (thorough tier), not proved"],
        extra_cov={"rule": stats_rule, "measured_contraction_numbers": RATES, "vanishing_cgc_denominator_events": VANISHING, "double_homogeneity": HOMOG,
                   "measured_only": "worst defect reduction per cycle over 8 cycles on nested 1D P1 Poisson problems (3..511 "
                                    "unknowns, 2..8 levels) and on 2-D 5-point Poisson problems (1..127^2 unknowns, 2..7 "
                                    "levels, bilinear transfer), 2 damped Jacobi steps pre/post, exact coarse solve, all "
                                    "three coarse grid correction modes, real MultiGrid at double; alarm if > 0.9 or "
                                    "growing by > 0.05 per level beyond 4 (1D) / 5 (2D) levels"})
    return rc
