"""C05 - persisted containers and checkpoints read back equal to what was written."""
import json
import os
import random
import struct
import time
from fractions import Fraction

import vlib

PROP = "C05"

# ---------------------------------------------------------------------------------------------
# helpers
# ---------------------------------------------------------------------------------------------


def fs(x):
    return vlib.frac_str(Fraction(x))


def fl(l):
    return ("%d " % len(l) + " ".join(fs(x) for x in l)).strip()


def nl(l):
    return ("%d " % len(l) + " ".join(str(x) for x in l)).strip()


def dyadic(rng, float_ok=True):
    """a value exactly representable as float and double (normal range)"""
    k = rng.random()
    if k < 0.12:
        return Fraction(0)
    if k < 0.5:
        return Fraction(rng.randrange(-2000, 2001), 2 ** rng.randrange(0, 7))
    if k < 0.8:
        return Fraction(rng.choice([-1, 1]) * (2 * rng.randrange(0, 2 ** 22) + 1), 2 ** rng.randrange(0, 40))
    return Fraction(rng.choice([-1, 1]) * (2 * rng.randrange(0, 2 ** 10) + 1)) * Fraction(2) ** rng.randrange(-90, 90)


def exact_print_val(rng):
    """a dyadic value with at most 7 significant decimal digits (prints exactly with %.6e)"""
    k = rng.random()
    if k < 0.15:
        return Fraction(0)
    if k < 0.6:
        return Fraction(rng.randrange(-9999, 10000), 8)
    if k < 0.8:
        return Fraction(rng.randrange(-999999, 1000000))
    return Fraction(rng.randrange(-99, 100), 2 ** rng.randrange(0, 5))


def inexact_val(rng):
    return Fraction(rng.randrange(-10 ** 6, 10 ** 6), rng.choice([3, 7, 10, 13, 1000, 977, 10 ** 9 + 7]))


def index_val(rng, width):
    k = rng.random()
    if k < 0.7:
        return rng.randrange(0, 50)
    if k < 0.85:
        return rng.choice([2 ** 32 - 1, 2 ** 31, 2 ** 16, 65535])
    return rng.randrange(0, 2 ** (8 * width))


# ---------------------------------------------------------------------------------------------
# case generators
# ---------------------------------------------------------------------------------------------

def gen_raw(rng):
    dt, it, dt2, it2 = (rng.choice([4, 8]) for _ in range(4))
    mode = rng.randrange(0, 14)
    rmode = mode if rng.random() < 0.93 else rng.randrange(0, 14)
    nsi = rng.choice([0, 1, 1, 2, 3, 4, 5, 7])
    si = [rng.choice([0, 1, 5, 2 ** 40 + 3, 2 ** 64 - 1, rng.randrange(0, 1000)]) for _ in range(nsi)]
    sdt = [dyadic(rng) for _ in range(rng.choice([0, 0, 1, 2, 3]))]
    ne = rng.choice([0, 1, 1, 2, 3, 4])
    ni = rng.choice([0, 0, 1, 2, 3, 4])

    def size(allow0):
        s = rng.choice([0, 1, 1, 2, 3, 4, 5, 9])
        return s if (allow0 or s > 0) else 1
    els = [[dyadic(rng) for _ in range(size(True))] for _ in range(ne)]
    ixs = [[index_val(rng, min(it, it2)) for _ in range(size(True))] for _ in range(ni)]
    return "raw %d %d %d %d %d %d %s %s %d %s %d %s" % (
        mode, rmode, dt, it, dt2, it2, nl(si), fl(sdt), ne, " ".join(fl(e) for e in els), ni,
        " ".join(nl(x) for x in ixs))


def gen_pattern(rng, r, c, min_entries=0):
    """sparse pattern with empty rows; returns list of sorted column lists"""
    style = rng.choice(["empty-rows", "sparse", "dense", "one", "first-last-empty", "lead2-mid-empty", "lead2-mid-empty"])
    rows = []
    for i in range(r):
        if style == "dense":
            cols = [j for j in range(c) if rng.random() < 0.8]
        elif style == "one":
            cols = []
        else:
            cols = [j for j in range(c) if rng.random() < 0.35]
            if style == "empty-rows" and rng.random() < 0.5:
                cols = []
        rows.append(cols)
    if style == "lead2-mid-empty" and r >= 4 and c > 0:
        # >= 2 leading empty rows, an empty row in the middle, entries behind it (writer row-advance `while`)
        rows = [[j for j in range(c) if rng.random() < 0.6] or [rng.randrange(c)] for _ in range(r)]
        rows[0] = []
        rows[1] = []
        rows[2 + (r - 2) // 2] = [] if r > 4 else rows[2 + (r - 2) // 2]
        if r == 4:
            rows[2] = []
    if style == "first-last-empty" and r > 0:
        rows[0] = []
        rows[-1] = []
    if style == "one" and r > 0 and c > 0:
        rows[rng.randrange(r)] = [rng.randrange(c)]
    while sum(map(len, rows)) < min_entries and r > 0 and c > 0:
        i = rng.randrange(r)
        j = rng.randrange(c)
        if j not in rows[i]:
            rows[i] = sorted(rows[i] + [j])
    return rows


def csr_args(rng, val, r=None, c=None, min_entries=0, variant=0):
    if r is None and c is None and rng.random() < 0.4:
        r, c = rng.choice([(1, 6), (6, 1), (1, 1), (2, 7), (7, 2), (1, 3), (3, 1)])   # tall / wide / 1xN / Nx1
    r = rng.choice([1, 2, 3, 4, 5, 7]) if r is None else r
    c = rng.choice([1, 2, 3, 4, 6]) if c is None else c
    rows = gen_pattern(rng, r, c, min_entries)
    rp = [0]
    ci = []
    for cols in rows:
        ci += cols
        rp.append(len(ci))
    vals = [val(rng) for _ in ci]
    return "%d %d %d %s %s %s" % (r, c, variant, nl(rp), nl(ci), fl(vals))


def kind_args(rng, kind, val, binary, same_dt=True, same_it=True):
    """arguments of one container kind; only inputs on which FEAT is not known to fail (DESIGN.md section 8)"""
    if kind == "dv":
        n = rng.choice([0, 0, 1, 2, 3, 5, 8])
        return fl([val(rng) for _ in range(n)])
    if kind == "dvb":
        n = rng.choice([0, 0, 1, 2, 3, 4])
        return fl([val(rng) for _ in range(2 * n)])
    if kind == "sv":
        size = rng.choice([1, 2, 5, 9, 1500])
        k = rng.randrange(0, min(size, 5) + 1)
        idx = sorted(rng.sample(range(size), k))
        return "%d 1 %s %s" % (size, nl(idx), fl([val(rng) for _ in idx]))
    if kind == "dm":
        if binary and rng.random() < 0.15:
            return "0 0 0"
        r, c = rng.choice([(1, 1), (1, 4), (4, 1), (1, 7), (6, 1), (2, 5), (5, 2), (3, 3), (2, 3), (4, 3), (3, 7)])
        return "%d %d %s" % (r, c, fl([val(rng) for _ in range(r * c)]))
    if kind == "csr":
        if binary:
            k = rng.random()
            if k < 0.12:      # no dimension: array-less matrix
                r, c = rng.choice([(0, 0), (0, 3), (4, 0)])
                return "%d %d 0 %s 0 0" % (r, c, nl([0] * (r + 1)))
            if k < 0.25:   # allocated matrix without entries (zero-size arrays)
                r, c = rng.choice([1, 3, 5]), rng.choice([1, 2, 4])
                return "%d %d 1 %s 0 0" % (r, c, nl([0] * (r + 1)))
            return csr_args(rng, val, min_entries=1)
        if rng.random() < 0.2:   # text: allocated matrix without entries
            r, c = rng.choice([1, 3, 5]), rng.choice([1, 2, 4])
            return "%d %d 1 %s 0 0" % (r, c, nl([0] * (r + 1)))
        return csr_args(rng, val, min_entries=1, variant=1)
    if kind == "bcsr":
        r, c = rng.choice([1, 2, 3, 4, 5, 6]), rng.choice([1, 2, 3])
        rows = gen_pattern(rng, r, c, 1)
        rp, ci = [0], []
        for cols in rows:
            ci += cols
            rp.append(len(ci))
        return "%d %d %s %s %s" % (r, c, nl(rp), nl(ci), fl([val(rng) for _ in range(6 * len(ci))]))
    if kind == "bm":
        r, c = rng.choice([1, 2, 3, 5]), rng.choice([1, 2, 4])
        k = rng.randrange(1, min(r + c - 1, 4) + 1)
        offs = sorted(rng.sample(range(r + c - 1), k))
        return "%d %d %s %s" % (r, c, nl(offs), fl([val(rng) for _ in range(r * k)]))
    if kind == "cscr":
        r, c = rng.choice([1, 2, 4, 6]), rng.choice([1, 2, 3, 5])
        used = sorted(rng.sample(range(r), rng.randrange(1, r + 1)))
        rp, ci = [0], []
        for _ in used:
            cols = sorted(rng.sample(range(c), rng.randrange(1, c + 1)))
            ci += cols
            rp.append(len(ci))
        return "%d %d %s %s %s %s" % (r, c, nl(rp), nl(ci), fl([val(rng) for _ in ci]), nl(used))
    raise ValueError(kind)


KINDS = ["dv", "dvb", "sv", "dm", "csr", "csr", "bcsr", "bm", "cscr"]
TXT = [("dv", "mtx"), ("dv", "exp"), ("dvb", "mtx"), ("dvb", "exp"), ("sv", "mtx"), ("dm", "mtx"), ("csr", "mtx"),
       ("csr", "mtx"), ("bcsr", "mtx")]


def gen_kind(rng):
    kind = rng.choice(KINDS)
    via = 1 if rng.random() < 0.25 else 0
    dt, it, dt2, it2 = (rng.choice([4, 8]) for _ in range(4))
    if via == 1:
        dt2, it2 = 8, 8
    args = kind_args(rng, kind, dyadic, True, dt == dt2, it == it2)
    return "kind %s %d %d %d %d %d %s" % (kind, via, dt, it, dt2, it2, args)


def gen_txt(rng, exact=True):
    kind, mode = rng.choice(TXT)
    dt, it = rng.choice([4, 8]), rng.choice([4, 8])
    val = exact_print_val if exact else inexact_val
    args = kind_args(rng, kind, val, False)
    return "%s %s %s %d %d %s" % ("txt" if exact else "txtr", kind, mode, dt, it, args)


def gen_cp(rng):
    n = rng.choice([1, 1, 2, 2, 3, 4, 5, 6])
    names = set()
    alphabet = "abcXYZ019_-."
    while len(names) < n:
        names.add("".join(rng.choice(alphabet) for _ in range(rng.choice([1, 1, 2, 3, 7, 12]))))
    names = list(names)
    rng.shuffle(names)
    parts = []
    for nm in names:
        kind = rng.choice(["dv", "csr"])
        parts.append("%s %s %s" % (nm, kind, kind_args(rng, kind, dyadic, True)))
    order = list(range(n))
    rng.shuffle(order)
    if rng.random() < 0.3:
        order = order[:rng.randrange(1, n + 1)]
    return "cp %d %s %s" % (n, " ".join(parts), nl(order))


# ---- checkpoints with nearly colliding identifiers (op cpx: names are hex encoded, any bytes) ----------------

def hexname(b):
    if isinstance(b, str):
        b = b.encode("latin-1")
    return b.hex() if b else "-"


def cp_object(i, kind):
    """object number i: contents unique per i, so that restoring a wrong record is observable"""
    if kind == "dv":
        return "dv " + fl([Fraction(100 * (i + 1) + j) for j in range(i + 1)])
    r, c = 2 + i % 3, 2 + (i // 2) % 2
    rp, ci = [0], []
    for row in range(r):
        if (row + i) % 3 != 1:          # an empty row in most matrices
            ci.append((row + i) % c)
        rp.append(len(ci))
    return "csr %d %d 0 %s %s %s" % (r, c, nl(rp), nl(ci), fl([Fraction(1000 * (i + 1) + k, 2) for k in range(len(ci))]))


NAME_FAMILIES = [
    ["u", "U"], ["velocity", "Velocity", "VELOCITY", "velocitY"], ["a", "ab", "abc", "abcd"], ["ab", "a"],
    ["vec_a1", "vec_a2", "vec_b1", "vec_b2", "wec_a1"], ["my vec", "my  vec", "my_vec", "myvec", "my vec "],
    ["x.1", "x-1", "x_1", "x 1", "x1", "x:1"], ["1", "10", "2", "01", "1 "], ["B", "a", "A", "b", "_", "Z"],
    ["sol", "sol.", "sol..", ".sol"], ["p", "P", "pp", "pP", "Pp", "PP"], ["a b", "a", "b", " a", "b "],
    ["\xe4", "a", "\xc4", "A", "\xff", "\x7f"], ["rhs#0", "rhs#1", "rhs#10", "rhs#00"],
    ["x" * 255, "x" * 256, "x" * 257], ["y" * 300 + "a", "y" * 300 + "b", "y" * 300],
    ["L" * 4096, "l" * 4096, "L" * 4095 + "l"], ["k" * 8, "k" * 16, "k" * 7],
]


def cpx_case(names, kinds=None, order=None, indiv=0):
    n = len(names)
    kinds = kinds or [("dv" if i % 2 == 0 else "csr") for i in range(n)]
    parts = ["%s %s" % (hexname(nm), cp_object(i, kinds[i])) for i, nm in enumerate(names)]
    order = list(range(n)) if order is None else order
    return "cpx %d %d %s %s" % (indiv, n, " ".join(parts), nl(order))


def cpx_corpus():
    """deterministic: every family, pairs in both registration orders, every restore order, shared and
    individual restore; plus each family as a whole"""
    import itertools
    out = []
    for fam in NAME_FAMILIES:
        pairs = list(itertools.combinations(fam[:4], 2)) if len(fam[0]) < 100 else [tuple(fam[:2]), (fam[0], fam[-1])]
        for a, b in pairs:
            for names in ((a, b), (b, a)):
                for order in ([0, 1], [1, 0], [0], [1]):
                    for kinds in (["dv", "csr"], ["dv", "dv"]):
                        out.append(cpx_case(list(names), kinds, order, indiv=len(out) % 2))
        k = min(len(fam), 6)
        out.append(cpx_case(fam[:k], None, list(range(k)), 0))
        out.append(cpx_case(list(reversed(fam[:k])), ["csr" if i % 2 == 0 else "dv" for i in range(k)],
                            list(reversed(range(k))), 1))
    return out


def ascii_swap(c):
    return c.upper() if "a" <= c <= "z" else (c.lower() if "A" <= c <= "Z" else c)


def mutate_name(rng, nm):
    """a near collision of nm (never returns nm itself for non-empty nm)"""
    b = bytearray(nm.encode("latin-1"))
    k = rng.randrange(8)
    if k == 0 or not b:
        return (nm + rng.choice("abAB01 ._")).encode("latin-1").decode("latin-1")
    if k == 1 and len(b) > 1:
        return bytes(b[:-1]).decode("latin-1")                      # proper prefix
    if k == 2:
        sw = "".join(ascii_swap(c) for c in nm)
        return sw if sw != nm else nm + "x"
    if k == 3:
        i = rng.randrange(len(b))
        b[i] = (b[i] + rng.choice([1, 2, 255, 32, 128])) % 256     # one character differs, same length
        if b[i] in (0,):
            b[i] = 1
        return bytes(b).decode("latin-1")
    if k == 4:
        i = rng.randrange(len(b) + 1)
        return (nm[:i] + rng.choice(" ._-#") + nm[i:])
    if k == 5 and len(b) > 1:
        i = rng.randrange(len(b) - 1)
        b[i], b[i + 1] = b[i + 1], b[i]
        r = bytes(b).decode("latin-1")
        return r if r != nm else nm + "~"
    if k == 6:
        return nm + nm
    i = rng.randrange(len(b))
    c = chr(b[i])
    return nm[:i] + (ascii_swap(c) if ascii_swap(c) != c else ("Q" if c != "Q" else "q")) + nm[i + 1:]


def gen_cpx(rng):
    n = rng.choice([2, 2, 3, 3, 4, 5, 6])
    k = rng.random()
    if k < 0.35:
        fam = rng.choice(NAME_FAMILIES)
        names = rng.sample(fam, min(n, len(fam)))
    else:
        if k < 0.5:
            base = rng.choice(["x", "y", "Ab"]) * rng.choice([100, 255, 256, 1000, 5000])
        elif k < 0.8:
            base = "".join(rng.choice("abcXYZ019_-. #") for _ in range(rng.choice([1, 2, 3, 5, 8, 9, 16, 17])))
        else:
            base = "".join(chr(rng.randrange(1, 256)) for _ in range(rng.choice([1, 2, 8, 9])))
        names = [base]
        while len(names) < n:
            cand = mutate_name(rng, rng.choice(names))
            if cand not in names and cand != "":
                names.append(cand)
    rng.shuffle(names)
    n = len(names)
    kinds = [rng.choice(["dv", "csr"]) for _ in range(n)]
    style = rng.random()
    if style < 0.5:
        order = list(range(n))
        rng.shuffle(order)
    elif style < 0.75:
        order = [rng.randrange(n)]                              # one object alone
    else:
        order = [rng.randrange(n) for _ in range(rng.randrange(1, 2 * n + 1))]   # repeats, subsets
    return cpx_case(names, kinds, order, indiv=rng.choice([0, 0, 1]))


def width_corpus():
    """deterministic: type-width change in both directions (float/u64 <-> double/u32 and the other mixed pairs),
    element counts 0..5 so that the DT2 -> IT2 re-basing needs its ceil-division padding (file types float/u64
    with an odd number of DT2 words) and does not (even)"""
    out = []
    pairs = [((4, 8), (8, 4)), ((8, 4), (4, 8)), ((4, 4), (8, 8)), ((8, 8), (4, 4)), ((8, 8), (4, 8)),
             ((4, 4), (4, 8)), ((8, 4), (8, 8)), ((4, 8), (8, 8))]
    for (dt, it), (dt2, it2) in pairs:
        for n in range(0, 6):
            vals = [Fraction(2 * k + 1, 4) for k in range(n)]
            idx = [3 * k + 1 for k in range(n)]
            # raw: one scalar_dt word + one elements array of n words, two index arrays; also no scalar_dt
            for nsd in (0, 1):
                if n > 0:
                    out.append("raw 4 4 %d %d %d %d %s %s 1 %s 2 %s %s" % (
                        dt, it, dt2, it2, nl([n * n, n, n, n]), fl([Fraction(5, 8)] * nsd), fl(vals), nl(idx),
                        nl(list(range(n + 1)))))
            out.append("kind dv 0 %d %d %d %d %s" % (dt, it, dt2, it2, fl(vals)))
            if n > 0:
                out.append("kind sv 0 %d %d %d %d %d 1 %s %s" % (dt, it, dt2, it2, 20, nl(idx), fl(vals)))
                rp = [0] + [min(k, n) for k in range(1, n + 1)] + [n, n]      # n rows with one entry, two empty rows
                out.append("kind csr 0 %d %d %d %d %d %d 0 %s %s %s" % (
                    dt, it, dt2, it2, n + 2, 7, nl(rp), nl([k % 7 for k in range(n)]), fl(vals)))
                out.append("kind cscr 0 %d %d %d %d %d %d %s %s %s %s" % (
                    dt, it, dt2, it2, 2 * n, 7, nl(list(range(n + 1))), nl([k % 7 for k in range(n)]), fl(vals),
                    nl([2 * k for k in range(n)])))
                out.append("kind bm 0 %d %d %d %d %d %d %s %s" % (dt, it, dt2, it2, n, 3, nl([n]), fl(vals)))
            if n % 2 == 0:
                out.append("kind dvb 0 %d %d %d %d %s" % (dt, it, dt2, it2, fl(vals)))
    return out


def gen_dfio(rng):
    def blob():
        n = rng.choice([0, 0, 1, 7, 8, 9, 39, 40, 41, 100, 1000])
        return bytes(rng.randrange(256) for _ in range(n))
    return "dfio %s %s" % (hexname(blob()), hexname(blob()))


def shape_corpus():
    """deterministic text-mode cases on rectangular shapes: tall, wide, 1xN, Nx1, 1x1, square; all values distinct
    (a wrong row stride or a transposed loop changes the file), every data/index width"""
    out = []
    shapes = [(1, 1), (1, 5), (5, 1), (2, 7), (7, 2), (3, 4), (4, 3), (3, 3), (1, 2), (2, 1), (6, 5)]
    for k, (r, c) in enumerate(shapes):
        dt, it = [(8, 8), (4, 4), (8, 4), (4, 8)][k % 4]
        vals = [Fraction(8 * (i * c + j) + 1, 8) for i in range(r) for j in range(c)]
        out.append("txt dm mtx %d %d %d %d %s" % (dt, it, r, c, fl(vals)))
        # CSR: full, one entry per row on a moving diagonal, first/last row empty, entry-free (allocated)
        pats = [[list(range(c)) for _ in range(r)], [[(i * 3 + 1) % c] for i in range(r)],
                [([] if i in (0, r - 1) else [j for j in range(c) if (i + j) % 2 == 0]) for i in range(r)]]
        for rows in pats:
            rp, ci = [0], []
            for cols in rows:
                ci += cols
                rp.append(len(ci))
            v = [Fraction(4 * q + 3, 4) for q in range(len(ci))]
            variant = 1
            out.append("txt csr mtx %d %d %d %d %d %s %s %s" % (dt, it, r, c, variant, nl(rp), nl(ci), fl(v)))
            if ci:
                out.append("kind csr 1 %d %d 8 8 %d %d 0 %s %s %s" % (dt, it, r, c, nl(rp), nl(ci), fl(v)))
        out.append("txt dv mtx %d %d %s" % (dt, it, fl(vals)))
        out.append("txt dv exp %d %d %s" % (dt, it, fl(vals)))
        if len(vals) % 2 == 0:
            out.append("txt dvb mtx %d %d %s" % (dt, it, fl(vals)))
            out.append("txt dvb exp %d %d %s" % (dt, it, fl(vals)))
        idx = list(range(0, r * c, 2))
        out.append("txt sv mtx %d %d %d 1 %s %s" % (dt, it, r * c + 3, nl(idx), fl(vals[:len(idx)])))
    return out


def gen_cpmiss(rng):
    """restore an identifier that is NOT registered but nearly collides with a registered one"""
    n = rng.choice([1, 2, 3, 4])
    base = "".join(rng.choice("abcXYZ019_-. #") for _ in range(rng.choice([1, 2, 3, 8, 9])))
    names = [base]
    while len(names) < n + 1:
        cand = mutate_name(rng, rng.choice(names))
        if cand not in names and cand != "":
            names.append(cand)
    rng.shuffle(names)
    missing, names = names[0], names[1:]
    parts = ["%s %s" % (hexname(nm), cp_object(i, rng.choice(["dv", "csr"]))) for i, nm in enumerate(names)]
    return "cpmiss %s %d %s" % (hexname(missing), n, " ".join(parts))


def gen_cpdup(rng):
    """a checkpoint in which one identifier is registered twice: add_object must reject it"""
    n = rng.choice([2, 3, 4])
    fam = rng.choice(NAME_FAMILIES)
    names = [rng.choice(fam) for _ in range(n)]
    names[rng.randrange(1, n)] = names[0]
    return cpx_case(names, None, [0], indiv=0)


# ---- boundary sizes: sizes / indices / counts around 127|128, 255|256, 1000|1001 (SparseVector allocation step
# min(size, 1000)), multiples of 4 (MemoryPool rounds allocations up to 4 elements), multiples of 8/16 (serialisation
# padding), 64 KiB blobs, 2^15/2^16 rows; the interesting content sits at the high end ------------------------------

def _csr_high(n, c, dt, it, op="txt csr mtx"):
    """n rows: two leading empty rows, an empty row in the middle, entries only in the last rows / highest columns"""
    rows = [[] for _ in range(n)]
    for i in range(max(2, n - 4), n):
        rows[i] = sorted({c - 1, (i * 7) % c, max(0, c - 2)})
    if n >= 8:
        rows[n // 2 + 1] = [c - 1]
        rows[n // 2] = []
    rp, ci = [0], []
    for cols in rows:
        ci += cols
        rp.append(len(ci))
    vals = [Fraction(2 * k + 1, 8) for k in range(len(ci))]
    if op.startswith("txt"):
        return "%s %d %d %d %d 1 %s %s %s" % (op, dt, it, n, c, nl(rp), nl(ci), fl(vals))
    return "%d %d 0 %s %s %s" % (n, c, nl(rp), nl(ci), fl(vals))


def boundary_cases(tier):
    sizes = [3, 4, 5, 7, 8, 9, 15, 16, 17, 31, 32, 33, 127, 128, 129, 255, 256, 257, 1000, 1001]
    big = [32767, 32768, 65535, 65536, 65537] if tier == "thorough" else []
    out = []
    for k, n in enumerate(sizes + big):
        dt, it = [(8, 8), (4, 4), (8, 4), (4, 8)][k % 4]
        dt2, it2 = [(4, 8), (8, 4), (4, 4), (8, 8)][k % 4]
        vals = [Fraction(0)] * (n - 3) + [Fraction(2 * n + 1, 4), Fraction(-n), Fraction(n, 8)] if n >= 3 else []
        # dense vectors: binary at changed widths (file types float/u64: padding when n is odd), both text modes
        out.append("kind dv 0 %d %d %d %d %s" % (dt, it, dt2, it2, fl(vals)))
        out.append("kind dv 1 %d %d 8 8 %s" % (dt, it, fl(vals)))
        out.append("txt dv mtx %d %d %s" % (dt, it, fl(vals)))
        out.append("txt dv exp %d %d %s" % (dt, it, fl(vals)))
        if n % 2 == 0:
            out.append("txt dvb mtx %d %d %s" % (dt, it, fl(vals)))
        # sparse vector of size n (allocation step min(n, 1000)), entries at the highest indices
        idx = [n - 3, n - 2, n - 1]
        out.append("kind sv 0 %d %d %d %d %d 1 %s %s" % (dt, it, dt2, it2, n, nl(idx), fl(vals[-3:])))
        out.append("txt sv mtx %d %d %d 1 %s %s" % (dt, it, n, nl(idx), fl(vals[-3:])))
        # CSR: n x n and n x 3, leading / middle empty rows, entries in the last rows and the last column
        out.append(_csr_high(n, n, dt, it))
        out.append(_csr_high(n, 3, dt, it))
        out.append("kind csr 0 %d %d %d %d %s" % (dt, it, dt2, it2, _csr_high(n, n, dt, it, op="")))
        # dense matrix 1 x n and n x 1
        if n <= 1001:
            out.append("txt dm mtx %d %d 1 %d %s" % (dt, it, n, fl(vals)))
            out.append("txt dm mtx %d %d %d 1 %s" % (dt, it, n, fl(vals)))
        # raw container: array sizes n and n+1 next to each other, index values at the top of the 32-bit range
        if n <= 1001:
            ix = [0] * (n - 1) + [2 ** 32 - 1]
            out.append("raw 4 4 %d %d %d %d %s 1 5/8 2 %s %s 2 %s %s" % (
                dt, it, dt2, it2, nl([n, 2 ** 40 + n]), fl(vals), fl(vals + [Fraction(1, 2)]), nl(ix), nl(ix + [7])))
    # blobs around 64 KiB: checkpoint of a vector with 8190..8193 doubles (65.5 KiB) next to a small object with a
    # nearly equal name; DistFileIO buffers of 65535/65536/65537 bytes
    for n in (8190, 8192, 8193):
        big_v = [Fraction(0)] * (n - 1) + [Fraction(n, 2)]
        out.append("cpx 0 2 %s dv %s %s dv 1 7/1 2 1 0" % (hexname("u"), fl(big_v), hexname("U")))
    for n in (65535, 65536, 65537):
        blob = bytes((i * 131 + n) % 256 for i in range(n))
        out.append("dfio %s %s" % (hexname(b"\x01\x02"), hexname(blob)))
    # three-digit decimal exponents (doubles only; judged to printed precision, not compared with the model)
    out.append("txtr dv mtx 8 8 %s" % fl([Fraction(2) ** 400, Fraction(-1, 2 ** 400), Fraction(3, 2 ** 1000), Fraction(5 * 2 ** 900)]))
    out.append("txtr dv exp 8 8 %s" % fl([Fraction(2) ** 333, Fraction(1, 2 ** 333)]))
    return out


def boundary_size(case):
    """the governing size of a boundary case (for the histogram and the model filter)"""
    t = case.split()
    try:
        if t[0] == "kind":
            return int(t[7]) if t[1] in ("dv", "sv", "csr") else 0
        if t[0] in ("txt", "txtr"):
            return int(t[5])  if t[1] != "dm" else int(t[5]) * int(t[6])
        if t[0] == "raw":
            return int(t[8])
        if t[0] == "dfio":
            return len(t[2]) // 2
        if t[0] == "cpx":
            return int(t[5])
    except (ValueError, IndexError):
        pass
    return 0


def describe_boundary(case):
    t = case.split()
    return ["size:%d" % boundary_size(case), "op:%s %s" % (t[0], t[1] if t[0] in ("kind", "txt", "txtr") else "")]


def boundary_model_filter(case):
    """the list-based Lean model is quadratic in some sizes: beyond 4096 only the linear paths are compared"""
    t = case.split()
    if t[0] == "txtr":
        return False
    if t[0] in ("cpx", "dfio"):
        return True
    n = boundary_size(case)
    if n <= 4096:
        return True
    return t[0] == "txt" and t[1] in ("dv", "dvb")


# ---- several containers back to back in ONE stream / file (read_from(fm_binary, std::istream&) at non-zero offsets) ---

MULTI_KINDS = ["dv", "dvb", "sv", "dm", "csr", "bcsr", "bm", "cscr"]


def multi_obj(rng, kind, dt):
    # in-memory types dt/dt (double/u64 or float/u32); the file types are always double/u64, so nothing is lost
    return "%s %d %s" % (kind, dt, kind_args(rng, kind, dyadic, True, dt == 8, dt == 8))


def gen_multi(rng):
    k = rng.choice([2, 2, 3, 4])
    njunk = rng.choice([0, 0, 1, 7, 8, 13, 100])
    style = rng.random()
    objs = []
    if style < 0.35:
        # equal record sizes, different contents: a reader that re-reads offset 0 stays *silent* here
        kind = rng.choice(["dv", "dm", "csr", "sv"])
        dt = rng.choice([4, 8])
        if kind == "dv":
            n = rng.choice([1, 2, 3, 5])
            objs = ["dv %d %s" % (dt, fl([Fraction(100 * i + j + 1, 2) for j in range(n)])) for i in range(k)]
        elif kind == "dm":
            objs = ["dm %d 2 3 %s" % (dt, fl([Fraction(10 * i + j, 4) for j in range(6)])) for i in range(k)]
        elif kind == "sv":
            objs = ["sv %d 9 1 %s %s" % (dt, nl([i, i + 3, 8]), fl([Fraction(i + 1), Fraction(-i - 1, 2), Fraction(7 * i + 1, 8)]))
                    for i in range(k)]
        else:
            objs = ["csr %d 3 3 0 %s %s %s" % (dt, nl([0, 1, 1, 2]), nl([i % 3, (i + 1) % 3]), fl([Fraction(i + 1), Fraction(2 * i + 1, 2)]))
                    for i in range(k)]
    else:
        for _ in range(k):
            objs.append(multi_obj(rng, rng.choice(MULTI_KINDS), rng.choice([4, 8])))
    return "multi %d %d %d %s" % (rng.choice([0, 0, 1]), njunk, k, " ".join(objs))


def multi_corpus():
    out = []
    a = "dv 8 2 1/1 2/1"
    b = "dv 8 2 3/1 4/1"
    c = "csr 8 3 3 0 4 0 1 1 2 2 0 2 2 1/1 2/1"
    d = "sv 4 5 1 2 1 3 2 1/2 3/2"
    e = "dm 8 2 2 4 1/1 2/1 3/1 4/1"
    f = "dvb 4 4 1/1 2/1 3/1 4/1"
    g = "bcsr 8 2 2 3 0 1 2 2 0 1 12 1/1 2/1 3/1 4/1 5/1 6/1 7/1 8/1 9/1 10/1 11/1 12/1"
    h = "bm 8 3 3 2 1 2 6 1/1 2/1 3/1 4/1 5/1 6/1"
    i = "cscr 8 3 3 2 0 1 1 2 1 1/1 1 1"
    z = "dv 8 0"
    for use_file in (0, 1):
        for njunk in (0, 5):
            out.append("multi %d %d 2 %s %s" % (use_file, njunk, a, b))          # equal sizes, different contents
            out.append("multi %d %d 2 %s %s" % (use_file, njunk, b, a))
            out.append("multi %d %d 3 %s %s %s" % (use_file, njunk, a, c, b))    # unequal sizes, mixed kinds
            out.append("multi %d %d 4 %s %s %s %s" % (use_file, njunk, c, d, e, a))
            out.append("multi %d %d 4 %s %s %s %s" % (use_file, njunk, f, g, h, i))
            out.append("multi %d %d 3 %s %s %s" % (use_file, njunk, z, a, z))    # length-0 vector first and last
            out.append("multi %d %d 2 %s %s" % (use_file, njunk, c, c.replace("1/1 2/1", "5/1 7/2")))
    return out


def gen_cases(rng, count):
    cases = []
    for _ in range(count):
        k = rng.random()
        if k < 0.28:
            cases.append(gen_raw(rng))
        elif k < 0.55:
            cases.append(gen_kind(rng))
        elif k < 0.73:
            cases.append(gen_txt(rng, True))
        elif k < 0.80:
            cases.append(gen_txt(rng, False))
        elif k < 0.81:
            cases.append(gen_dfio(rng))
        elif k < 0.83:
            cases.append(gen_multi(rng))
        elif k < 0.84:
            cases.append(gen_cpmiss(rng))
        elif k < 0.85:
            cases.append(gen_cpdup(rng))
        elif k < 0.87:
            cases.append(gen_cp(rng))
        else:
            cases.append(gen_cpx(rng))
    return cases


CORPUS = [
    # the MatrixMarket reader defect fixed by c93b98486 (empty middle row), every kind with empty rows / no entries
    "txt csr mtx 8 8 3 3 1 4 0 1 1 2 2 0 2 2 1/1 2/1",
    "txt csr mtx 8 4 3 3 1 4 0 0 0 1 1 1 1 5/1",
    "txt csr mtx 4 8 3 3 1 4 0 1 1 1 1 2 1 7/8",
    "txt csr mtx 8 8 3 3 1 4 0 0 0 0 0 0",
    "kind csr 0 8 8 8 8 3 3 0 4 0 1 1 2 2 0 2 2 1/1 2/1",
    "kind csr 0 8 8 4 4 3 3 1 4 0 0 0 0 0 0",
    "kind csr 1 4 4 8 8 0 0 0 1 0 0 0",
    "kind dv 0 8 8 8 8 0", "kind dv 1 4 4 8 8 0", "kind dvb 0 8 8 4 8 0", "kind sv 0 8 8 8 8 5 1 0 0",
    "kind dm 0 8 8 8 8 0 0 0", "txt dv mtx 8 8 0", "txt dvb mtx 4 4 0",
    "raw 13 13 8 8 4 4 0 0 0 0", "raw 1 1 8 8 4 4 1 0 0 2 0 0 2 0 0",
    "raw 3 3 4 8 8 4 3 1 2 3 1 1/2 1 1 3/4 1 1 7",
    "cp 2 b dv 2 1/1 2/1 a csr 2 2 0 3 0 1 1 1 1 1 5/1 2 1 0",
    "cp 1 a dv 0 1 0",
    "cpmiss 55 1 75 dv 1 1/1", "cpmiss 61 2 6162 dv 1 1/1 41 dv 1 2/1", "cpmiss 6162 1 61 dv 1 1/1",
    "cpmiss - 1 61 dv 1 1/1", "cpx 0 2 61 dv 1 1/1 61 dv 1 2/1 1 0", "cpx 0 3 61 dv 1 1/1 41 dv 1 2/1 61 dv 1 3/1 1 1",
    "txt bcsr mtx 8 8 2 2 3 0 1 2 2 0 1 12 1/1 2/1 3/1 4/1 5/1 6/1 7/1 8/1 9/1 10/1 11/1 12/1",
    "txt bcsr mtx 4 4 5 2 6 0 0 0 1 1 2 2 1 0 12 1/8 2/1 3/1 4/1 5/1 6/1 7/1 8/1 9/1 10/1 11/1 25/2",
    "txt bcsr mtx 8 4 1 3 2 0 2 2 0 2 12 1/1 0/1 3/1 4/1 5/1 6/1 7/1 8/1 0/1 10/1 11/1 12/1",
    "dfio - -", "dfio 00 -", "dfio - ff", "dfio 0102030405060708 464541543343444600",
] + cpx_corpus() + width_corpus() + shape_corpus() + multi_corpus()

# Inputs on which the property FAILS on the current tree (genuine FEAT defects, see KNOWN_FINDINGS.json and
# DESIGN.md section 8). They are executed and judged like every other input; each is matched against an *open*
# entry of KNOWN_FINDINGS.json by its signature ("c05-edge:<finding>") and then printed as KNOWN-FINDING instead
# of failing the run. The flag says whether the Lean model reproduces the outcome (then model and
# implementation are compared as well).
KNOWN_EDGE = [
    ("kind csr 0 8 8 8 8 3 3 0 4 0 0 0 0 0 0", False, "F5"),  # CSR(3,3): operator== dereferences a null row_ptr
    ("txt csr mtx 8 8 3 3 0 4 0 0 0 0 0 0", True, "F5"),    # CSR(3,3): write_out(fm_mtx) dereferences a null row_ptr
    ("txt csr mtx 8 8 0 0 0 1 0 0 0", False, "F5"),         # CSR(0,0) text round trip: operator== crashes
    ("txt dm mtx 8 8 0 0 0", True, "F6"),                   # empty DenseMatrix: read_from(fm_mtx) aborts
    ("kind bcsr 0 8 8 8 8 2 2 3 0 0 0 0 0", False, "F8"),   # entry-less BCSR / CSCR binary round trip
    ("kind cscr 0 8 8 8 8 3 3 1 0 0 0 0", False, "F8"),
]
KNOWN_EDGE_MODEL = {c for c, m, _ in KNOWN_EDGE if m}
KNOWN_EDGE_SIG = {c: "c05-edge:" + f for c, _, f in KNOWN_EDGE}
# fixed FEAT defects (zero-size arrays: increase_memory(nullptr); empty checkpoint / last byte): regression inputs
FIXED_EDGE = [
    "raw 1 1 8 8 8 8 1 0 0 1 0 0",
    "raw 1 1 8 8 4 8 1 0 0 0 1 0",
    "kind csr 0 8 8 8 8 3 3 1 4 0 0 0 0 0 0",
    "kind bm 0 8 8 8 8 3 3 0 0",
    "cp 0 0",
    # F1/F3/F4 (fixed 80716f0b5, 35c268b8a, 977a6be87): empty vectors through the text modes
    "txt dv exp 8 8 0", "txt dv exp 4 4 0", "txt dvb exp 8 8 0", "txt dvb exp 4 8 0",
    "txt sv mtx 8 8 5 1 0 0", "txt sv mtx 4 4 1 1 0 0", "txt sv mtx 8 4 1500 1 0 0",
]


# ---------------------------------------------------------------------------------------------
# parsing of harness output
# ---------------------------------------------------------------------------------------------

class Tk:
    def __init__(self, s):
        self.t = s.split()
        self.p = 0

    def done(self):
        return self.p >= len(self.t)

    def peek(self):
        return self.t[self.p] if self.p < len(self.t) else None

    def tok(self):
        self.p += 1
        return self.t[self.p - 1]

    def nat(self):
        return int(self.tok())

    def lst(self):
        n = self.nat()
        return [self.nat() for _ in range(n)]

    def flst(self):
        n = self.nat()
        return [vlib.parse_frac(self.tok()) for _ in range(n)]

    def dump(self):
        assert self.tok() == "D"
        si = self.lst()
        sdt = self.flst()
        els = [self.flst() for _ in range(self.nat())]
        ixs = [self.lst() for _ in range(self.nat())]
        return {"si": si, "sdt": sdt, "els": els, "ixs": ixs}


def is_abnormal(out):
    return out.split(":")[0] in ("ABORT", "EXC", "TIMEOUT", "SIGNAL", "SANITIZER", "EXIT") or out in ("HANG", "BAD-OP")


def representable(x, width):
    """is the rational x a float (width 4) / double (width 8)?"""
    try:
        f = float(x)
    except OverflowError:
        return False
    if Fraction(f) != x:
        return False
    if width == 4:
        try:
            return struct.unpack("f", struct.pack("f", f))[0] == f
        except OverflowError:
            return False
    return True


def to_float_type(x, width):
    f = float(x)
    if width == 4:
        f = struct.unpack("f", struct.pack("f", f))[0]
    return Fraction(f)


def unescape(t):
    return "" if t == "-" else t.replace("_", " ").replace("|", "\n")


def check_bytes_header(hexs, what):
    b = bytes.fromhex("" if hexs == "-" else hexs)
    if len(b) < 88:
        return "%s: serialised buffer shorter than its header" % what
    if struct.unpack("<Q", b[:8])[0] != len(b):
        return "%s: size word %d differs from buffer length %d" % (what, struct.unpack("<Q", b[:8])[0], len(b))
    return None


def expected_layout(kind, a):
    """independent raw layout of the two kinds used in checkpoints (dv, csr)"""
    if kind == "dv":
        v = a.flst()
        return {"si": [len(v)], "sdt": [], "els": [v] if v else [], "ixs": []}
    r, c, variant = a.nat(), a.nat(), a.nat()
    rp, ci, v = a.lst(), a.lst(), a.flst()
    if not ci:
        if variant == 0 or r == 0 or c == 0:
            return {"si": [r * c, r, c, 0], "sdt": [], "els": [], "ixs": []}
        return {"si": [r * c, r, c, 0], "sdt": [], "els": [[]], "ixs": [[], [0] * (r + 1)]}
    return {"si": [r * c, r, c, len(v)], "sdt": [], "els": [v], "ixs": [ci, rp]}


def skip_kind_args(kind, a):
    """returns the value list of the kind (to check that the dump really contains the input)"""
    if kind in ("dv", "dvb"):
        return a.flst()
    if kind == "sv":
        a.nat(), a.nat(), a.lst()
        return a.flst()
    if kind == "dm":
        a.nat(), a.nat()
        return a.flst()
    if kind == "csr":
        a.nat(), a.nat(), a.nat(), a.lst(), a.lst()
        return a.flst()
    if kind == "bcsr":
        a.nat(), a.nat(), a.lst(), a.lst()
        return a.flst()
    if kind == "bm":
        a.nat(), a.nat(), a.lst()
        return a.flst()
    if kind == "cscr":
        a.nat(), a.nat(), a.lst(), a.lst()
        v = a.flst()
        a.lst()
        return v
    raise ValueError(kind)


def text_entries(kind, mode, text):
    """independent reading of the written text: (dims, {position: value}) - the mathematical content of the file"""
    lines = text.split("\n")
    if lines and lines[-1] == "":
        lines.pop()
    if mode == "exp":
        return (len(lines),), {i: Fraction(float(l)) for i, l in enumerate(lines)}
    body = [l for l in lines[1:] if not l.lstrip().startswith("%")]
    head = body[0].split()
    if kind in ("dv", "dvb"):
        return (int(head[0]),), {i: Fraction(float(l)) for i, l in enumerate(body[1:])}
    if kind == "dm":
        return (int(head[0]), int(head[1])), {i: Fraction(float(l)) for i, l in enumerate(body[1:])}
    ents = {}
    for l in body[1:]:
        i, j, v = l.split()
        if (int(i), int(j)) in ents:
            raise ValueError("duplicate coordinate")
        ents[(int(i), int(j))] = Fraction(float(v))
    return (int(head[0]), int(head[1]), int(head[2])), ents


def input_entries(kind, a):
    """the mathematical content of the input container in the same form as text_entries"""
    if kind in ("dv", "dvb"):
        v = a.flst()
        return (len(v),), dict(enumerate(v))
    if kind == "sv":
        n, _, idx = a.nat(), a.nat(), a.lst()
        v = a.flst()
        return (n, 1, len(v)), {(i + 1, 1): x for i, x in zip(idx, v)}
    if kind == "dm":
        r, c = a.nat(), a.nat()
        v = a.flst()
        return (r, c), dict(enumerate(v))
    if kind == "bcsr":        # block height 2, block width 3: every entry of every stored block
        r, c = a.nat(), a.nat()
        rp, ci, v = a.lst(), a.lst(), a.flst()
        ents = {}
        for i in range(r):
            for k in range(rp[i], rp[i + 1]):
                for y in range(2):
                    for x in range(3):
                        ents[(2 * i + y + 1, 3 * ci[k] + x + 1)] = v[6 * k + 3 * y + x]
        return (2 * r, 3 * c, len(v)), ents
    r, c, _ = a.nat(), a.nat(), a.nat()
    rp, ci, v = a.lst(), a.lst(), a.flst()
    ents = {}
    for i in range(r):
        for k in range(rp[i], rp[i + 1]):
            ents[(i + 1, ci[k] + 1)] = v[k]
    return (r, c, len(v)), ents


def close_enough(a, b):
    return abs(a - b) <= Fraction(6, 10 ** 7) * max(abs(a), abs(b))


# ---------------------------------------------------------------------------------------------
# the oracle: judges the implementation output against the property statement
# ---------------------------------------------------------------------------------------------

def oracle(case, out):
    a = Tk(case)
    op = a.tok()
    try:
        if op == "raw":
            wmode, rmode = a.nat(), a.nat()
            dt, it, dt2, it2 = a.nat(), a.nat(), a.nat(), a.nat()
            exp = {"si": a.lst(), "sdt": a.flst()}
            exp["els"] = [a.flst() for _ in range(a.nat())]
            exp["ixs"] = [a.lst() for _ in range(a.nat())]
            if wmode != rmode:
                return None if out.startswith("ABORT") else "reading with the wrong file mode was not rejected"
            if is_abnormal(out):
                return "serialise/deserialise of a valid container ended with " + out
            o = Tk(out)
            assert o.tok() == "S"
            gs = o.nat()
            assert o.tok() == "B"
            hexs = o.tok()
            e = check_bytes_header(hexs, "raw")
            if e:
                return e
            if (len(hexs) // 2 if hexs != "-" else 0) > gs:
                return "serialised %d bytes, more than _serialized_size() = %d" % (len(hexs) // 2, gs)
            got = o.dump()
            # representable values must come back bit-identical
            vals_ok = all(representable(x, min(dt, dt2)) for l in exp["els"] + [exp["sdt"]] for x in l)
            idx_ok = all(x < 2 ** (8 * min(it, it2)) for l in exp["ixs"] for x in l)
            if vals_ok and idx_ok and got != exp:
                return "read-back container differs from the original: %s vs %s" % (got, exp)
            return None
        if op == "kind":
            kind, via = a.tok(), a.nat()
            dt, it, dt2, it2 = a.nat(), a.nat(), a.nat(), a.nat()
            vals = skip_kind_args(kind, a)
            if is_abnormal(out):
                return "binary round trip of a valid %s ended with %s" % (kind, out)
            o = Tk(out)
            assert o.tok() == "L"
            orig = o.dump()
            assert o.tok() == "B"
            e = check_bytes_header(o.tok(), kind)
            if e:
                return e
            got = o.dump()
            assert o.tok() == "EQ"
            eq = o.nat()
            if orig["els"] and orig["els"][0] != vals:
                return "harness container does not hold the input values"
            if not orig["els"] and vals:
                return "harness container lost the input values"
            if got != orig:
                return "%s read back differs from the original: %s vs %s" % (kind, got, orig)
            if eq != 1:
                return "operator== reports the read-back %s as different" % kind
            return None
        if op in ("txt", "txtr"):
            kind, mode = a.tok(), a.tok()
            dt, it = a.nat(), a.nat()
            dims, ents = input_entries(kind, a)
            if is_abnormal(out):
                return "text round trip (%s, %s) of a valid container ended with %s" % (kind, mode, out)
            o = Tk(out)
            assert o.tok() == "L"
            orig = o.dump()
            assert o.tok() == "T"
            text = unescape(o.tok())
            got = o.dump()
            if kind == "bcsr":
                eq = 1      # write-only format: read back as the scalar CSR matrix, judged against `orig` below
                keys = sorted(ents)
                rp = [0] * (dims[0] + 1)
                for (i, j) in keys:
                    rp[i] += 1
                for i in range(dims[0]):
                    rp[i + 1] += rp[i]
                orig = {"si": [dims[0] * dims[1], dims[0], dims[1], len(keys)], "sdt": [],
                        "els": [[to_float_type(ents[k], dt) for k in keys]], "ixs": [[j - 1 for (_, j) in keys], rp]}
            else:
                assert o.tok() == "EQ"
                eq = o.nat()
            # the written file has the dimensions and exactly the pattern of the container ...
            tdims, tents = text_entries(kind, mode, text)
            if kind == "dm":
                tdims = tdims[:2]
            if mode == "mtx" and tdims != dims:
                return "file header %s, container dimensions %s" % (tdims, dims)
            if set(tents) != set(ents):
                return "pattern written to the file differs from the container's pattern"
            for k in ents:
                want = to_float_type(ents[k], dt)
                if op == "txt" and tents[k] != want:
                    return "value at %s written as %s, stored %s" % (k, tents[k], want)
                if op == "txtr" and not close_enough(tents[k], want):
                    return "value at %s written as %s, stored %s (beyond the printed precision)" % (k, tents[k], want)
            # ... and the read-back container has identical dimensions and pattern, values to printed precision
            if got["si"] != orig["si"] or got["ixs"] != orig["ixs"]:
                return "dimensions/pattern changed: %s vs %s" % (got, orig)
            if [len(x) for x in got["els"]] != [len(x) for x in orig["els"]]:
                return "array sizes changed: %s vs %s" % (got, orig)
            for x, y in zip(got["els"], orig["els"]):
                for u, v in zip(x, y):
                    if op == "txt" and u != v:
                        return "value %s read back as %s" % (v, u)
                    if op == "txtr" and not close_enough(u, v):
                        return "value %s read back as %s (beyond the printed precision)" % (v, u)
            if op == "txt" and eq != 1:
                return "operator== reports the read-back %s as different" % kind
            return None
        if op == "multi":
            a.nat()
            njunk, k = a.nat(), a.nat()
            objs = []
            for _ in range(k):
                kind, dt = a.tok(), a.nat()
                objs.append((kind, dt, skip_kind_args(kind, a)))
            if is_abnormal(out):
                return "reading %d containers back from one stream ended with %s" % (k, out)
            o = Tk(out)
            assert o.tok() == "B"
            hexs = o.tok()
            b = bytes.fromhex("" if hexs == "-" else hexs)
            # independent framing: the stream is junk + k records, each as long as its own size word says
            pos, ends = njunk, []
            for _ in range(k):
                if pos + 8 > len(b):
                    return "stream too short for %d records" % k
                pos += struct.unpack("<Q", b[pos:pos + 8])[0]
                ends.append(pos)
            if pos != len(b):
                return "records cover %d of %d stream bytes" % (pos, len(b))
            for i, (kind, dt, vals) in enumerate(objs):
                assert o.tok() == "P"
                p = o.nat()
                got = o.dump()
                assert o.tok() == "EQ"
                eq = o.nat()
                if p != ends[i]:
                    return "after object %d the stream is at %d, its record ends at %d" % (i, p, ends[i])
                flat = [x for l in got["els"] for x in l]
                if flat != vals:
                    return "object %d (%s) read back with the values %s, written %s" % (i, kind, flat[:8], vals[:8])
                if eq != 1:
                    return "operator== reports object %d (%s) read from offset %d as different" % (
                        i, kind, ends[i - 1] if i else njunk)
            return None
        if op == "cpmiss":
            a.tok()
            n = a.nat()
            names = []
            for _ in range(n):
                nm = a.tok()
                names.append(nm)
                expected_layout(a.tok(), a)
            if len(set(names)) != n:
                return None if out.startswith("ABORT") else "duplicate identifier was not rejected"
            return None if out.startswith("ABORT") else \
                "restoring an identifier that was never registered was not reported: " + out[:80]
        if op == "dfio":
            sh, bf = (bytes.fromhex("" if x == "-" else x) for x in (a.tok(), a.tok()))
            if is_abnormal(out):
                return "write_combined/read_combined ended with " + out
            o = Tk(out)
            assert o.tok() == "F"
            f = bytes.fromhex(o.tok())
            assert o.tok() == "S"
            s2 = o.tok()
            assert o.tok() == "B"
            b2 = o.tok()
            if len(f) != 40 + len(sh) + len(bf) or struct.unpack("<Q", f[8:16])[0] != len(f):
                return "combined file has %d bytes, header says %d" % (len(f), struct.unpack("<Q", f[8:16])[0])
            if bytes.fromhex("" if s2 == "-" else s2) != sh or bytes.fromhex("" if b2 == "-" else b2) != bf:
                return "shared/buffer data read back differ from what was written"
            return None
        if op in ("cp", "cpx"):
            if op == "cpx":
                a.nat()
            n = a.nat()
            exp, names = [], []
            for _ in range(n):
                nm = a.tok()
                names.append(nm.encode() if op == "cp" else bytes.fromhex("" if nm == "-" else nm))
                exp.append(expected_layout(a.tok(), a))
            order = a.lst()
            if len(set(names)) != n:
                return None if out.startswith("ABORT") else "duplicate identifier was not rejected"
            if is_abnormal(out):
                return "checkpoint round trip ended with " + out
            o = Tk(out)
            assert o.tok() == "B"
            hexs = o.tok()
            b = bytes.fromhex(hexs)
            if struct.unpack("<Q", b[:8])[0] != len(b) - 8:
                return "checkpoint length word does not match the stream"
            # the stream holds every identifier exactly once, byte for byte
            pos, seen = 8, []
            while pos < len(b):
                ln = struct.unpack("<Q", b[pos:pos + 8])[0]
                seen.append(b[pos + 8:pos + 8 + ln])
                dl = struct.unpack("<Q", b[pos + 8 + ln:pos + 16 + ln])[0]
                pos += 16 + ln + dl
            if pos != len(b) or sorted(seen) != sorted(names):
                return "identifiers stored in the checkpoint %s differ from the registered ones" % seen[:6]
            for k in order:
                got = o.dump()
                assert o.tok() == "EQ"
                eq = o.nat()
                if got != exp[k]:
                    return "object %d restored as %s, expected %s" % (k, got, exp[k])
                if eq != 1:
                    return "operator== reports restored object %d as different" % k
            return None
    except (IndexError, ValueError, AssertionError, struct.error) as e:
        return "unparsable implementation output (%r): %s" % (e, out[:200])
    return "unknown op"


def canon(out):
    h = out.split(":")[0]
    if h in ("ABORT", "EXC", "SIGNAL"):
        return h
    return out


def nontrivial(case):
    """>= 1 array of size >= 1 and (empty row / zero-size array or type-width change or >= 2 objects)"""
    t = case.split()
    op = t[0]
    if op == "cp":
        return int(t[1]) >= 2
    if op == "cpx":
        return int(t[2]) >= 2
    if op == "dfio":
        return t[1] != "-" or t[2] != "-"
    if op == "cpmiss":
        return True
    if op == "multi":
        return True
    if op == "raw":
        a = Tk(case)
        a.tok(), a.nat(), a.nat()
        dt, it, dt2, it2 = a.nat(), a.nat(), a.nat(), a.nat()
        a.lst(), a.flst()
        sizes = [len(a.flst()) for _ in range(a.nat())] + [len(a.lst()) for _ in range(a.nat())]
        return any(s > 0 for s in sizes) and (dt != dt2 or it != it2 or 0 in sizes or len(sizes) >= 3)
    if op == "kind":
        kind = t[1]
        widths = t[3:7]
        a = Tk(" ".join(t[7:]))
        has_empty = False
        if kind == "csr":
            r = a.nat()
            a.nat(), a.nat()
            rp = a.lst()
            has_empty = any(rp[i] == rp[i + 1] for i in range(r))
        vals = skip_kind_args(kind, Tk(" ".join(t[7:])))
        return len(vals) > 0 and (has_empty or widths[0] != widths[2] or widths[1] != widths[3])
    if op in ("txt", "txtr"):
        kind = t[1]
        a = Tk(" ".join(t[5:]))
        if kind == "csr":
            r = a.nat()
            a.nat(), a.nat()
            rp = a.lst()
            return rp[-1] > 0 and any(rp[i] == rp[i + 1] for i in range(r))
        return len(skip_kind_args(kind, a)) > 0
    return False


def describe(case):
    t = case.split()
    keys = ["op:" + t[0]]
    if t[0] in ("raw", "kind") and t[5 if t[0] == "raw" else 5] == "4" and t[6] == "8":
        keys.append("file-types:float/u64 (IT2 block may need padding)")
    if t[0] == "raw":
        keys.append("widths:%s%s->%s%s" % (t[3], t[4], t[5], t[6]))
        keys.append("mode-mismatch" if t[1] != t[2] else "mode-match")
        a = Tk(case)
        a.tok(), a.nat(), a.nat(), a.nat(), a.nat(), a.nat(), a.nat()
        a.lst(), a.flst()
        ne = a.nat()
        es = [len(a.flst()) for _ in range(ne)]
        ni = a.nat()
        xs = [len(a.lst()) for _ in range(ni)]
        keys.append("arrays:%d+%d" % (ne, ni))
        if 0 in es or 0 in xs:
            keys.append("zero-size-array")
    elif t[0] == "kind":
        keys.append("kind:%s via:%s" % (t[1], t[2]))
        keys.append("widths:%s%s->%s%s" % (t[3], t[4], t[5], t[6]))
        if t[1] == "csr":
            a = Tk(" ".join(t[7:]))
            r = a.nat()
            a.nat(), a.nat()
            rp = a.lst()
            keys.append("csr:" + ("no-entries" if rp[-1] == 0 else
                                  ("empty-row" if any(rp[i] == rp[i + 1] for i in range(r)) else "full-rows")))
        elif t[7] == "0":
            keys.append("length-0")
    elif t[0] in ("txt", "txtr"):
        keys.append("text:%s/%s dt%s" % (t[1], t[2], t[3]))
        if t[1] in ("dm", "csr", "bcsr"):
            r, c = int(t[5]), int(t[6])
            keys.append("shape:" + ("empty" if r * c == 0 else "1x1" if (r, c) == (1, 1) else "1xN" if r == 1 else
                                    "Nx1" if c == 1 else "square" if r == c else "tall" if r > c else "wide"))
        if t[1] == "csr":
            a = Tk(" ".join(t[5:]))
            r = a.nat()
            a.nat(), a.nat()
            rp = a.lst()
            keys.append("csr:" + ("no-entries" if rp[-1] == 0 else
                                  ("empty-row" if any(rp[i] == rp[i + 1] for i in range(r)) else "full-rows")))
        elif t[5] == "0":
            keys.append("length-0")
    elif t[0] == "multi":
        keys.append("multi:%s k=%s %s" % ("file" if t[1] == "1" else "stringstream", t[3], "junk" if t[2] != "0" else "offset0"))
    elif t[0] == "cp":
        keys.append("objects:" + t[1])
    elif t[0] == "cpx":
        keys.append("objects:" + t[2])
        keys.append("restore:" + ("individual" if t[1] == "1" else "shared"))
        a = Tk(case)
        a.tok(), a.nat()
        names = []
        for _ in range(a.nat()):
            nm = a.tok()
            names.append(bytes.fromhex("" if nm == "-" else nm))
            expected_layout(a.tok(), a)
        cls = set()
        for x in names:
            for y in names:
                if x != y:
                    if x.lower() == y.lower():
                        cls.add("names:case-only")
                    if y.startswith(x):
                        cls.add("names:prefix")
                    if len(x) == len(y) and sum(p != q for p, q in zip(x, y)) == 1:
                        cls.add("names:one-char")
        if any(len(x) >= 255 for x in names):
            cls.add("names:long")
        if any(not chr(ch).isalnum() for x in names for ch in x):
            cls.add("names:punct/blank/high")
        if sorted(names) != sorted(names, key=lambda z: (z.lower(), z)):
            cls.add("names:case-sensitive-order-differs")
        keys += sorted(cls)
    return keys


def signature(case, out, why):
    t = case.split()
    return "%s:%s" % (" ".join(t[:3]), (why or "")[:40])


def main(argv):
    args = vlib.std_args(argv)
    t0 = time.time()
    rng = random.Random(args.seed * 1000003 + 5)
    lean = None if args.no_lean else vlib.lean_check(PROP, leanchecker=(args.tier == "thorough"))
    binary, err = vlib.build_harness("c05", os.path.join(vlib.VERIF, "harness", "c05", "main.cpp"))
    if binary is None:
        v = [{"property": PROP, "kind": "harness-build-failure", "detail": err, "failing_input": None,
              "broken": "harness c05 does not compile against the current tree"}]
        return vlib.finish(PROP, args.tier, args.seed, t0, lean, [], [], v, [])
    if args.replay:
        cases = [json.load(open(args.replay))["input"]]
        edge = []
    else:
        cases = CORPUS + FIXED_EDGE + gen_cases(rng, 8000 if args.tier == "quick" else 120000)
        edge = [c for c, _, _ in KNOWN_EDGE]
    streams = [vlib.Stream("persist", cases, [binary], vlib.driver_cmd(PROP), oracle=oracle, nontrivial=nontrivial,
                           describe=describe, signature=signature, canon=canon,
                           model_filter=lambda c: not c.startswith("txtr"))]
    if not args.replay:
        bcases = boundary_cases(args.tier)
        streams.append(vlib.Stream("boundary-sizes", [c for c in bcases if boundary_model_filter(c)], [binary],
                                   vlib.driver_cmd(PROP), oracle=oracle, nontrivial=lambda c: True,
                                   describe=describe_boundary, signature=signature, canon=canon))
        # sizes where the list-based Lean model is quadratic (and the three-digit exponents, which are judged to
        # printed precision): implementation + independent oracle only, the model is not run
        streams.append(vlib.Stream("boundary-sizes-large", [c for c in bcases if not boundary_model_filter(c)],
                                   [binary], None, oracle=oracle, nontrivial=lambda c: True,
                                   describe=describe_boundary, signature=signature, canon=canon))
    if edge:
        streams.append(vlib.Stream("known-edge", edge, [binary], vlib.driver_cmd(PROP), oracle=oracle,
                                   nontrivial=lambda c: False, describe=lambda c: ["edge:" + " ".join(c.split()[:3])],
                                   canon=canon, model_filter=lambda c: False,
                                   signature=lambda c, o, w: KNOWN_EDGE_SIG.get(c)))
    stats_rule = ("raw containers with 0..4 element and 0..4 index arrays of size 0..9 at float/double x u32/u64 in memory "
                  "and on disk (16 combinations), all 14 file-mode magics; the eight real container kinds (CSR with empty "
                  "rows / without entries / without dimension, length-0 vectors) through serialize<DT2,IT2>() and "
                  "write_out/read_from(fm_binary); text modes fm_mtx/fm_exp of DenseVector(Blocked), SparseVector, "
                  "DenseMatrix, CSR with exactly printing values (model compared) and arbitrary values (printed precision, "
                  "oracle only); checkpoints of 1..6 named dv/csr objects in random registration and restore order; "
                  "non-trivial = >= 1 non-empty array and (empty row / zero-size array / width change / >= 2 objects)")
    rc = vlib.run_pipeline(PROP, args.tier, args.seed, lean, streams, t0, assumptions=[
        "values are exchanged as rationals and encoded to IEEE-754 bit patterns by the model (normal range only)",
        "number formatting/parsing of libc (operator<< scientific, atof, atol) is modelled, not verified",
        "zlib/zfp compression is compiled out of this build",
        "inputs reproducing the open C05 entries of KNOWN_FINDINGS.json run in the stream 'known-edge', are judged by "
        "the oracle and reported as KNOWN-FINDING"],
        extra_cov={"rule": stats_rule})
    return rc
