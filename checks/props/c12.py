"""C12 - partitions cover each cell once; neighbouring patches agree on their interface."""
import json
import os
import random
import time
from fractions import Fraction
from itertools import permutations

import vlib

PROP = "C12"

# ---------------------------------------------------------------------------------------------
# reference cells (kernel/geometry/intern/face_index_mapping.hpp): local vertices of the local faces
# ---------------------------------------------------------------------------------------------

EDGES = {
    "s2": [(1, 2), (2, 0), (0, 1)],
    "h2": [(0, 1), (2, 3), (0, 2), (1, 3)],
    "s3": [(0, 1), (0, 2), (0, 3), (1, 2), (1, 3), (2, 3)],
    "h3": [(0, 1), (2, 3), (4, 5), (6, 7), (0, 2), (1, 3), (4, 6), (5, 7), (0, 4), (1, 5), (2, 6), (3, 7)],
}
FACES = {
    "s3": [(1, 2, 3), (0, 2, 3), (0, 1, 3), (0, 1, 2)],
    "h3": [(0, 1, 2, 3), (4, 5, 6, 7), (0, 1, 4, 5), (2, 3, 6, 7), (0, 2, 4, 6), (1, 3, 5, 7)],
}
FACE_SHAPE = {"s3": "s2", "h3": "h2"}
DIM = {"h1": 1, "h2": 2, "s2": 2, "h3": 3, "s3": 3}
REF_FACTOR = {"h1": 2, "h2": 4, "s2": 4, "h3": 8, "s3": 12}
P2L = {"h1": (2, 1), "h2": (2, 2), "h3": (2, 3), "s2": (4, 1), "s3": (12, 1)}   # (factor, lvlinc)
# symmetries of the reference faces (local renumberings that give the same entity)
SYM = {
    "s2": list(permutations(range(3))),
    "h2": [(0, 1, 2, 3), (1, 3, 0, 2), (3, 2, 1, 0), (2, 0, 3, 1), (1, 0, 3, 2), (2, 3, 0, 1), (0, 2, 1, 3), (3, 1, 2, 0)],
}
ROT = {"s2": [(0, 1, 2), (1, 2, 0), (2, 0, 1)], "h2": [(0, 1, 2, 3), (1, 3, 0, 2), (3, 2, 1, 0), (2, 0, 3, 1)]}


def pairs(D):
    return [(hi, lo) for hi in range(1, D + 1) for lo in range(hi)]


# ---------------------------------------------------------------------------------------------
# mesh generator: grid based conforming meshes with holes, random numbering and orientation
# ---------------------------------------------------------------------------------------------

def base_cells(rng, shape, big=False, grid=None, keep=None):
    """returns (coords list of tuples of Fraction, cells as vertex tuples, grid position of every cell)"""
    D = DIM[shape]
    if D == 1:
        n = rng.choice([1, 2, 3, 4, 6, 9, 14] if not big else [8, 16, 30])
        pts = {(i,): i for i in range(n + 1)}
        cells = [((i,), (i + 1,)) for i in range(n)]
        pos = [(i,) for i in range(n)]
    elif D == 2:
        nx, ny = grid if grid else rng.choice(
            [(1, 1), (2, 1), (2, 2), (3, 2), (3, 3), (4, 2), (4, 3), (5, 1)] if not big
            else [(4, 4), (6, 3), (12, 1), (5, 5)])
        cells, pos = [], []
        for j in range(ny):
            for i in range(nx):
                q = ((i, j), (i + 1, j), (i, j + 1), (i + 1, j + 1))
                if shape == "h2":
                    cells.append(q)
                    pos.append((i, j))
                else:
                    if rng.random() < 0.5:
                        tris = [(q[0], q[1], q[3]), (q[0], q[3], q[2])]
                    else:
                        tris = [(q[0], q[1], q[2]), (q[1], q[3], q[2])]
                    for t in tris:
                        cells.append(t)
                        pos.append((i, j))
    else:
        nx, ny, nz = grid if grid else rng.choice(
            [(1, 1, 1), (2, 1, 1), (2, 2, 1), (2, 2, 2), (3, 2, 1), (3, 1, 1)] if not big
            else [(3, 2, 2), (3, 3, 1), (4, 2, 1)])
        cells, pos = [], []
        for k in range(nz):
            for j in range(ny):
                for i in range(nx):
                    c = [(i + a, j + b, k + cc) for cc in (0, 1) for b in (0, 1) for a in (0, 1)]
                    if shape == "h3":
                        cells.append(tuple(c))
                        pos.append((i, j, k))
                    else:
                        for pm in permutations(range(3)):      # Kuhn triangulation (conforming across cubes)
                            p = [i, j, k]
                            t = [tuple(p)]
                            for ax in pm:
                                p[ax] += 1
                                t.append(tuple(p))
                            cells.append(tuple(t))
                            pos.append((i, j, k))
    # holes: keep a random subset of the grid cells (gives non-convex / disconnected / vertex-touching meshes)
    if keep is not None:       # deterministic selection of grid cells
        sel = [k for k in range(len(cells)) if pos[k] in keep]
        cells = [cells[k] for k in sel]
        pos = [pos[k] for k in sel]
    elif grid is None and len(cells) > 1 and rng.random() < 0.35:
        gp = sorted(set(pos))
        keep = set(rng.sample(gp, rng.randrange(max(1, len(gp) // 2), len(gp) + 1)))
        sel = [k for k in range(len(cells)) if pos[k] in keep]
        cells = [cells[k] for k in sel]
        pos = [pos[k] for k in sel]
    # random cell numbering
    order = list(range(len(cells)))
    rng.shuffle(order)
    cells = [cells[k] for k in order]
    pos = [pos[k] for k in order]
    # random vertex numbering of the used vertices
    used = sorted({v for c in cells for v in c})
    rng.shuffle(used)
    vid = {v: k for k, v in enumerate(used)}
    sc = [Fraction(rng.choice([1, 1, 2, 3]), rng.choice([1, 1, 2, 3])) for _ in range(D)]
    shear = Fraction(rng.choice([0, 0, 1, -1]), 3)
    coords = []
    for v in used:
        x = [Fraction(v[a]) * sc[a] for a in range(D)]
        if D > 1:
            x[0] += shear * v[1]
        coords.append(tuple(x))
    vcells = [tuple(vid[v] for v in c) for c in cells]
    # random admissible local numbering of 2-D cells (rotations keep the orientation)
    if shape in ROT:
        vcells = [tuple(c[k] for k in rng.choice(ROT[shape])) for c in vcells]
    if D == 1:
        vcells = [c if rng.random() < 0.8 else (c[1], c[0]) for c in vcells]
    return coords, vcells, pos


def build_mesh(rng, shape, big=False, grid=None, keep=None):
    """full index sets of a conforming mesh, numbered and oriented at random"""
    D = DIM[shape]
    coords, vcells, pos = base_cells(rng, shape, big, grid, keep)
    IS = {}
    num = [len(coords)] + [0] * D
    num[D] = len(vcells)
    IS[(D, 0)] = [list(c) for c in vcells]
    if D >= 2:
        visit = list(range(len(vcells)))
        rng.shuffle(visit)
        edges = {}
        for c in visit:
            for (a, b) in EDGES[shape]:
                key = frozenset((vcells[c][a], vcells[c][b]))
                if key not in edges:
                    e = (vcells[c][a], vcells[c][b])
                    edges[key] = e if rng.random() < 0.5 else (e[1], e[0])
        keys = list(edges)
        rng.shuffle(keys)
        eid = {k: i for i, k in enumerate(keys)}
        num[1] = len(keys)
        IS[(1, 0)] = [list(edges[k]) for k in keys]
        IS[(D, 1)] = [[eid[frozenset((c[a], c[b]))] for (a, b) in EDGES[shape]] for c in vcells]
    if D == 3:
        fs = FACE_SHAPE[shape]
        faces = {}
        for c in visit:
            for loc in FACES[shape]:
                tup = tuple(vcells[c][k] for k in loc)
                key = frozenset(tup)
                if key not in faces:
                    sym = rng.choice(SYM[fs])
                    faces[key] = tuple(tup[k] for k in sym)
        fkeys = list(faces)
        rng.shuffle(fkeys)
        fid = {k: i for i, k in enumerate(fkeys)}
        num[2] = len(fkeys)
        IS[(2, 0)] = [list(faces[k]) for k in fkeys]
        IS[(2, 1)] = [[eid[frozenset((faces[k][a], faces[k][b]))] for (a, b) in EDGES[fs]] for k in fkeys]
        IS[(3, 2)] = [[fid[frozenset(c[k] for k in loc)] for loc in FACES[shape]] for c in vcells]
    return {"shape": shape, "D": D, "num": num, "IS": IS, "coords": coords, "pos": pos}


def fmt_mesh(mesh, with_coords):
    out = [" ".join(map(str, mesh["num"]))]
    if with_coords:
        out.append(" ".join(vlib.frac_str(x) for v in mesh["coords"] for x in v))
    for pr in pairs(mesh["D"]):
        for row in mesh["IS"][pr]:
            out.append("%d %s" % (len(row), " ".join(map(str, row))))
    return " ".join(x for x in out if x != "")


def fmt_graph(n_img, adj):
    return " ".join(["%d %d" % (n_img, len(adj))] + [("%d %s" % (len(l), " ".join(map(str, l)))).strip() for l in adj])


def gen_partition(rng, mesh):
    """explicit cell -> rank assignment; returns (n_img, rows, tag)"""
    n = mesh["num"][mesh["D"]]
    R = rng.choice([1, 2, 2, 3, 3, 4, 5, n, max(1, n // 2), rng.randrange(1, n + 1)])
    R = max(1, min(R, n))
    style = rng.choice(["random", "random", "blocks", "checker", "stripes"])
    if style == "random":
        rk = [rng.randrange(R) for _ in range(n)]
    elif style == "blocks":
        rk = [min(R - 1, k * R // n) for k in range(n)]
    elif style == "checker":      # patches that touch in single vertices / are disconnected
        rk = [sum(mesh["pos"][k]) % R for k in range(n)]
    else:
        rk = [mesh["pos"][k][0] % R for k in range(n)]
    # make every rank non-empty
    cells = list(range(n))
    rng.shuffle(cells)
    for r in range(R):
        if r not in rk:
            for c in cells:
                if rk.count(rk[c]) > 1:
                    rk[c] = r
                    break
    rows = [[c for c in range(n) if rk[c] == r] for r in range(R)]
    tag = "ok"
    u = rng.random()
    if u < 0.30:
        for l in rows:              # user-given order of the cells of a rank need not ascend
            rng.shuffle(l)
        tag = "unsorted"
    n_img = n
    if u > 0.975 and R >= 2:
        big = max(range(R), key=lambda r: len(rows[r]))
        victim = rng.choice([r for r in range(R) if r != big])
        rows[big] = rows[big] + rows[victim]
        rows[victim] = []
        tag = "empty-rank"
    elif u > 0.955:
        n_img = n + rng.choice([1, 2])
        tag = "count-mismatch"
    return n_img, rows, tag


def gen_extract(rng, big=False):
    shape = rng.choice(["h1", "h2", "h2", "s2", "s2", "h3", "s3"])
    mesh = build_mesh(rng, shape, big)
    n_img, rows, _ = gen_partition(rng, mesh)
    return "extract %s %s %s" % (shape, fmt_mesh(mesh, False), fmt_graph(n_img, rows))


# deterministic 3-D contact configurations: (name, grid, kept grid cells or None, rank of a grid position)
def _contact_configs():
    cube2 = [(i, j, k) for k in range(2) for j in range(2) for i in range(2)]
    cfgs = []
    # 2x2x2, one grid cell per rank: every rank has 3 face-, 3 edge- and 1 vertex-only neighbour
    cfgs.append(("2x2x2-one-cell-per-rank", (2, 2, 2), None, lambda q: cube2.index(q)))
    # 3x3x3 checkerboards
    cfgs.append(("3x3x3-checker-2", (3, 3, 3), None, lambda q: sum(q) % 2))
    cfgs.append(("3x3x3-checker-3", (3, 3, 3), None, lambda q: sum(q) % 3))
    cfgs.append(("3x3x3-parity-8", (3, 3, 3), None, lambda q: (q[0] % 2) + 2 * (q[1] % 2) + 4 * (q[2] % 2)))
    # only the 'black' cells of a 3x3x3 checkerboard exist (edge / vertex contacts only), one cell per rank
    black = [(i, j, k) for k in range(3) for j in range(3) for i in range(3) if (i + j + k) % 2 == 0]
    cfgs.append(("3x3x3-black-cells-only", (3, 3, 3), set(black), lambda q: black.index(q)))
    # L-shapes in a 2x2x2 block: an L of three cells, its face / edge / vertex-only neighbours as single cells
    lpos = {(0, 0, 0): 0, (1, 0, 0): 0, (0, 1, 0): 0, (1, 1, 0): 1, (0, 0, 1): 2, (1, 1, 1): 3, (1, 0, 1): 4}
    cfgs.append(("L-shape-mixed", (2, 2, 2), set(lpos), lambda q: lpos[q]))
    # two L-shapes interlocked in a 3x2x2 block plus a vertex-only cell
    l2 = {(0, 0, 0): 0, (1, 0, 0): 0, (0, 1, 0): 0, (2, 1, 1): 1, (1, 1, 1): 1, (2, 0, 1): 1, (2, 1, 0): 2,
          (0, 0, 1): 3, (1, 1, 0): 4}
    cfgs.append(("L-shapes-3x2x2", (3, 2, 2), set(l2), lambda q: l2[q]))
    # vertex-only pair + face pair in one line of discovery: diagonal cells of a 2x2x2 block
    diag = {(0, 0, 0): 0, (1, 1, 1): 1, (1, 0, 0): 2, (0, 1, 1): 3}
    cfgs.append(("diagonal-cells", (2, 2, 2), set(diag), lambda q: diag[q]))
    return cfgs


CONTACT_CONFIGS = _contact_configs()


def _contact_configs_2d():
    sq2 = [(i, j) for j in range(2) for i in range(2)]
    sq3 = [(i, j) for j in range(3) for i in range(3)]
    cfgs = []
    cfgs.append(("2x2-one-cell-per-rank", (2, 2), None, lambda q: sq2.index(q)))      # 2 edge + 1 corner neighbour each
    cfgs.append(("3x3-one-cell-per-rank", (3, 3), None, lambda q: sq3.index(q)))
    cfgs.append(("3x3-checker-2", (3, 3), None, lambda q: sum(q) % 2))
    cfgs.append(("3x3-parity-4", (3, 3), None, lambda q: (q[0] % 2) + 2 * (q[1] % 2)))
    lpos = {(0, 0): 0, (1, 0): 0, (0, 1): 0, (1, 1): 1, (2, 1): 2, (2, 0): 3, (2, 2): 4, (0, 2): 5}
    cfgs.append(("L-shape-2d", (3, 3), set(lpos), lambda q: lpos[q]))
    diag = {(0, 0): 0, (1, 1): 1, (1, 0): 2, (2, 2): 3}
    cfgs.append(("diagonal-cells-2d", (3, 3), set(diag), lambda q: diag[q]))
    return cfgs


CONTACT_CONFIGS_2D = _contact_configs_2d()


def discovery_order(D, num, IS, rows, r):
    """comm_ranks order of rank r (neighbours in order of first appearance over r's vertices, ascending vertex index,
    cells ascending inside a vertex) - recomputed independently of model and implementation"""
    owner = {cc: q for q, l in enumerate(rows) for cc in l}
    cav = [[] for _ in range(num[0])]
    for cc, row in enumerate(IS[(D, 0)]):
        for v in row:
            cav[v].append(cc)
    order = []
    for v in range(num[0]):
        rv = []
        for cc in cav[v]:
            if cc in owner and owner[cc] not in rv:
                rv.append(owner[cc])
        if r in rv:
            for q in rv:
                if q != r and q not in order:
                    order.append(q)
    return order


def contact_levels(D, num, IS, rows):
    """(a, b) -> highest dimension of a common entity of the patches a and b"""
    owner = {cc: q for q, l in enumerate(rows) for cc in l}
    adj = adjacent_cells(D, num, IS)
    level = {}
    for dd in range(D):
        for sset in adj[dd]:
            rs = {owner[a] for a in sset if a in owner}
            for a in rs:
                for b in rs:
                    if a != b:
                        level[(a, b)] = max(level.get((a, b), 0), dd)
    return level


def corner_after_higher(D, num, IS, rows):
    """some rank discovers a corner-only (single shared vertex level) neighbour directly after a neighbour with which it
    shares an edge or a face: the situation in which stale halo-factory buffers would leak"""
    level = contact_levels(D, num, IS, rows)
    for r in range(len(rows)):
        od = discovery_order(D, num, IS, rows, r)
        for k in range(1, len(od)):
            if level.get((r, od[k]), 0) == 0 and level.get((r, od[k - 1]), 0) >= 1:
                return True
    return False


def gen_contacts(rng, op="extract", reps=2):
    """2-D and 3-D partitions with face-, edge-only and vertex-only contacts next to each other (quads, triangles,
    hexahedra, tetrahedra), produced on EVERY run; the numbering (hence the discovery order of the neighbours) is
    randomised per seed, and for every configuration that admits it at least one instance is re-drawn until a
    corner-only neighbour follows an edge/face neighbour in the discovery order of some rank"""
    out = []
    for cfgs, shapes, D in ((CONTACT_CONFIGS_2D, ("h2", "s2"), 2), (CONTACT_CONFIGS, ("h3", "s3"), 3)):
        for name, grid, keep, rank_of in cfgs:
            for shape in shapes:
                if op == "refine" and (grid == (3, 3, 3) and keep is None):
                    continue
                for rep in range(reps):
                    for attempt in range(60):
                        mesh = build_mesh(rng, shape, grid=grid, keep=keep)
                        n = mesh["num"][D]
                        rk = [rank_of(mesh["pos"][k]) for k in range(n)]
                        R = max(rk) + 1
                        rows = [[c for c in range(n) if rk[c] == r] for r in range(R)]
                        if rep > 0 or corner_after_higher(D, mesh["num"], mesh["IS"], rows):
                            break
                    if rng.random() < 0.3:
                        for l in rows:
                            rng.shuffle(l)
                    if op == "extract":
                        out.append("extract %s %s %s" % (shape, fmt_mesh(mesh, False), fmt_graph(n, rows)))
                    else:
                        out.append("refine %s 1 %s %s" % (shape, fmt_mesh(mesh, True), fmt_graph(n, rows)))
    return out


M64 = (1 << 64) - 1


class FeatRandom:
    """kernel/util/random.hpp: xorshift64* and the ranged draw for Index"""

    def __init__(self, seed):
        self.x = seed if seed != 0 else 28054777172512

    def next(self):
        x = self.x
        x ^= x >> 12
        x ^= (x << 25) & M64
        x ^= x >> 27
        self.x = x
        return (x * 2685821657736338717) & M64

    def ranged(self, a, b):
        x = self.next()
        return a + x % (b - a + 1) if a < b else a


def iter_threshold(n, dim, np_):
    import math
    return max(int(math.pow(float(n), 1.0 / float(dim)) + 1), n // np_, 2)


def gen_idist(rng):
    shape = rng.choice(["h1", "h2", "h2", "s2", "s2", "h3", "s3"])
    mesh = build_mesh(rng, shape, big=(rng.random() < 0.15))
    n = mesh["num"][mesh["D"]]
    np_ = rng.randrange(1, n + 1)
    return "idist %s %d %d %d %s" % (shape, np_, rng.randrange(n), iter_threshold(n, mesh["D"], np_), fmt_mesh(mesh, False))


def gen_iterc(rng):
    shape = rng.choice(["h1", "h2", "h2", "s2", "s2", "h3", "s3"])
    mesh = build_mesh(rng, shape, big=(rng.random() < 0.2))
    n = mesh["num"][mesh["D"]]
    np_ = rng.randrange(1, min(n, 8) + 1)
    seed = rng.randrange(1, 1 << 40)
    fr = FeatRandom(seed)
    cen = set()
    while len(cen) < np_:
        cen.add(fr.ranged(0, n - 1))
    cen = sorted(cen)
    return "iterc %s %d %d %d %d %s %s" % (shape, seed, np_, iter_threshold(n, mesh["D"], np_), len(cen),
                                         " ".join(map(str, cen)), fmt_mesh(mesh, False))


# ---------------------------------------------------------------------------------------------
# boundary sizes (rank counts, neighbour counts, entity indices crossing 127/128, 255/256, 1000, 2^15, 2^16)
# ---------------------------------------------------------------------------------------------

def mesh_chain(n):
    """1-D chain of n cells, vertices 0..n"""
    return {"shape": "h1", "D": 1, "num": [n + 1, n], "IS": {(1, 0): [[i, i + 1] for i in range(n)]},
            "coords": [(Fraction(i),) for i in range(n + 1)], "pos": [(i,) for i in range(n)]}


def mesh_fan(k):
    """closed fan of k triangles around vertex k (the HIGHEST vertex index): every triangle touches every other one"""
    ctr = k
    cells = [[ctr, i, (i + 1) % k] for i in range(k)]
    edges = {}
    IS10, IS21 = [], []
    for c in cells:
        row = []
        for (a, b) in EDGES["s2"]:
            key = frozenset((c[a], c[b]))
            if key not in edges:
                edges[key] = len(IS10)
                IS10.append([c[a], c[b]])
            row.append(edges[key])
        IS21.append(row)
    import math
    coords = [(Fraction(int(1000 * math.cos(2 * math.pi * i / k))), Fraction(int(1000 * math.sin(2 * math.pi * i / k))))
              for i in range(k)] + [(Fraction(0), Fraction(0))]
    return {"shape": "s2", "D": 2, "num": [k + 1, len(IS10), k], "IS": {(1, 0): IS10, (2, 0): cells, (2, 1): IS21},
            "coords": coords, "pos": [(i, 0) for i in range(k)]}


def mesh_strip(n):
    """n x 1 strip of quadrilaterals: neighbouring cells share an edge (two vertices)"""
    cells = [[i, i + 1, n + 1 + i, n + 2 + i] for i in range(n)]
    edges, IS10, IS21 = {}, [], []
    for c in cells:
        row = []
        for (a, b) in EDGES["h2"]:
            key = frozenset((c[a], c[b]))
            if key not in edges:
                edges[key] = len(IS10)
                IS10.append([c[a], c[b]])
            row.append(edges[key])
        IS21.append(row)
    coords = [(Fraction(i), Fraction(0)) for i in range(n + 1)] + [(Fraction(i), Fraction(1)) for i in range(n + 1)]
    return {"shape": "h2", "D": 2, "num": [2 * n + 2, len(IS10), n], "IS": {(1, 0): IS10, (2, 0): cells, (2, 1): IS21},
            "coords": coords, "pos": [(i, 0) for i in range(n)]}


def gen_boundary(quick):
    """(cases compared with the model, oracle-only cases)"""
    mod, big = [], []
    # rank counts crossing 127/128, 255/256: one cell per rank on a chain
    for n in ([127, 128, 129, 256, 257] if quick else [127, 128, 129, 255, 256, 257]):
        m = mesh_chain(n)
        mod.append("extract h1 %s %s" % (fmt_mesh(m, False), fmt_graph(n, [[c] for c in range(n)])))
    # neighbour counts crossing 127/128 (255/256 in thorough): one fan triangle per rank, all share the centre vertex
    for k in ([128, 129, 130] if quick else [128, 129, 130, 256, 257, 258]):
        m = mesh_fan(k)
        mod.append("extract s2 %s %s" % (fmt_mesh(m, False), fmt_graph(k, [[c] for c in range(k)])))
    # rank numbers crossing 127/128 and 255/256 as DUPLICATE neighbours (two shared vertices): strips of quads, one per rank
    for n in ([129, 257, 258] if quick else [127, 128, 129, 255, 256, 257, 258]):
        m = mesh_strip(n)
        mod.append("extract h2 %s %s" % (fmt_mesh(m, False), fmt_graph(n, [[c] for c in range(n)])))
    # a rank with > 128 neighbours sitting at the HIGH end: fan of 131, ranks 0..129 one triangle each, rank 130 last
    m = mesh_fan(131)
    mod.append("extract s2 %s %s" % (fmt_mesh(m, False), fmt_graph(131, [[c] for c in range(130)][::-1] + [[130]])))
    # entity indices crossing 1000/1001: long chains, all rank boundaries at the high end
    for n in (999, 1000, 1001):
        m = mesh_chain(n)
        rows = [list(range(0, n - 3)), [n - 3, n - 2], [n - 1]]
        mod.append("extract h1 %s %s" % (fmt_mesh(m, False), fmt_graph(n, rows)))
    # 2-D, vertex indices crossing 127/128 and 255/256 with the shared entities at the high end: strips of quads
    # Parti2Lvl around the boundaries
    for sh, n, r in (("h1", 1, 128), ("h1", 1, 256), ("h1", 127, 254), ("h1", 129, 258), ("h1", 1, 127), ("h1", 1, 129),
                     ("h1", 1, 255), ("h1", 1, 257), ("h2", 2, 256), ("h2", 1, 1024), ("h1", 1000, 1000), ("h1", 1001, 1001),
                     ("h1", 125, 1000), ("h1", 1, 1000), ("s2", 4, 256), ("h3", 2, 128)):
        mod.append("p2l %s %d %d" % (sh, n, r))
    # PartiIterative distance: the threshold is computed with a floating point root - cell counts that are perfect powers
    for shape, grid in (("h2", (2, 2)), ("h2", (3, 3)), ("h2", (4, 4)), ("h2", (5, 5)), ("h2", (11, 11)), ("h3", (2, 2, 2)),
                        ("h3", (3, 3, 3)), ("h3", (4, 4, 4)), ("h3", (5, 5, 5))):
        msh = build_mesh(random.Random(7), shape, grid=grid)
        n = msh["num"][msh["D"]]
        for np_ in (1, n):
            mod.append("idist %s %d %d %d %s" % (shape, np_, n - 1, iter_threshold(n, msh["D"], np_), fmt_mesh(msh, False)))
    if not quick:
        for n in (1000, 1001):
            m = mesh_chain(n)
            big.append("extract h1 %s %s" % (fmt_mesh(m, False), fmt_graph(n, [[c] for c in range(n)])))
        # 2^15 / 2^16 entities in one patch: oracle only (the list model is quadratic), boundaries at the high end
        for n in (32767, 32768, 65535, 65536, 65537):
            m = mesh_chain(n)
            rows = [list(range(0, n - 3)), [n - 3, n - 2], [n - 1]]
            big.append("extract h1 %s %s" % (fmt_mesh(m, False), fmt_graph(n, rows)))
    return mod, big


def gen_hsplit_grid(quick):
    """two-layer partitioning, deterministic: 2x2 parents x 2x2 children on a 4x4 grid (quads, triangles) and the 3-D
    analogue 2x2x2 parents x 2x2x2 children on a 4x4x4 grid - children of different parents touching in an edge or a
    single vertex, processed one after the other by the same PatchHaloSplitter"""
    out = []
    for shape, grid in (("h2", (4, 4)), ("s2", (4, 4)), ("h3", (4, 4, 4))) + (() if quick else (("s3", (4, 4, 4)),)):
        for seed in ((21, 22) if quick else (21, 22, 23, 24)):
            mesh = build_mesh(random.Random(seed), shape, grid=grid)
            D = mesh["D"]
            n = mesh["num"][D]
            par = [sum((q[a] // 2) << a for a in range(D)) for q in mesh["pos"]]
            chi = [sum((q[a] % 2) << a for a in range(D)) for q in mesh["pos"]]
            rows = [[c for c in range(n) if par[c] == r] for r in range(1 << D)]
            out.append("hsplit %s %s %s %d %s" % (shape, fmt_mesh(mesh, False), fmt_graph(n, rows), n, " ".join(map(str, chi))))
    return out


def boundary_model_filter(case):
    """the list model is quadratic+ in the rank count: fans with > 100 ranks and 2^15 / 2^16 chains are judged by the
    oracle only"""
    t = case.split()
    if t[0] == "extract" and t[1] == "s2" and int(t[4]) > 100:
        return False
    if t[0] == "extract" and t[1] == "h1" and int(t[3]) > 5000:
        return False
    if t[0] == "extract" and t[1] == "h2" and int(t[4]) > 200:
        return False
    return True


def describe_boundary(case):
    t = case.split()
    keys = ["op:" + t[0]]
    try:
        if t[0] == "extract":
            op, shape, d = _parse_case(case)
            num, IS, n_img, rows = d
            keys += ["size:cells=%d" % num[DIM[shape]], "size:ranks=%d" % len(rows), "size:vertices=%d" % num[0]]
            if shape == "s2":
                keys.append("size:neighbours-per-rank=%d" % (len(rows) - 1))
        elif t[0] == "p2l":
            keys += ["size:p2l-cells=%s" % t[2], "size:p2l-ranks=%s" % t[3]]
        elif t[0] == "idist":
            keys += ["size:idist-cells=%s" % t[5 + DIM[t[1]]], "size:idist-threshold=%s" % t[4]]
    except Exception:
        keys.append("describe-error")
    return keys


def gen_exhaustive(quick):
    """small-scope exhaustive stream: EVERY assignment of the cells of a 2x3 quadrilateral mesh / small triangle meshes
    (<= 6 cells) to 1, 2 and 3 ranks - including the assignments that leave a rank empty (abort class)"""
    import itertools
    out = []
    specs = [("h2", (3, 2), 11), ("s2", (2, 1), 12)] if quick else \
            [("h2", (3, 2), 11), ("s2", (2, 1), 12), ("s2", (3, 1), 13), ("h2", (2, 3), 14), ("h2", (3, 2), 15)]
    for shape, grid, seed in specs:
        mesh = build_mesh(random.Random(seed), shape, grid=grid)
        n = mesh["num"][2]
        mtxt = fmt_mesh(mesh, False)
        for R in (1, 2, 3):
            for rk in itertools.product(range(R), repeat=n):
                rows = [[c for c in range(n) if rk[c] == r] for r in range(R)]
                out.append("extract %s %s %s" % (shape, mtxt, fmt_graph(n, rows)))
    return out


def gen_split(rng):
    """a base-mesh mesh part (e.g. a boundary part): arbitrary entity lists per dimension, in arbitrary order"""
    shape = rng.choice(["h1", "h2", "h2", "s2", "s2", "h3", "s3"])
    mesh = build_mesh(rng, shape)
    n_img, rows, tag = gen_partition(rng, mesh)
    while tag in ("empty-rank", "count-mismatch"):
        n_img, rows, tag = gen_partition(rng, mesh)
    lists = []
    for d in range(mesh["D"] + 1):
        n = mesh["num"][d]
        u = rng.random()
        if u < 0.25:
            l = []
        elif u < 0.5:
            l = list(range(n))
        else:
            l = rng.sample(range(n), rng.randrange(0, n + 1))
        if rng.random() < 0.5:
            rng.shuffle(l)
        lists.append(l)
    return "split %s %s %s %s" % (shape, fmt_mesh(mesh, False), fmt_graph(n_img, rows),
                                  " ".join(("%d %s" % (len(l), " ".join(map(str, l)))).strip() for l in lists))


def gen_hsplit(rng):
    """two-level partition: parents (explicit assignment) and, inside every parent, 1-3 child patches"""
    shape = rng.choice(["h1", "h2", "h2", "s2", "s2", "h3", "s3"])
    mesh = build_mesh(rng, shape)
    n_img, rows, tag = gen_partition(rng, mesh)
    while tag in ("empty-rank", "count-mismatch"):
        n_img, rows, tag = gen_partition(rng, mesh)
    child = [0] * n_img
    for l in rows:
        k = rng.randrange(1, min(3, len(l)) + 1)
        ch = [rng.randrange(k) for _ in l]
        for j in range(k):
            if j not in ch:
                for i in rng.sample(range(len(l)), len(l)):
                    if ch.count(ch[i]) > 1:
                        ch[i] = j
                        break
        for cc, x in zip(l, ch):
            child[cc] = x
    return "hsplit %s %s %s %d %s" % (shape, fmt_mesh(mesh, False), fmt_graph(n_img, rows), len(child),
                                      " ".join(map(str, child)))


def gen_refine(rng):
    shape = rng.choice(["h1", "h2", "h2", "s2", "s2", "h3", "s3"])
    mesh = build_mesh(rng, shape)
    n = mesh["num"][mesh["D"]]
    n_img, rows, tag = gen_partition(rng, mesh)
    while tag in ("empty-rank", "count-mismatch"):
        n_img, rows, tag = gen_partition(rng, mesh)
    depth = rng.choice([1, 1, 2]) if n * REF_FACTOR[shape] ** 2 <= 260 else 1
    return "refine %s %d %s %s" % (shape, depth, fmt_mesh(mesh, True), fmt_graph(n_img, rows))


def gen_p2l(rng):
    shape = rng.choice(list(P2L))
    n = rng.choice([1, 1, 2, 3, 4, 5, 6, 7, 12])
    f = P2L[shape][0]
    if rng.random() < 0.6:
        ranks = n * f ** rng.randrange(0, 6 if f == 2 else 3)
    else:
        ranks = rng.randrange(1, 70)
    return "p2l %s %d %d" % (shape, n, ranks)


def gen_auto(rng, iterative):
    shape = rng.choice(["h1", "h2", "h2", "s2", "h3", "s3"])
    mesh = build_mesh(rng, shape)
    n = mesh["num"][mesh["D"]]
    f, _ = P2L[shape]
    if iterative:
        ranks = rng.randrange(1, n + 1)
        kind = rng.choice([1, 2])
        depth = rng.choice([0, 0, 1])
    else:
        kind = 0
        if rng.random() < 0.75:
            ranks = n * f ** rng.randrange(0, 4 if f == 2 else 2)
        else:
            ranks = rng.randrange(1, 4 * n + 1)
        depth = rng.choice([0, 0, 1])
        if ranks > 64:
            ranks = n
    return "auto %s %d %d %d %s" % (shape, kind, ranks, depth, fmt_mesh(mesh, True))


CORPUS_EXTRACT = [
    # two quads touching in a single vertex, one rank each
    "extract h2 7 8 2 2 0 1 2 1 3 2 0 2 2 2 3 2 3 4 2 5 6 2 3 5 2 4 6 4 0 1 2 3 4 3 4 5 6 4 0 1 2 3 4 4 5 6 7 2 2 1 0 1 1",
    # one cell, one rank
    "extract h1 2 1 2 0 1 1 1 1 0",
    # three ranks on a chain of three cells, middle rank listed first
    "extract h1 4 3 2 0 1 2 1 2 2 2 3 3 3 1 1 1 0 1 2",
]


# ---------------------------------------------------------------------------------------------
# parsing
# ---------------------------------------------------------------------------------------------

class Tk:
    def __init__(self, s):
        self.t = s.split()
        self.p = 0

    def done(self):
        return self.p >= len(self.t)

    def tok(self):
        self.p += 1
        return self.t[self.p - 1]

    def expect(self, s):
        t = self.tok()
        if t != s:
            raise ValueError("expected %s, got %s at token %d" % (s, t, self.p - 1))

    def nat(self):
        return int(self.tok())

    def lst(self):
        n = self.nat()
        return [self.nat() for _ in range(n)]

    def fracs(self, n):
        return [vlib.parse_frac(self.tok()) for _ in range(n)]

    def graph_in(self):
        n_img, n_dom = self.nat(), self.nat()
        return n_img, [self.lst() for _ in range(n_dom)]

    def graph_out(self):
        self.expect("G")
        n_img = self.nat()
        ptr = self.lst()
        idx = self.lst()
        if not ptr or ptr[0] != 0 or ptr[-1] != len(idx) or any(ptr[i] > ptr[i + 1] for i in range(len(ptr) - 1)):
            raise ValueError("malformed graph arrays")
        return n_img, [idx[ptr[i]:ptr[i + 1]] for i in range(len(ptr) - 1)]

    def mesh_in(self, D, with_coords):
        num = [self.nat() for _ in range(D + 1)]
        coords = None
        if with_coords:
            fl = self.fracs(num[0] * D)
            coords = [tuple(fl[i * D:(i + 1) * D]) for i in range(num[0])]
        IS = {}
        for (hi, lo) in pairs(D):
            IS[(hi, lo)] = [self.lst() for _ in range(num[hi])]
        return num, IS, coords

    def flat_sets(self, D, num):
        IS = {}
        for (hi, lo) in pairs(D):
            fl = self.lst()
            if num[hi] == 0:
                IS[(hi, lo)] = []
                continue
            if len(fl) % num[hi] != 0:
                raise ValueError("index set <%d,%d> has %d entries for %d entities" % (hi, lo, len(fl), num[hi]))
            k = len(fl) // num[hi]
            IS[(hi, lo)] = [fl[i * k:(i + 1) * k] for i in range(num[hi])]
        return IS

    def coords_out(self, D, nv):
        self.expect("X")
        fl_n = self.nat()
        if fl_n != nv * D:
            raise ValueError("coordinate count")
        fl = self.fracs(fl_n)
        return [tuple(fl[i * D:(i + 1) * D]) for i in range(nv)]

    def level_out(self, D, with_coords):
        self.expect("L")
        R = self.nat()
        ranks = []
        for _ in range(R):
            self.expect("C")
            comm = self.lst()
            self.expect("T")
            T = [self.lst() for _ in range(D + 1)]
            self.expect("M")
            mnum = [self.nat() for _ in range(D + 1)]
            MIS = self.flat_sets(D, mnum)
            X = self.coords_out(D, mnum[0]) if with_coords else None
            self.expect("H")
            nh = self.nat()
            H = {}
            for _ in range(nh):
                s = self.nat()
                if s in H:
                    raise ValueError("duplicate halo")
                H[s] = [self.lst() for _ in range(D + 1)]
            ranks.append({"C": comm, "T": T, "mnum": mnum, "MIS": MIS, "X": X, "H": H})
        return ranks


def is_abnormal(out):
    return out.split(":")[0] in ("ABORT", "EXC", "TIMEOUT", "SIGNAL", "SANITIZER", "EXIT") or out in ("HANG", "BAD-OP")


# ---------------------------------------------------------------------------------------------
# independent oracle: set-based recomputation from the vertex-at-entity lists
# ---------------------------------------------------------------------------------------------

def adjacent_cells(D, num, IS):
    """for every dimension d and entity e: the set of cells whose vertex set contains the vertex set of e"""
    cav = [set() for _ in range(num[0])]
    for c, row in enumerate(IS[(D, 0)]):
        for v in row:
            cav[v].add(c)
    adj = [None] * (D + 1)
    adj[0] = cav
    for d in range(1, D):
        adj[d] = []
        for row in IS[(d, 0)]:
            s = set(cav[row[0]])
            for v in row[1:]:
                s &= cav[v]
            adj[d].append(s)
    adj[D] = [{c} for c in range(num[D])]
    return adj


def mesh_consistent(D, num, IS):
    """generator sanity: <D,d> lists exactly the d-entities whose vertices belong to the cell"""
    adj = adjacent_cells(D, num, IS)
    for d in range(D):
        sub = [set() for _ in range(num[D])]
        for e in range(num[d]):
            for c in adj[d][e]:
                sub[c].add(e)
        for c in range(num[D]):
            if set(IS[(D, d)][c]) != sub[c] or len(set(IS[(D, d)][c])) != len(IS[(D, d)][c]):
                return False
    return True


def check_level(D, num, IS, coords, ranks, graph_rows=None):
    """judges the dumped patches / halos / neighbour lists against the property statement"""
    R = len(ranks)
    nc = num[D]
    adj = adjacent_cells(D, num, IS)
    # --- cover once
    owner = [None] * nc
    for r, rk in enumerate(ranks):
        cells = rk["T"][D]
        if graph_rows is not None and cells != graph_rows[r]:
            return "patch %d cells %s differ from the given assignment %s" % (r, cells, graph_rows[r])
        if not cells:
            return "patch %d is empty" % r
        for c in cells:
            if c >= nc:
                return "patch %d refers to cell %d out of range" % (r, c)
            if owner[c] is not None:
                return "cell %d occurs in patch %d and again in patch %d" % (c, owner[c], r)
            owner[c] = r
    missing = [c for c in range(nc) if owner[c] is None]
    if missing:
        return "cells %s are in no patch" % missing[:5]
    # --- ranks adjacent to every entity
    ranks_of = [[{owner[c] for c in adj[d][e]} for e in range(num[d])] for d in range(D + 1)]
    for r, rk in enumerate(ranks):
        T = rk["T"]
        for d in range(D + 1):
            if len(set(T[d])) != len(T[d]):
                return "patch %d: dimension %d target set is not injective: %s" % (r, d, T[d])
            if any(e >= num[d] for e in T[d]):
                return "patch %d: dimension %d target out of range" % (r, d)
            exp = {e for e in range(num[d]) if r in ranks_of[d][e]}
            if set(T[d]) != exp:
                return "patch %d: dimension %d entities %s, expected the entities of its cells %s" % (
                    r, d, sorted(T[d]), sorted(exp))
            if rk["mnum"][d] != len(T[d]):
                return "patch %d: patch mesh has %d entities of dimension %d, patch part %d" % (r, rk["mnum"][d], d, len(T[d]))
        # patch mesh is the image of the base mesh under the patch->base maps (same local order)
        for (hi, lo) in pairs(D):
            rows = rk["MIS"][(hi, lo)]
            for i, row in enumerate(rows):
                if any(x >= len(T[lo]) for x in row):
                    return "patch %d: index set <%d,%d> entry out of range" % (r, hi, lo)
                if [T[lo][x] for x in row] != IS[(hi, lo)][T[hi][i]]:
                    return "patch %d: <%d,%d> of local entity %d maps to %s, base entity %d has %s" % (
                        r, hi, lo, i, [T[lo][x] for x in row], T[hi][i], IS[(hi, lo)][T[hi][i]])
        if coords is not None:
            for i, x in enumerate(rk["X"]):
                if x != coords[T[0][i]]:
                    return "patch %d: vertex %d has other coordinates than base vertex %d" % (r, i, T[0][i])
    # --- neighbours: symmetric and complete (sharing any vertex)
    for r, rk in enumerate(ranks):
        exp = set()
        for v in range(num[0]):
            if r in ranks_of[0][v]:
                exp |= ranks_of[0][v]
        exp.discard(r)
        if len(set(rk["C"])) != len(rk["C"]):
            return "rank %d: duplicate neighbour ranks %s" % (r, rk["C"])
        if set(rk["C"]) != exp:
            return "rank %d: neighbours %s, but it shares vertices with exactly %s" % (r, sorted(rk["C"]), sorted(exp))
        if set(rk["H"]) != exp:
            return "rank %d: halos towards %s, neighbours are %s" % (r, sorted(rk["H"]), sorted(exp))
        for s in rk["C"]:
            if s >= R or r not in ranks[s]["C"]:
                return "neighbour relation not symmetric: %d lists %d" % (r, s)
    # --- halos: same shared base entities in the same order
    for r, rk in enumerate(ranks):
        for s, H in rk["H"].items():
            for d in range(D + 1):
                T = rk["T"][d]
                if any(i >= len(T) for i in H[d]):
                    return "halo %d->%d dimension %d: local index out of range" % (r, s, d)
                mine = [T[i] for i in H[d]]
                To = ranks[s]["T"][d]
                Ho = ranks[s]["H"][r][d]
                if any(i >= len(To) for i in Ho):
                    return "halo %d->%d dimension %d: local index out of range" % (s, r, d)
                other = [To[i] for i in Ho]
                if len(set(mine)) != len(mine):
                    return "halo %d->%d dimension %d lists an entity twice" % (r, s, d)
                shared = {e for e in range(num[d]) if r in ranks_of[d][e] and s in ranks_of[d][e]}
                if set(mine) != shared:
                    return "halo %d->%d dimension %d = base %s, shared entities are %s" % (r, s, d, sorted(mine), sorted(shared))
                if mine != other:
                    return "halo %d->%d and %d->%d list %s of dimension %d: %s vs %s" % (
                        r, s, s, r, "the shared entities in different order" if set(mine) == set(other) else "different entities",
                        d, mine, other)
    return None


def components(D, num, IS):
    """number of facet-connected components of the mesh"""
    adj = adjacent_cells(D, num, IS)
    seen, comps = set(), 0
    for c0 in range(num[D]):
        if c0 in seen:
            continue
        comps += 1
        seen.add(c0)
        todo = [c0]
        while todo:
            x = todo.pop()
            for f in (IS[(D, D - 1)][x]):
                for y in adj[D - 1][f]:
                    if y not in seen:
                        seen.add(y)
                        todo.append(y)
    return comps


def p2l_expected(shape, n, ranks):
    f, inc = P2L[shape]
    k, cnt = 0, n
    while cnt < ranks:
        cnt *= f
        k += 1
    if cnt != ranks:
        return None
    lvl = -(-k // inc)
    return lvl, n * REF_FACTOR[shape] ** lvl


def check_partition_graph(n_img, rows, n_cells, ranks):
    if n_img != n_cells:
        return "partition graph has image size %d, mesh has %d cells" % (n_img, n_cells)
    if len(rows) != ranks:
        return "partitioner returned %d patches, %d requested" % (len(rows), ranks)
    if any(len(l) == 0 for l in rows):
        return "partitioner returned an empty patch"
    flat = sorted(c for l in rows for c in l)
    if flat != list(range(n_cells)):
        return "partitioner output is not a partition of the cells"
    return None


def oracle(case, out):
    c = Tk(case)
    op = c.tok()
    try:
        if op == "p2l":
            shape, n, ranks = c.tok(), c.nat(), c.nat()
            exp = p2l_expected(shape, n, ranks)
            if exp is None:
                return None if out == "F" else "no 2-level partitioning exists (n=%d, ranks=%d) but got %s" % (n, ranks, out[:60])
            if out == "F":
                return "a 2-level partitioning exists (n=%d, ranks=%d) but failure was reported" % (n, ranks)
            if is_abnormal(out):
                return "Parti2Lvl ended with " + out
            o = Tk(out)
            o.expect("S")
            lvl = o.nat()
            n_img, rows = o.graph_out()
            if lvl != exp[0]:
                return "partitioning level %d, expected %d" % (lvl, exp[0])
            e = check_partition_graph(n_img, rows, exp[1], ranks)
            if e:
                return e
            if len({len(l) for l in rows}) != 1:
                return "2-level patches of unequal size"
            return None
        shape = c.tok()
        D = DIM[shape]
        if op == "extract":
            num, IS, _ = c.mesh_in(D, False)
            n_img, rows = c.graph_in()
            if not mesh_consistent(D, num, IS):
                return "CHECK-BUG: generator produced an inconsistent mesh"
            if n_img != num[D] or any(len(l) == 0 for l in rows):
                return None if out.startswith("ABORT") else "invalid partition (empty rank / wrong cell count) not reported: " + out[:60]
            if is_abnormal(out):
                return "extract_patch on a valid partition ended with " + out
            o = Tk(out)
            ranks = o.level_out(D, False)
            if len(ranks) != len(rows):
                return "number of patches"
            return check_level(D, num, IS, None, ranks, rows)
        if op == "split":
            num, IS, _ = c.mesh_in(D, False)
            n_img, rows = c.graph_in()
            part = [c.lst() for _ in range(D + 1)]
            if is_abnormal(out):
                return "extract_patch with a base mesh part ended with " + out
            adj = adjacent_cells(D, num, IS)
            owner = {cc: r for r, l in enumerate(rows) for cc in l}
            o = Tk(out)
            o.expect("L")
            if o.nat() != len(rows):
                return "number of patches"
            for r in range(len(rows)):
                o.expect("S")
                # the patch-local numbering is that of the patch part: cells as given, lower dimensions ascending
                T = [sorted(e for e in range(num[d]) if any(owner[cc] == r for cc in adj[d][e])) for d in range(D)] + [rows[r]]
                exp = [[T[d].index(b) for b in part[d] if b in set(T[d])] for d in range(D + 1)]
                if all(len(l) == 0 for l in exp):
                    if o.tok() != "NONE":
                        return "patch %d: mesh part does not touch the patch but a split part was created" % r
                    continue
                got = [o.lst() for _ in range(D + 1)]
                for d in range(D + 1):
                    if any(i >= len(T[d]) for i in got[d]):
                        return "patch %d: split mesh part index out of range" % r
                    if [T[d][i] for i in got[d]] != [T[d][i] for i in exp[d]]:
                        return "patch %d: split mesh part dimension %d refers to base %s, parent part restricted to the patch is %s" % (
                            r, d, [T[d][i] for i in got[d]], [T[d][i] for i in exp[d]])
            return None
        if op in ("idist", "iterc"):
            if op == "idist":
                np_, start, thr = c.nat(), c.nat(), c.nat()
            else:
                seed, np_, thr = c.nat(), c.nat(), c.nat()
                cen = c.lst()
            num, IS, _ = c.mesh_in(D, False)
            n = num[D]
            if thr != iter_threshold(n, D, np_):
                return "CHECK-BUG: threshold of the case line"
            if is_abnormal(out):
                return "PartiIterative core ended with " + out
            adj = adjacent_cells(D, num, IS)

            def bfs(st):
                dist = {st: 0}
                todo = [st]
                while todo:
                    nxt = []
                    for x in todo:
                        for f in IS[(D, D - 1)][x]:
                            for y in adj[D - 1][f]:
                                if y not in dist:
                                    dist[y] = dist[x] + 1
                                    nxt.append(y)
                    todo = nxt
                return dist
            o = Tk(out)
            if op == "idist":
                o.expect("D")
                got = o.lst()
                if len(got) != n:
                    return "distance list has the wrong length"
                ref = bfs(start)
                far = any(dv >= thr + 1 for dv in ref.values())
                for v in range(n):
                    if v in ref and ref[v] <= thr + 1:
                        if got[v] != ref[v]:
                            return "cell %d: distance %d, facet distance from cell %d is %d" % (v, got[v], start, ref[v])
                    elif v in ref or far:
                        if got[v] != M64:
                            return "cell %d beyond the exploration threshold / unreachable has distance %d" % (v, got[v])
                return None
            o.expect("IC")
            got_c = o.lst()
            if got_c != sorted(cen):
                return "CHECK-BUG: the generator's Random replica predicted the centres %s, PartiIterative drew %s" % (sorted(cen), got_c)
            t = o.tok()
            if t == "UNINIT":
                un = o.lst()
                return ("PartiIterative ended with an uncaught std::out_of_range (uninitialised patch index of a cell no "
                        "centre reached): cells %s keep an uninitialised PartiIterativeItem::patch" % un[:6])
            rows = [o.lst() for _ in range(o.nat())]
            e = check_partition_graph(n, rows, n, np_)
            if e == "partitioner returned an empty patch" and components(D, num, IS) > 1:
                return "PartiIterative returned an empty patch without reporting failure (disconnected base mesh)"
            return e
        if op == "hsplit":
            num, IS, _ = c.mesh_in(D, False)
            n_img, rows = c.graph_in()
            child = c.lst()
            if is_abnormal(out):
                return "two-level halo splitting ended with " + out
            adj = adjacent_cells(D, num, IS)
            par_of = {cc: a for a, l in enumerate(rows) for cc in l}
            # parent patch numbering: cells as given, lower dimensions ascending base order
            TP = [[sorted(e for e in range(num[d]) if any(par_of[cc] == a for cc in adj[d][e])) for d in range(D)] + [rows[a]]
                  for a in range(len(rows))]
            kids_of = [sorted({child[cc] for cc in rows[a]}) for a in range(len(rows))]

            def ents(a, ch, d):
                return {e for e in range(num[d]) if any(par_of[cc] == a and child[cc] == ch for cc in adj[d][e])}

            o = Tk(out)
            o.expect("HS")
            if o.nat() != len(rows):
                return "number of parent patches"
            got = {}
            base_of = {}
            for a in range(len(rows)):
                o.expect("P")
                nc = o.nat()
                if nc != len(kids_of[a]) or kids_of[a] != list(range(nc)):
                    return "parent %d: %d children reported, expected %s" % (a, nc, kids_of[a])
                for ch in range(nc):
                    o.expect("K")
                    ct = [o.lst() for _ in range(D + 1)]
                    for d in range(D + 1):
                        if any(i >= len(TP[a][d]) for i in ct[d]):
                            return "child (%d,%d): patch part index out of range" % (a, ch)
                        b = [TP[a][d][i] for i in ct[d]]
                        if len(set(b)) != len(b) or set(b) != ents(a, ch, d):
                            return "child (%d,%d): dimension %d part is %s, its cells have the entities %s" % (
                                a, ch, d, sorted(b), sorted(ents(a, ch, d)))
                        base_of[(a, ch, d)] = b
                    o.expect("H")
                    for _ in range(o.nat()):
                        b2, dh = o.nat(), o.nat()
                        ls = [o.lst() for _ in range(D + 1)]
                        if (a, ch, b2, dh) in got:
                            return "duplicate child halo"
                        for d in range(D + 1):
                            if any(i >= len(base_of[(a, ch, d)]) for i in ls[d]):
                                return "child halo (%d,%d)->(%d,%d): index out of range" % (a, ch, b2, dh)
                        got[(a, ch, b2, dh)] = [[base_of[(a, ch, d)][i] for i in ls[d]] for d in range(D + 1)]
            for a in range(len(rows)):
                for ch in kids_of[a]:
                    for b2 in range(len(rows)):
                        if b2 == a:
                            continue
                        for dh in kids_of[b2]:
                            shared = [ents(a, ch, d) & ents(b2, dh, d) for d in range(D + 1)]
                            key = (a, ch, b2, dh)
                            if not any(shared):
                                if key in got:
                                    return "child halo (%d,%d)->(%d,%d) exists but the patches share nothing" % key
                                continue
                            if key not in got:
                                return "children (%d,%d) and (%d,%d) share entities but have no halo" % key
                            for d in range(D + 1):
                                if len(set(got[key][d])) != len(got[key][d]) or set(got[key][d]) != shared[d]:
                                    return "child halo (%d,%d)->(%d,%d) dimension %d = base %s, shared entities are %s" % (
                                        a, ch, b2, dh, d, got[key][d], sorted(shared[d]))
                                other = got.get((b2, dh, a, ch))
                                if other is not None and other[d] != got[key][d]:
                                    return "child halos (%d,%d)<->(%d,%d) list dimension %d in different order: %s vs %s" % (
                                        a, ch, b2, dh, d, got[key][d], other[d])
            return None
        if op == "refine":
            depth = c.nat()
            num, IS, coords = c.mesh_in(D, True)
            n_img, rows = c.graph_in()
            if is_abnormal(out):
                return "extraction + refinement ended with " + out
            o = Tk(out)
            o.expect("B")
            fnum = [o.nat() for _ in range(D + 1)]
            FIS = o.flat_sets(D, fnum)
            fcoords = o.coords_out(D, fnum[0])
            ranks = o.level_out(D, True)
            fac = REF_FACTOR[shape] ** depth
            if fnum[D] != num[D] * fac:
                return "refined base mesh has %d cells, expected %d" % (fnum[D], num[D] * fac)
            if len(ranks) != len(rows):
                return "number of patches"
            for r, rk in enumerate(ranks):
                if len(rk["T"][D]) != len(rows[r]) * fac:
                    return "patch %d has %d cells after %d refinements of %d cells" % (r, len(rk["T"][D]), depth, len(rows[r]))
            return check_level(D, fnum, FIS, fcoords, ranks, None)
        if op == "auto":
            kind, nranks, depth = c.nat(), c.nat(), c.nat()
            num, IS, coords = c.mesh_in(D, True)
            if kind == 0:
                exp = p2l_expected(shape, num[D], nranks)
                if exp is None:
                    return None if out == "F" else "no 2-level partitioning exists but got " + out[:60]
                if out == "F":
                    return "2-level partitioning exists but failure reported"
            if is_abnormal(out) or out == "F":
                if kind != 0 and out == "EXC:St12out_of_range":
                    # open known finding c12-edge:F1 (see signature() and KNOWN_FINDINGS.json)
                    return "PartiIterative ended with an uncaught std::out_of_range (uninitialised patch index of a cell no centre reached)"
                return "partitioner + extraction ended with " + out
            o = Tk(out)
            o.expect("P")
            lvl = o.nat()
            n_img, rows = o.graph_out()
            pcells = num[D] * REF_FACTOR[shape] ** lvl
            if kind == 0 and lvl != exp[0]:
                return "partitioning level %d, expected %d" % (lvl, exp[0])
            e = check_partition_graph(n_img, rows, pcells, nranks)
            if e:
                if kind != 0 and e == "partitioner returned an empty patch" and components(D, num, IS) > 1:
                    # open known finding c12-edge:F2 (see signature() and KNOWN_FINDINGS.json)
                    return "PartiIterative returned an empty patch without reporting failure (disconnected base mesh)"
                return e
            o.expect("B")
            fnum = [o.nat() for _ in range(D + 1)]
            FIS = o.flat_sets(D, fnum)
            fcoords = o.coords_out(D, fnum[0])
            ranks = o.level_out(D, True)
            fac = REF_FACTOR[shape] ** depth
            if fnum[D] != pcells * fac:
                return "refined base mesh has %d cells, expected %d" % (fnum[D], pcells * fac)
            for r, rk in enumerate(ranks):
                if len(rk["T"][D]) != len(rows[r]) * fac:
                    return "patch %d has %d cells after %d refinements of %d cells" % (r, len(rk["T"][D]), depth, len(rows[r]))
            return check_level(D, fnum, FIS, fcoords, ranks, rows if depth == 0 else None)
    except (IndexError, ValueError, AssertionError, KeyError) as e:
        return "unparsable implementation output (%s): %s" % (e, out[:200])
    return None


def oracle_wf(case, out):
    """`wf` stream: the Lean-side decidable hypotheses of the theorems hold on the generated inputs"""
    c = Tk(case)
    c.tok()
    shape = c.tok()
    D = DIM[shape]
    num, IS, _ = c.mesh_in(D, False)
    n_img, rows = c.graph_in()
    part = n_img == num[D] and sorted(x for l in rows for x in l) == list(range(n_img))
    exp = "WF 1 %d %d 1" % (1 if part else 0, 1 if n_img == num[D] else 0)
    return None if out == exp else "theorem hypotheses on generated input: model says %s, expected %s" % (out, exp)


def _parse_case(case):
    c = Tk(case)
    op = c.tok()
    if op == "p2l":
        return op, c.tok(), None
    shape = c.tok()
    D = DIM[shape]
    if op == "extract" or op == "wf" or op == "split" or op == "hsplit":
        num, IS, _ = c.mesh_in(D, False)
        n_img, rows = c.graph_in()
        return op, shape, (num, IS, n_img, rows)
    if op == "refine":
        c.nat()
        num, IS, _ = c.mesh_in(D, True)
        n_img, rows = c.graph_in()
        return op, shape, (num, IS, n_img, rows)
    return op, shape, None


def max_vertex_sharing(num, IS, rows, D):
    owner = {}
    for r, l in enumerate(rows):
        for cc in l:
            owner[cc] = r
    best = 0
    rav = [set() for _ in range(num[0])]
    for cc, row in enumerate(IS[(D, 0)]):
        if cc in owner:
            for v in row:
                rav[v].add(owner[cc])
    for s in rav:
        best = max(best, len(s))
    return best


def nontrivial(case):
    """>= 3 ranks and some vertex shared by >= 3 patches (p2l: a partitioning exists with >= 2 ranks)"""
    try:
        op, shape, d = _parse_case(case)
        if op == "p2l":
            t = case.split()
            return int(t[3]) >= 2 and p2l_expected(shape, int(t[2]), int(t[3])) is not None
        if op == "auto":
            return int(case.split()[3]) >= 3
        num, IS, n_img, rows = d
        return len(rows) >= 3 and max_vertex_sharing(num, IS, rows, DIM[shape]) >= 3
    except Exception:
        return False


def describe(case):
    keys = []
    try:
        op, shape, d = _parse_case(case)
        keys += ["op:" + op, "shape:" + shape]
        t = case.split()
        if op == "p2l":
            keys.append("p2l:" + ("exists" if p2l_expected(shape, int(t[2]), int(t[3])) else "none"))
        elif op == "auto":
            keys += ["parti:" + {"0": "2lvl", "1": "iter", "2": "iter+mutate"}[t[2]], "postrefine:" + t[4]]
        else:
            num, IS, n_img, rows = d
            D = DIM[shape]
            if op == "refine":
                keys.append("depth:" + t[2])
            R = len(rows)
            keys.append("ranks:" + ("1" if R == 1 else "2" if R == 2 else "3-5" if R <= 5 else "6+"))
            if R == num[D]:
                keys.append("ranks=cells")
            keys.append("cells:" + ("1-4" if num[D] <= 4 else "5-16" if num[D] <= 16 else "17+"))
            if n_img != num[D]:
                keys.append("class:count-mismatch")
            elif any(len(l) == 0 for l in rows):
                keys.append("class:empty-rank")
            else:
                if any(l != sorted(l) for l in rows):
                    keys.append("class:unsorted-rows")
                keys.append("max-patches-at-vertex:%d" % max_vertex_sharing(num, IS, rows, D))
                # patches touching in a single vertex only / disconnected patches
                owner = {}
                for r, l in enumerate(rows):
                    for cc in l:
                        owner[cc] = r
                adj = adjacent_cells(D, num, IS)
                if D >= 2:
                    facet_pairs = {frozenset((owner[a], owner[b])) for s in adj[D - 1] for a in s for b in s if owner[a] != owner[b]}
                    vert_pairs = {frozenset((owner[a], owner[b])) for s in adj[0] for a in s for b in s if owner[a] != owner[b]}
                    if vert_pairs - facet_pairs:
                        keys.append("class:neighbours-without-common-facet")
                if D >= 2 and corner_after_higher(D, num, IS, rows):
                    keys.append("corner-only-neighbour-after-edge/face-neighbour")
                if D == 3:
                    level = {}
                    for dd in (0, 1, 2):
                        for sset in adj[dd]:
                            rs = {owner[a] for a in sset}
                            for a in rs:
                                for b in rs:
                                    if a != b:
                                        level[(a, b)] = max(level.get((a, b), 0), dd)
                    kinds = {}
                    for (a, b), lv in level.items():
                        kinds.setdefault(a, set()).add(lv)
                    names = {0: "vertex-only", 1: "edge-only", 2: "face"}
                    for lv in sorted({lv for v in kinds.values() for lv in v}):
                        keys.append("contact3d:" + names[lv])
                    if any(2 in v and (0 in v or 1 in v) for v in kinds.values()):
                        keys.append("contact3d:rank-with-face-and-lower-contacts")
                for r, l in enumerate(rows):
                    seen, todo = {l[0]}, [l[0]]
                    ls = set(l)
                    while todo:
                        x = todo.pop()
                        for f in IS[(D, D - 1)][x]:
                            for y in adj[D - 1][f]:
                                if y in ls and y not in seen:
                                    seen.add(y)
                                    todo.append(y)
                    if len(seen) != len(l):
                        keys.append("class:disconnected-patch")
                        break
    except Exception:
        keys.append("describe-error")
    return keys


def signature(case, out, why):
    t = case.split()
    if ((t[0] == "auto" and t[2] != "0") or t[0] == "iterc") and why:
        # the two open defects of Geometry::PartiIterative (time-seeded in `auto`, deterministic per seed in `iterc`)
        if out == "EXC:St12out_of_range" or why.startswith("PartiIterative ended with an uncaught std::out_of_range"):
            return "c12-edge:F1"
        if why.startswith("PartiIterative returned an empty patch without reporting failure (disconnected"):
            return "c12-edge:F2"
    return "%s:%s:%s" % (t[0], t[1], (why or "")[:40])


def canon(out):
    return "ABORT" if out.startswith("ABORT") else out


def main(argv):
    args = vlib.std_args(argv)
    t0 = time.time()
    rng = random.Random(args.seed * 1000003 + 12)
    lean = None if args.no_lean else vlib.lean_check(PROP, leanchecker=(args.tier == "thorough"))
    binary, err = vlib.build_harness("c12", os.path.join(vlib.VERIF, "harness", "c12", "main.cpp"))
    if binary is None:
        v = [{"property": PROP, "kind": "harness-build-failure", "detail": err, "failing_input": None,
              "broken": "harness c12 does not compile against the current tree"}]
        return vlib.finish(PROP, args.tier, args.seed, t0, lean, [], [], v, [])
    quick = args.tier == "quick"
    drv = vlib.driver_cmd(PROP)
    if args.replay:
        rp = json.load(open(args.replay))
        case = rp["input"]
        op = case.split()[0]
        if op in ("extract", "p2l", "split", "hsplit", "refine", "idist", "iterc"):
            streams = [vlib.Stream(rp.get("stream", "replay"), [case], [binary], drv, oracle=oracle, nontrivial=nontrivial,
                                   describe=describe, signature=signature, canon=canon)]
        elif op == "wf":
            streams = [vlib.Stream("hypotheses", [case], drv, None, oracle=oracle_wf)]
        else:
            streams = [vlib.Stream(rp.get("stream", "replay"), [case], [binary], None, oracle=oracle, nontrivial=nontrivial,
                                   describe=describe, signature=signature, canon=canon)]
    else:
        corpus = []
        cdir = os.path.join(vlib.CORPUS, "c12")
        if os.path.isdir(cdir):
            for fn in sorted(os.listdir(cdir)):
                corpus += [l.strip() for l in open(os.path.join(cdir, fn)) if l.strip() and not l.startswith("#")]
        c_ext = [l for l in corpus if l.split()[0] in ("extract", "p2l", "split", "hsplit")]
        c_oth = [l for l in corpus if l.split()[0] == "refine"]
        c_aut = [l for l in corpus if l.split()[0] == "auto"]
        n_ext, n_big, n_p2l, n_ref, n_auto, n_iter = (1500, 60, 300, 260, 120, 60) if quick else (14000, 800, 3000, 3000, 1500, 600)
        ext = CORPUS_EXTRACT + c_ext + gen_contacts(rng, "extract", 2 if quick else 8) + [gen_extract(rng) for _ in range(n_ext)] + [gen_extract(rng, True) for _ in range(n_big)]
        spl = [gen_split(rng) for _ in range(n_ext // 5)]
        hsp = gen_hsplit_grid(quick) + [gen_hsplit(rng) for _ in range(n_ext // 10)]
        bnd_mod, bnd_big = gen_boundary(quick)
        itc = [gen_idist(rng) for _ in range(n_ext // 5)] + [gen_iterc(rng) for _ in range(n_ext // 5)]
        p2l = [gen_p2l(rng) for _ in range(n_p2l)]
        ref = c_oth + gen_contacts(rng, "refine", 1 if quick else 4) + [gen_refine(rng) for _ in range(n_ref)]
        aut = c_aut + [gen_auto(rng, False) for _ in range(n_auto)] + [gen_auto(rng, True) for _ in range(n_iter)]
        wf = ["wf" + l[len("extract"):] for l in ext if l.startswith("extract")]
        streams = [
            vlib.Stream("extract", ext, [binary], drv, oracle=oracle, nontrivial=nontrivial, describe=describe,
                        signature=signature, canon=canon),
            vlib.Stream("boundary-sizes", [c for c in bnd_mod if boundary_model_filter(c)], [binary], drv, oracle=oracle,
                        nontrivial=lambda c: True, describe=describe_boundary, signature=signature, canon=canon),
            # rank / neighbour counts the (quadratic) list model cannot evaluate in time: independent oracle only
            vlib.Stream("boundary-sizes-large", [c for c in bnd_mod if not boundary_model_filter(c)] + bnd_big, [binary],
                        None, oracle=oracle, nontrivial=lambda c: True, describe=describe_boundary, signature=signature,
                        canon=canon),
            vlib.Stream("exhaustive-small", gen_exhaustive(quick), [binary], drv, oracle=oracle, nontrivial=nontrivial,
                        describe=describe, signature=signature, canon=canon),
            vlib.Stream("split-meshpart", spl, [binary], drv, oracle=oracle, nontrivial=nontrivial, describe=describe,
                        signature=signature, canon=canon),
            vlib.Stream("split-halo-2level", hsp, [binary], drv, oracle=oracle, nontrivial=nontrivial, describe=describe,
                        signature=signature, canon=canon),
            vlib.Stream("parti-iterative-core", itc, [binary], drv, oracle=oracle, nontrivial=lambda c: True,
                        describe=lambda c: ["op:" + c.split()[0], "shape:" + c.split()[1]], signature=signature, canon=canon),
            vlib.Stream("parti2lvl", p2l, [binary], drv, oracle=oracle, nontrivial=nontrivial, describe=describe,
                        signature=signature, canon=canon),
            vlib.Stream("hypotheses", wf, drv, None, oracle=oracle_wf, nontrivial=lambda c: False),
            vlib.Stream("refined", ref, [binary], drv, oracle=oracle, nontrivial=nontrivial, describe=describe,
                        signature=signature, canon=canon),
            vlib.Stream("partitioners", aut, [binary], None, oracle=oracle, nontrivial=nontrivial, describe=describe,
                        signature=signature, canon=canon),
        ]
    stats_rule = ("conforming 1-D/2-D/3-D meshes (quads, triangles, hexahedra, tetrahedra; grids with holes, random cell / "
                  "vertex / edge / face numbering and orientation), 1..#cells ranks, explicit assignments (random, blocks, "
                  "checkerboard, stripes; unsorted rows; empty rank and cell-count mismatch as abort classes), every rank "
                  "extracted with the real extract_patch; deterministic 3-D contact configurations on every run (2x2x2 one "
                  "cell per rank, 3x3x3 checkerboards, L-shapes, diagonal cells; hexahedra and tetrahedra) so that face-, "
                  "edge-only and vertex-only neighbours follow each other in the halo factory's discovery order; 1-2 joint "
                  "refinements and the two-level halo splitter are compared with the Lean model AND judged by the oracle; "
                  "the built-in partitioners by the oracle only; non-trivial = >= 3 ranks and a vertex shared by >= 3 patches")
    rc = vlib.run_pipeline(PROP, args.tier, args.seed, lean, streams, t0, assumptions=[
        "Index modelled as unbounded Nat (no 64-bit overflow at the sizes FEAT can allocate)",
        "meshes are conforming (Mesh.consistent); the refined base mesh printed by FEAT is taken as the base mesh of "
        "the refined level (its conformity is property C10)",
        "PartiIterative is time-seeded: judged on its output only (oracle), not modelled",
        "two-level halo splitting: the MPI transport of the serialized split halos (parti_domain_control_base.hpp) is "
        "replaced by handing the buffer of serialize_split_halo directly to intersect_split_halo"],
        extra_cov={"rule": stats_rule})
    return rc
