"""C13 - distributed vectors, operators and solves equal the single-process results.

Two correspondence streams:
 (a) "inproc": exact arithmetic (Q), no MPI.  The harness drives the real LAFEM::VectorMirror / Global::Gate /
     DenseVector(Blocked) / SparseMatrixCSR code over all patches of a random decomposition with an emulated
     message exchange in a given arrival order; outputs are compared with the Lean model (Model/Dist.lean) for
     equality and judged by the oracle below against the property statement (sum over all sharers exactly once,
     common value, 1/#sharers, undecomposed dot product, undecomposed operator).
 (b) "mpi": the real Gate/SynchVectorTicket/Global::Vector/Matrix/Muxer/Transfer code under mpirun -n N through
     PartiDomainControl + ScalarCombinedSystemLevel; partition independent scalars must equal the N = 1 values
     (bit-identical for the dyadic "x_" keys, up to rounding / solver tolerance for the others).
"""
import json
import os
import random
import subprocess
import sys
import threading
import time
from concurrent.futures import ThreadPoolExecutor
from fractions import Fraction

import vlib

PROP = "C13"
HDIR = os.path.join(vlib.VERIF, "harness", "c13")

# ---------------------------------------------------------------------------------------------
# (a) generator: random decompositions
# ---------------------------------------------------------------------------------------------


def fmt_list(l):
    return ("%d " % len(l) + " ".join(map(str, l))).strip()


def fmt_rats(l):
    return ("%d " % len(l) + " ".join(vlib.frac_str(Fraction(x)) for x in l)).strip()


def rand_rat(rng, small=False):
    k = rng.random()
    if k < 0.15:
        return Fraction(0)
    if k < 0.6 or small:
        return Fraction(rng.randint(-9, 9))
    return Fraction(rng.randint(-40, 40), rng.choice([1, 2, 3, 4, 5, 7, 8]))


def gen_membership(rng, style, P):
    """-> list (per global DOF) of the sorted patch list that contains it"""
    mem = []
    if style == "disjoint":
        for r in range(P):
            mem += [[r]] * rng.randint(0, 3)
    elif style == "chain":          # 1D strip: interface DOFs shared by two consecutive patches
        for r in range(P):
            mem += [[r]] * rng.randint(0, 3)
            if r + 1 < P:
                mem += [[r, r + 1]] * rng.randint(1, 2)
    elif style == "grid":           # px x py boxes of a vertex grid: edges shared by 2, cross points by 4
        px = rng.choice([1, 2, 3])
        py = max(1, P // px)
        m = rng.choice([1, 2])      # cells per patch and direction
        nx, ny = px * m + 1, py * m + 1
        for j in range(ny):
            for i in range(nx):
                ps = set()
                for ci in (i - 1, i):
                    for cj in (j - 1, j):
                        if 0 <= ci < nx - 1 and 0 <= cj < ny - 1:
                            ps.add((cj // m) * px + ci // m)
                mem.append(sorted(ps))
        P = px * py
    elif style == "star":           # one DOF shared by everybody, plus pairwise and private DOFs
        mem.append(list(range(P)))
        for r in range(P):
            mem += [[r]] * rng.randint(0, 2)
        for _ in range(rng.randint(0, P)):
            a, b = rng.randrange(P), rng.randrange(P)
            if a != b:
                mem.append(sorted((a, b)))
    else:                           # random subsets
        G = rng.randint(1, 3 * P + 2)
        for _ in range(G):
            k = rng.choice([1, 1, 1, 2, 2, 3, min(P, 4), P])
            mem.append(sorted(rng.sample(range(P), min(k, P))))
    return P, mem


def gen_decomp(rng, P=None, style=None):
    P = rng.choice([1, 2, 2, 3, 3, 4, 4, 5, 6, 8, 9, 12, 16]) if P is None else P
    style = rng.choice(["disjoint", "chain", "grid", "grid", "star", "random", "random"]) if style is None else style
    P, mem = gen_membership(rng, style, P)
    order = list(range(len(mem)))
    rng.shuffle(order)              # global numbering unrelated to the construction order
    mem = [mem[k] for k in order]
    G = len(mem)
    maps = [[g for g in range(G) if r in mem[g]] for r in range(P)]
    for m in maps:
        if rng.random() < 0.7:
            rng.shuffle(m)
    nbrs = [[] for _ in range(P)]
    for r in range(P):
        for s in range(r + 1, P):
            shared = [g for g in maps[r] if s in mem[g]]
            if not shared:
                if rng.random() < 0.03:     # a neighbour with an empty halo
                    nbrs[r].append((s, []))
                    nbrs[s].append((r, []))
                continue
            k = rng.random()
            if k < 0.4:
                shared.sort()
            elif k < 0.8:
                rng.shuffle(shared)
            nbrs[r].append((s, [maps[r].index(g) for g in shared]))
            nbrs[s].append((r, [maps[s].index(g) for g in shared]))
    for nb in nbrs:
        rng.shuffle(nb)
    return G, maps, nbrs


def fmt_decomp(G, maps, nbrs):
    parts = ["%d %d" % (G, len(maps))]
    parts += [fmt_list(m) for m in maps]
    for nb in nbrs:
        parts.append(" ".join([str(len(nb))] + ["%d %s" % (s, fmt_list(m)) for s, m in nb]))
    return " ".join(parts)


def gen_orders(rng, nbrs):
    out = []
    for nb in nbrs:
        o = list(range(len(nb)))
        k = rng.random()
        if k < 0.6:
            rng.shuffle(o)
        elif k < 0.8:
            o.reverse()
        out.append(o)
    return out


def break_decomp(rng, G, maps, nbrs):
    """malformed gate data (the model must still agree with the code; the oracle does not apply)"""
    nbrs = [[(s, list(m)) for s, m in nb] for nb in nbrs]
    cand = [(r, k) for r in range(len(nbrs)) for k in range(len(nbrs[r]))]
    if not cand:
        return nbrs, "wf"
    r, k = rng.choice(cand)
    s, m = nbrs[r][k]
    kind = rng.choice(["dup", "swap", "drop-nbr", "shorten"])
    if kind == "dup" and m:
        m[rng.randrange(len(m))] = m[0]                 # duplicate index in one mirror
    elif kind == "swap" and len(m) >= 2:
        m[0], m[-1] = m[-1], m[0]                       # the two sides list the DOFs in different orders
    elif kind == "drop-nbr":
        del nbrs[r][k]                                  # r posts no receive for s: unmatched send
    elif kind == "shorten" and m:
        m.pop()                                         # buffer lengths differ
    else:
        return nbrs, "wf"
    return nbrs, kind


# ---------------------------------------------------------------------------------------------
# (a') composite vector kinds: leaves (block size, mirror slot) in buffer order
# ---------------------------------------------------------------------------------------------

KINDS = {
    "t2": [(1, 0), (2, 1)],                             # TupleVector<DV, DVB2>
    "t3": [(2, 0), (1, 1), (3, 2)],                     # TupleVector<DVB2, DV, DVB3>
    "t4": [(1, 0), (2, 1), (1, 2), (1, 3)],             # TupleVector<DV, DVB2, DV, DV>
    "p3": [(1, 0), (1, 0), (1, 0)],                     # PowerVector<DV, 3> (one mirror for all components)
    "nest": [(2, 0), (2, 0), (1, 1), (3, 2), (1, 3)],   # Tuple<Power<DVB2,2>, Tuple<DV,DVB3>, DV>
}


def kind_slots(kind):
    return 1 + max(s for _, s in KINDS[kind])


def gen_cdecomp(rng, kind):
    S = kind_slots(kind)
    P = rng.choice([1, 2, 2, 3, 3, 4, 5, 6])
    Gs, maps, mems = [], [], []
    for s in range(S):
        style = rng.choice(["disjoint", "chain", "star", "random", "random"])
        _, mem = gen_membership(rng, style, P)
        rng.shuffle(mem)
        mems.append(mem)
        Gs.append(len(mem))
        ms = [[g for g in range(len(mem)) if r in mem[g]] for r in range(P)]
        for m in ms:
            if rng.random() < 0.7:
                rng.shuffle(m)
        maps.append(ms)
    nbrs = [[] for _ in range(P)]
    for r in range(P):
        for q in range(r + 1, P):
            shared = []
            for s in range(S):
                sh = [g for g in maps[s][r] if q in mems[s][g]]
                if rng.random() < 0.6:
                    rng.shuffle(sh)
                shared.append(sh)
            if not any(shared) and rng.random() > 0.03:
                continue
            nbrs[r].append((q, [[maps[s][r].index(g) for g in shared[s]] for s in range(S)]))
            nbrs[q].append((r, [[maps[s][q].index(g) for g in shared[s]] for s in range(S)]))
    for nb in nbrs:
        rng.shuffle(nb)
    return P, S, Gs, maps, nbrs


def fmt_cdecomp(P, S, Gs, maps, nbrs):
    parts = ["%d %d" % (P, S), " ".join(map(str, Gs))]
    for r in range(P):
        parts += [fmt_list(maps[s][r]) for s in range(S)]
    for nb in nbrs:
        parts.append(" ".join([str(len(nb))] + ["%d %s" % (q, " ".join(fmt_list(m) for m in ms)) for q, ms in nb]))
    return " ".join(parts)


def gen_composite_case(rng):
    kind = rng.choice(["t2", "t3", "t3", "t4", "p3", "nest", "nest"])
    leaves = KINDS[kind]
    S = kind_slots(kind)
    k = rng.random()
    if k < 0.6:
        P, S, Gs, maps, nbrs = gen_cdecomp(rng, kind)
        D = fmt_cdecomp(P, S, Gs, maps, nbrs)
        flat_nbrs = [[q for q, _ in nb] for nb in nbrs]
        ords = " ".join(fmt_list(o) for o in gen_orders(rng, flat_nbrs))
        if k < 0.45:
            op = "csync0" if k < 0.28 else "csync1"
            if op == "csync1" and rng.random() < 0.5:
                X = [[[rand_rat(rng) for _ in range(bs)] for _ in range(Gs[sl])] for bs, sl in leaves]
                vs = [[[X[l][g][c] for g in maps[sl][r] for c in range(bs)] for l, (bs, sl) in enumerate(leaves)] for r in range(P)]
            else:
                vs = [[[rand_rat(rng) for _ in range(len(maps[sl][r]) * bs)] for bs, sl in leaves] for r in range(P)]
            return "%s %s %s %s %s" % (op, kind, D, ords, " ".join(fmt_rats(l) for v in vs for l in v))
        X = [[[rand_rat(rng) for _ in range(bs)] for _ in range(Gs[sl])] for bs, sl in leaves]
        Y = [[[rand_rat(rng) for _ in range(bs)] for _ in range(Gs[sl])] for bs, sl in leaves]
        xs = [[[X[l][g][c] for g in maps[sl][r] for c in range(bs)] for l, (bs, sl) in enumerate(leaves)] for r in range(P)]
        ys = [[[Y[l][g][c] for g in maps[sl][r] for c in range(bs)] for l, (bs, sl) in enumerate(leaves)] for r in range(P)]
        return "%s %s %s %s %s" % ("cdot" if rng.random() < 0.5 else "casync", kind, D, " ".join(fmt_rats(l) for v in xs for l in v), " ".join(fmt_rats(l) for v in ys for l in v))
    # muxer: C children of one parent process
    C = rng.choice([1, 2, 2, 3, 3, 4])
    pn = [rng.randint(0, 6) for _ in range(S)]
    children = []
    for c in range(C):
        ch = []
        for s in range(S):
            sub = [i for i in range(pn[s]) if rng.random() < (0.6 if C > 1 else 1.0)]
            rng.shuffle(sub)                 # child numbering: child DOF j is parent DOF sub[j]
            pm = list(range(len(sub)))
            if rng.random() < 0.5:
                rng.shuffle(pm)              # parent mirror: usually the identity, any permutation is allowed
            ch.append((len(sub), pm, [sub[j] for j in pm]))
        children.append(ch)
    head = "%d %d %s %s" % (C, S, " ".join(map(str, pn)),
                            " ".join("%d %s %s" % (n, fmt_list(pm), fmt_list(cm)) for ch in children for n, pm, cm in ch))
    if rng.random() < 0.5:
        srcs = [[[rand_rat(rng) for _ in range(ch[sl][0] * bs)] for bs, sl in leaves] for ch in children]
        return "cmuxjoin %s %s %s" % (kind, head, " ".join(fmt_rats(l) for v in srcs for l in v))
    src = [[rand_rat(rng) for _ in range(pn[sl] * bs)] for bs, sl in leaves]
    return "cmuxsplit %s %s %s" % (kind, head, " ".join(fmt_rats(l) for l in src))


def q_sqrt(x):
    """the deterministic rational square root of harness/common/exact_q.hpp"""
    import math
    n, d = x.numerator, x.denominator
    return Fraction(math.isqrt(n * d << 80), d << 40)


def gen_mats(rng, maps, diag=False):
    mats = []
    for m in maps:
        n = len(m)
        rows = []
        for i in range(n):
            cols = sorted(rng.sample(range(n), min(n, rng.randint(1 if i == 0 else 0, 3))))
            if (diag or rng.random() < 0.5) and i not in cols:
                cols = sorted(cols + [i])
            rows.append(" ".join([str(len(cols))] + ["%d %s" % (c, vlib.frac_str(rand_rat(rng, small=True))) for c in cols]))
        mats.append(" ".join([str(n)] + rows))
    return mats


def gen_global_case(rng):
    """more of the Global layer: norms, reductions, Global::Vector arithmetic, apply(r,x,y,alpha), diag/lump, filters"""
    k = rng.random()
    if k < 0.06:
        l = [rand_rat(rng) for _ in range(rng.randint(1, 8))]
        return "gred %s" % fmt_rats(l)
    bs = rng.choice([1, 1, 2, 3])
    while True:
        G, maps, nbrs = gen_decomp(rng)
        if all(len(m) > 0 for m in maps):
            break
    if k < 0.14:
        # base splitter: root mirror = a permutation of the patch DOFs, patch mirror = the same DOFs in the base vector
        rms, bms = [], []
        for m in maps:
            rm = list(range(len(m)))
            if rng.random() < 0.5:
                rng.shuffle(rm)
            rms.append(rm)
            bms.append([m[j] for j in rm])
        head = "%s %d %s %s" % (fmt_decomp(G, maps, nbrs), G, " ".join(fmt_list(x) for x in rms), " ".join(fmt_list(x) for x in bms))
        if rng.random() < 0.5:
            if rng.random() < 0.6:
                X = [rand_rat(rng) for _ in range(G)]
                vs = [[X[g] for g in m] for m in maps]
            else:
                vs = [[rand_rat(rng) for _ in m] for m in maps]
            return "spljoin %s %s" % (head, " ".join(fmt_rats(v) for v in vs))
        return "splsplit %s %s" % (head, fmt_rats([rand_rat(rng) for _ in range(G)]))
    P = len(maps)
    D = fmt_decomp(G, maps, nbrs)
    ords = " ".join(fmt_list(o) for o in gen_orders(rng, nbrs))

    def type1(b):
        X = [[rand_rat(rng) for _ in range(b)] for _ in range(G)]
        return [[X[g][c] for g in m for c in range(b)] for m in maps]
    if k < 0.20:
        return "norm %d %s %s" % (bs, D, " ".join(fmt_rats(v) for v in type1(bs)))
    if k < 0.28:
        return "async %d %s %s %s" % (bs, D, " ".join(fmt_rats(v) for v in type1(bs)), " ".join(fmt_rats(v) for v in type1(bs)))
    if k < 0.38:
        return "vmax %d %s %s" % (bs, D, " ".join(fmt_rats(v) for v in type1(bs)))
    if k < 0.52:
        mode = rng.randrange(2)
        if mode == 0 or rng.random() < 0.5:
            ys, xs = type1(bs), type1(bs)
        else:
            ys = [[rand_rat(rng) for _ in range(len(m) * bs)] for m in maps]
            xs = [[rand_rat(rng) for _ in range(len(m) * bs)] for m in maps]
        return "vops %d %d %s %s %s %s %s %s" % (bs, mode, vlib.frac_str(rand_rat(rng)), vlib.frac_str(rand_rat(rng)), D, ords,
                                                " ".join(fmt_rats(v) for v in ys), " ".join(fmt_rats(v) for v in xs))
    if k < 0.58:
        ys = type1(bs) if rng.random() < 0.6 else [[rand_rat(rng) for _ in range(len(m) * bs)] for m in maps]
        return "valias %d %s %s %s %s %s" % (bs, vlib.frac_str(rand_rat(rng)), vlib.frac_str(rand_rat(rng)), D, ords,
                                             " ".join(fmt_rats(v) for v in ys))
    if k < 0.74:
        return "gapply2 %d %d %s %s %s %s %s %s" % (rng.randrange(2), rng.randrange(2), vlib.frac_str(rand_rat(rng)), D, ords,
                                                    " ".join(gen_mats(rng, maps)),
                                                    " ".join(fmt_rats(v) for v in type1(1)), " ".join(fmt_rats(v) for v in type1(1)))
    if k < 0.86:
        return "gdiag %d %s %s %s" % (rng.randrange(2), D, ords, " ".join(gen_mats(rng, maps)))
    # unit filter on a global Dirichlet set (interface DOFs included with high probability)
    cnt = [sum(1 for m in maps if g in m) for g in range(G)]
    dset = {g: rand_rat(rng) for g in range(G) if rng.random() < (0.7 if cnt[g] > 1 else 0.25)}
    fs = []
    for m in maps:
        f = [(i, dset[g]) for i, g in enumerate(m) if g in dset]
        rng.shuffle(f)
        fs.append(" ".join([str(len(f))] + ["%d %s" % (i, vlib.frac_str(a)) for i, a in f]))
    return "gfilter %d %s %s %s" % (rng.randrange(2), D, " ".join(fs), " ".join(fmt_rats(v) for v in type1(1)))


def assemble_global(maps, mat_strs):
    """undecomposed operator A = sum_r P_r^T A_r P_r from the per-patch CSR strings of gen_mats"""
    A = {}
    for m, ms in zip(maps, mat_strs):
        t = ms.split()
        pos = 1
        for i in range(int(t[0])):
            k = int(t[pos]); pos += 1
            for _ in range(k):
                col, a = int(t[pos]), vlib.parse_frac(t[pos + 1]); pos += 2
                key = (m[i], m[col])
                A[key] = A.get(key, Fraction(0)) + a
    return A


def serial_rich(A, G, B, X, jac, omega, k):
    X = list(X)
    diag = [A.get((g, g), Fraction(0)) for g in range(G)]
    for _ in range(k):
        AX = [Fraction(0)] * G
        for (gi, gj), a in A.items():
            AX[gi] += a * X[gj]
        D = [B[g] - AX[g] for g in range(G)]
        if jac:
            if any(diag[g] == 0 for g in range(G)):
                return None
            D = [D[g] / diag[g] for g in range(G)]
        X = [X[g] + omega * D[g] for g in range(G)]
    return X


def serial_cg(A, G, B, X, k):
    def mv(V):
        R = [Fraction(0)] * G
        for (gi, gj), a in A.items():
            R[gi] += a * V[gj]
        return R
    X = list(X)
    AX = mv(X)
    R = [B[g] - AX[g] for g in range(G)]
    Pv = list(R)
    rr = sum(t * t for t in R)
    for _ in range(k):
        Qv = mv(Pv)
        pq = sum(a * b for a, b in zip(Pv, Qv))
        if pq == 0 or rr == 0:
            return None
        al = rr / pq
        X = [x + al * p for x, p in zip(X, Pv)]
        R = [r - al * q for r, q in zip(R, Qv)]
        rr2 = sum(t * t for t in R)
        Pv = [r + (rr2 / rr) * p for r, p in zip(R, Pv)]
        rr = rr2
    return X, rr


def serial_pcg(A, G, B, X, k):
    def mv(V):
        R = [Fraction(0)] * G
        for (gi, gj), a in A.items():
            R[gi] += a * V[gj]
        return R
    diag = [A.get((g, g), Fraction(0)) for g in range(G)]
    if any(t == 0 for t in diag):
        return None
    X = list(X)
    AX = mv(X)
    R = [B[g] - AX[g] for g in range(G)]
    Z = [R[g] / diag[g] for g in range(G)]
    Pv = list(Z)
    rz = sum(a * b for a, b in zip(R, Z))
    for _ in range(k):
        Qv = mv(Pv)
        pq = sum(a * b for a, b in zip(Pv, Qv))
        if pq == 0 or rz == 0:
            return None
        al = rz / pq
        X = [x + al * p for x, p in zip(X, Pv)]
        R = [r - al * q for r, q in zip(R, Qv)]
        Z = [R[g] / diag[g] for g in range(G)]
        rz2 = sum(a * b for a, b in zip(R, Z))
        Pv = [z + (rz2 / rz) * p for z, p in zip(Z, Pv)]
        rz = rz2
    return X, rz


def gen_solve_case(rng):
    """distributed (Jacobi-)Richardson / CG iterations; every global DOF is covered by construction of gen_decomp"""
    for _ in range(50):
        G, maps, nbrs = gen_decomp(rng, P=rng.choice([1, 2, 3, 3, 4, 5]))
        if not all(len(m) > 0 for m in maps) or G > 14:
            continue
        mats = gen_mats(rng, maps, diag=True)
        A = assemble_global(maps, mats)
        B = [rand_rat(rng, small=True) for _ in range(G)]
        X = [rand_rat(rng, small=True) for _ in range(G)]
        D = fmt_decomp(G, maps, nbrs)
        ords = " ".join(fmt_list(o) for o in gen_orders(rng, nbrs))
        bs = " ".join(fmt_rats([B[g] for g in m]) for m in maps)
        xs = " ".join(fmt_rats([X[g] for g in m]) for m in maps)
        if rng.random() < 0.6:
            jac, k, omega = rng.randrange(2), rng.choice([0, 1, 2, 3]), rng.choice([Fraction(1), Fraction(1, 2), Fraction(-3, 4), Fraction(2, 3)])
            if serial_rich(A, G, B, X, jac, omega, k) is None:
                continue
            return "rich %d %d %s %s %s %s %s %s" % (jac, k, vlib.frac_str(omega), D, ords, " ".join(mats), bs, xs)
        k = rng.choice([0, 1, 2])
        if rng.random() < 0.5:
            if serial_pcg(A, G, B, X, k + 1) is None:
                continue
            return "pcg %d %s %s %s %s %s" % (k, D, ords, " ".join(mats), bs, xs)
        if serial_cg(A, G, B, X, k + 1) is None:      # no zero denominators, also not in the next step
            continue
        return "cg %d %s %s %s %s %s" % (k, D, ords, " ".join(mats), bs, xs)
    return "gred 1 1/1"


def gen_cases(rng, count):
    cases = []
    for _ in range(count):
        kk = rng.random()
        if kk < 0.27:
            cases.append(gen_composite_case(rng))
            continue
        if kk < 0.5:
            cases.append(gen_global_case(rng))
            continue
        if kk < 0.56:
            cases.append(gen_solve_case(rng))
            continue
        k = rng.random()
        bs = rng.choice([1, 1, 1, 2, 3])
        if k < 0.12:
            # low-level mirror operations incl. assertion paths
            size = rng.randint(0, 6)
            nidx = rng.randint(0, 5) if size > 0 else 0
            mir = [rng.randrange(size) for _ in range(nidx)]
            if size > 0:      # explicit index patterns: first / last block, both, duplicates, everything reversed
                pat = rng.randrange(8)
                mir = {0: [0], 1: [size - 1], 2: [0, size - 1], 3: [size - 1] * 3, 4: list(range(size - 1, -1, -1)),
                       5: [0, 0, size - 1, 0]}.get(pat, mir)
                nidx = len(mir)
            boff = rng.choice([0, 0, 1, 2])
            blen = max(0, boff + bs * nidx + rng.choice([0, 0, 0, 1, 3, -1]))
            vsize = size if rng.random() < 0.85 else size + rng.choice([1, 2])
            buf = [rand_rat(rng) for _ in range(blen)]
            vec = [rand_rat(rng) for _ in range(vsize * bs)]
            if rng.random() < 0.5:
                cases.append("mgather %d %d %s %d %s %s" % (bs, size, fmt_list(mir), boff, fmt_rats(buf), fmt_rats(vec)))
            else:
                cases.append("mscatter %d %d %s %s %d %s %s" % (bs, size, fmt_list(mir), vlib.frac_str(rand_rat(rng)), boff,
                                                               fmt_rats(buf), fmt_rats(vec)))
            continue
        G, maps, nbrs = gen_decomp(rng)
        P = len(maps)
        if rng.random() < 0.06:
            nbrs, _ = break_decomp(rng, G, maps, nbrs)
        D = fmt_decomp(G, maps, nbrs)
        if k < 0.22:
            cases.append("freqs %d %s" % (bs, D))
        elif k < 0.50:
            vs = [[rand_rat(rng) for _ in range(len(m) * bs)] for m in maps]
            cases.append("sync0 %d %s %s %s" % (bs, D, " ".join(fmt_list(o) for o in gen_orders(rng, nbrs)),
                                                " ".join(fmt_rats(v) for v in vs)))
        elif k < 0.68:
            if rng.random() < 0.5:   # consistent (type-1) input
                X = [[rand_rat(rng) for _ in range(bs)] for _ in range(G)]
                vs = [[X[g][c] for g in m for c in range(bs)] for m in maps]
            else:
                vs = [[rand_rat(rng) for _ in range(len(m) * bs)] for m in maps]
            cases.append("sync1 %d %s %s %s" % (bs, D, " ".join(fmt_list(o) for o in gen_orders(rng, nbrs)),
                                                " ".join(fmt_rats(v) for v in vs)))
        elif k < 0.82:
            X = [[rand_rat(rng) for _ in range(bs)] for _ in range(G)]
            Y = [[rand_rat(rng) for _ in range(bs)] for _ in range(G)]
            xs = [[X[g][c] for g in m for c in range(bs)] for m in maps]
            ys = [[Y[g][c] for g in m for c in range(bs)] for m in maps]
            cases.append("dot %d %s %s %s" % (bs, D, " ".join(fmt_rats(v) for v in xs), " ".join(fmt_rats(v) for v in ys)))
        else:
            if any(len(m) == 0 for m in maps):
                # SparseMatrixCSR cannot be built from empty arrays (XASSERT in its array constructor): use sync0
                vs = [[rand_rat(rng) for _ in range(len(m))] for m in maps]
                cases.append("sync0 1 %s %s %s" % (D, " ".join(fmt_list(o) for o in gen_orders(rng, nbrs)),
                                                   " ".join(fmt_rats(v) for v in vs)))
                continue
            X = [rand_rat(rng) for _ in range(G)]
            xs = [[X[g] for g in m] for m in maps]
            mats = []
            for m in maps:
                n = len(m)
                rows = []
                for i in range(n):
                    cols = sorted(rng.sample(range(n), min(n, rng.randint(1 if i == 0 else 0, 3))))
                    rows.append(" ".join([str(len(cols))] + ["%d %s" % (c, vlib.frac_str(rand_rat(rng, small=True))) for c in cols]))
                mats.append(" ".join([str(n)] + rows))
            cases.append("gapply %s %s %s %s" % (D, " ".join(fmt_list(o) for o in gen_orders(rng, nbrs)), " ".join(mats),
                                                 " ".join(fmt_rats(v) for v in xs)))
    return cases


# ---------------------------------------------------------------------------------------------
# boundary-sizes sub-stream: the Lean models use unbounded Nat / exact rationals, so C++ narrowing (int counts and ranks,
# std::vector<int> masks), SparseVector's 1000-slot allocation steps (UnitFilter), buffer offsets of composite mirrors
# and group sizes of the muxer are only visible to the correspondence -- if the sizes cross the boundaries.  Sparse data,
# the interesting content (non-zeros, duplicates, shared DOFs, reversed arrival order) sits at the HIGH end.
# ---------------------------------------------------------------------------------------------

BOUNDARY_QUICK = [127, 128, 129, 255, 256, 257, 1000, 1001]
BOUNDARY_THOROUGH = [4095, 4096, 4097, 32767, 32768, 65535, 65536, 65537]
# the list-based Lean model is quadratic in the vector length: lines with more than MODEL_TOKENS tokens (the sizes >= 32767)
# are judged by the independent oracle only, everything below is also compared with the model
MODEL_TOKENS = 40000


def sparse_vec(rng, n, hot):
    """zeros except `hot` non-zero entries at the highest indices (and one at index 0)"""
    v = [Fraction(0)] * n
    if n:
        v[0] = Fraction(1)
    for i in range(max(0, n - hot), n):
        v[i] = Fraction(rng.randint(1, 9) * rng.choice([-1, 1]), rng.choice([1, 1, 2, 3]))
    return v


def star_decomp(rng, P, extra=1):
    """global DOF 0 is shared by all P patches (frequency 1/P, patch 0 has P-1 neighbours), the last patches also share
    DOF 1 pairwise with their predecessor; every patch has `extra` private DOFs"""
    mem = [list(range(P))]
    for r in range(max(1, P - 3), P):
        mem.append([r - 1, r])
    for r in range(P):
        mem += [[r]] * extra
    G = len(mem)
    maps = [[g for g in range(G) if r in mem[g]] for r in range(P)]
    for m in maps[-3:]:
        m.reverse()
    nbrs = [[] for _ in range(P)]
    for r in range(P):
        for q in range(r + 1, P):
            shared = [g for g in maps[r] if q in mem[g]]
            if shared:
                nbrs[r].append((q, [maps[r].index(g) for g in shared]))
                nbrs[q].append((r, [maps[q].index(g) for g in shared]))
    return G, maps, nbrs


def two_patch_decomp(rng, m, bs_unused=1):
    """two patches sharing m DOFs (one message of m*bs entries each way); the shared DOFs are the LAST local DOFs of
    patch 0 and are listed in reversed order in the mirrors"""
    G = m + 4
    shared = list(range(2, 2 + m))
    maps = [[0, 1] + shared, shared[::-1] + [G - 2, G - 1]]
    order = shared[::-1]
    pos = positions(maps)
    nbrs = [[(1, [pos[0][g] for g in order])], [(0, [pos[1][g] for g in order])]]
    return G, maps, nbrs


def gen_boundary_cases(rng, tier):
    sizes = BOUNDARY_QUICK + (BOUNDARY_THOROUGH if tier == "thorough" else [])
    cases = []
    for n in sizes:
        big = n > 5000
        # (a) one VectorMirror: n indices into a vector of n+1 blocks, duplicates of the LAST block at the end of the mirror
        for bs in ((1, 2, 3) if not big else (1, 2)):
            size = n + 1
            mir = list(range(0, n - 3)) + [size - 1, size - 1, 0][:3] if n >= 3 else list(range(n))
            mir = (mir + [size - 1] * n)[:n]
            boff = 1
            buf = sparse_vec(rng, boff + bs * n, 6)
            vec = sparse_vec(rng, size * bs, 6)
            cases.append("mscatter %d %d %s %s %d %s %s" % (bs, size, fmt_list(mir), "-3/2", boff, fmt_rats(buf), fmt_rats(vec)))
            cases.append("mgather %d %d %s %d %s %s" % (bs, size, fmt_list(mir), boff, fmt_rats(buf), fmt_rats(vec)))
        # (b) one message of n (times bs) entries between two patches, scalar / blocked / composite kinds
        G, maps, nbrs = two_patch_decomp(rng, n)
        D = fmt_decomp(G, maps, nbrs)
        for bs in ((1, 3) if not big else (2,)):
            vs = [sparse_vec(rng, len(m) * bs, 5) for m in maps]
            cases.append("sync0 %d %s 1 0 1 0 %s" % (bs, D, " ".join(fmt_rats(v) for v in vs)))
        if not big:
            X = sparse_vec(rng, G, 7)
            xs = [[X[g] for g in m] for m in maps]
            cases.append("dot 1 %s %s %s" % (D, " ".join(fmt_rats(v) for v in xs), " ".join(fmt_rats(v) for v in xs)))
            cases.append("async 1 %s %s %s" % (D, " ".join(fmt_rats(v) for v in xs), " ".join(fmt_rats(v) for v in xs)))
        if n <= 1001:
            # composite mirrors: every slot has the long mirror, so the offsets of the 2nd, 3rd, ... (blocked) component are
            # n * block size -- num_indices and buffer_size differ exactly for the blocked components
            for kind in ("t3", "nest", "p3"):
                S = kind_slots(kind)
                cnb = [[(q, [mm] * S) for q, mm in nb] for nb in nbrs]
                cd = fmt_cdecomp(2, S, [G] * S, [[maps[r] for r in range(2)] for _ in range(S)], cnb)
                vs = [[sparse_vec(rng, len(maps[r]) * b, 4) for b, sl in KINDS[kind]] for r in range(2)]
                cases.append("csync0 %s %s 1 0 1 0 %s" % (kind, cd, " ".join(fmt_rats(l) for v in vs for l in v)))
            # (c) unit filter with n entries (SparseVector grows in steps of 1000 slots), added in descending index order
            fm = [list(range(n + 3))]
            f = [(i, Fraction(i % 7 - 3)) for i in range(n + 2, 2, -1)][:n]
            v = sparse_vec(rng, n + 3, 5)
            cases.append("gfilter %d %s %d %s %s" % (n % 2, fmt_decomp(n + 3, fm, [[]]), len(f),
                                                    " ".join("%d %s" % (i, vlib.frac_str(a)) for i, a in f), fmt_rats(v)))
        # (d) n patches around one DOF: frequency 1/n, n-1 neighbours of every patch, reversed arrival order
        if n <= 257 and (tier == "thorough" or n in (127, 128, 129, 256)):
            G, maps, nbrs = star_decomp(rng, n)
            D = fmt_decomp(G, maps, nbrs)
            ords = " ".join(fmt_list(list(range(len(nb) - 1, -1, -1))) for nb in nbrs)
            vs = [[Fraction(0)] * len(m) for m in maps]
            for r in range(n - 4, n):
                vs[r] = [Fraction(r + 1 + i, 3) for i in range(len(maps[r]))]
            cases.append("sync0 1 %s %s %s" % (D, ords, " ".join(fmt_rats(v) for v in vs)))
            cases.append("freqs 2 %s" % D)
            X = sparse_vec(rng, G, 4)
            X[0] = Fraction(5, 2)
            xs = [[X[g] for g in m] for m in maps]
            cases.append("sync1 1 %s %s %s" % (D, ords, " ".join(fmt_rats(v) for v in xs)))
            if tier == "thorough":
                cases.append("norm 1 %s %s" % (D, " ".join(fmt_rats(v) for v in xs)))
            # base splitter with n patches
            rms = [list(range(len(m))) for m in maps]
            head = "%s %d %s %s" % (D, G, " ".join(fmt_list(x) for x in rms), " ".join(fmt_list(m) for m in maps))
            cases.append("spljoin %s %s" % (head, " ".join(fmt_rats(v) for v in xs)))
            if tier == "thorough" or n == 128:
                cases.append("splsplit %s %s" % (head, fmt_rats(X)))
    # (e) muxer group sizes crossing powers of two; the LAST child is the big one and carries the non-zeros
    for C in [3, 4, 5, 7, 8, 9, 15, 16, 17, 31, 32, 33] + ([63, 64, 65, 127, 128, 129] if tier == "thorough" else []):
        for kind in ("t3", "nest"):
            S = kind_slots(kind)
            pn = [C + 2] * S
            children = []
            for ci in range(C):
                ch = []
                for sl in range(S):
                    sub = [ci, C + 1] if ci < C - 1 else list(range(C + 1, -1, -1))
                    pm = list(range(len(sub)))
                    ch.append((len(sub), pm, sub))
                children.append(ch)
            head = "%d %d %s %s" % (C, S, " ".join(map(str, pn)),
                                    " ".join("%d %s %s" % (nn, fmt_list(pm), fmt_list(cm)) for ch in children for nn, pm, cm in ch))
            srcs = [[[Fraction(0)] * (ch[sl][0] * b) for b, sl in KINDS[kind]] for ch in children]
            srcs[-1] = [sparse_vec(rng, children[-1][sl][0] * b, 5) for b, sl in KINDS[kind]]
            srcs[-2] = [[Fraction(ci2 + 1) for ci2 in range(children[-2][sl][0] * b)] for b, sl in KINDS[kind]]
            cases.append("cmuxjoin %s %s %s" % (kind, head, " ".join(fmt_rats(l) for v in srcs for l in v)))
            src = [sparse_vec(rng, pn[sl] * b, 6) for b, sl in KINDS[kind]]
            cases.append("cmuxsplit %s %s %s" % (kind, head, " ".join(fmt_rats(l) for l in src)))
    return cases


def boundary_describe(case):
    """size histogram of the boundary stream (cheap: reads only the head of the line)"""
    t = case.split(None, 6)
    op = t[0]
    n = case.count(" ") + 1
    keys = ["op:" + op, "line-tokens:2^%d" % max(0, n.bit_length() - 1)]
    try:
        if op in ("mgather", "mscatter"):
            keys.append("mirror-indices:" + t[3])
        elif op in ("cmuxjoin", "cmuxsplit"):
            keys.append("children:" + t[2])
        elif op == "csync0":
            keys.append("kind:" + t[1])
            keys.append("shared-dofs-per-slot:%d" % (int(t[4]) - 4))
        elif op in ("spljoin", "splsplit"):
            keys.append("patches:" + t[2])
        elif op == "gfilter":
            keys.append("filter-entries:%d" % (int(t[2]) - 3))
        else:
            P = int(t[3])
            keys.append("patches:%d" % P)
            if P == 2:
                keys.append("message-entries:%d" % ((int(t[2]) - 4) * int(t[1])))
    except (ValueError, IndexError):
        pass
    return keys


CORPUS = [
    # three patches sharing one DOF (all arrival orders), blocked, type-1, no-neighbour branches
    "sync0 1 5 3 3 0 1 2 3 1 0 3 2 4 0 2 1 2 0 1 2 1 0 2 2 1 1 0 2 1 0 2 0 1 1 1 1 1 2 0 1 2 0 1 2 0 1 3 1/3 2/1 -1/1 3 5/1 1/7 4/1 2 9/1 -5/2",
    "sync0 1 5 3 3 0 1 2 3 1 0 3 2 4 0 2 1 2 0 1 2 1 0 2 2 1 1 0 2 1 0 2 0 1 1 1 1 1 2 1 0 2 1 0 2 1 0 3 1/3 2/1 -1/1 3 5/1 1/7 4/1 2 9/1 -5/2",
    "sync0 1 5 3 3 0 1 2 3 1 0 3 2 4 0 2 1 2 0 1 2 1 0 2 2 1 1 0 2 1 0 2 0 1 1 1 1 1 2 1 0 2 0 1 2 1 0 3 1/3 2/1 -1/1 3 5/1 1/7 4/1 2 9/1 -5/2",
    "sync1 1 5 3 3 0 1 2 3 1 0 3 2 4 0 2 1 2 0 1 2 1 0 2 2 1 1 0 2 1 0 2 0 1 1 1 1 1 2 1 0 2 0 1 2 1 0 3 6/1 2/1 -1/1 3 2/1 6/1 4/1 2 9/1 6/1",
    "freqs 2 5 3 3 0 1 2 3 1 0 3 2 4 0 2 1 2 0 1 2 1 0 2 2 1 1 0 2 1 0 2 0 1 1 1 1 1",
    "sync0 3 5 3 3 0 1 2 3 1 0 3 2 4 0 2 1 2 0 1 2 1 0 2 2 1 1 0 2 1 0 2 0 1 1 1 1 1 2 1 0 2 0 1 2 1 0 9 1/1 2/1 3/1 4/1 5/1 6/1 7/1 8/1 9/1 9 1/2 1/1 3/2 2/1 5/2 3/1 7/2 4/1 9/2 6 1/3 2/3 1/1 4/3 5/3 2/1",
    "dot 1 5 3 3 0 1 2 3 1 0 3 2 4 0 2 1 2 0 1 2 1 0 2 2 1 1 0 2 1 0 2 0 1 1 1 1 1 3 6/1 2/1 -1/1 3 2/1 6/1 4/1 2 9/1 6/1 3 1/1 3/1 5/1 3 3/1 1/1 7/1 2 2/1 1/1",
    "sync1 1 2 1 2 1 0 0 0 2 3/1 4/1",
    "dot 1 2 2 1 0 1 1 0 0 1 2/1 1 3/1 1 5/1 1 7/1",
    # composite kinds: nested / 3- and 4-field tuples, power vectors, muxer join/split with >= 2 children
    "cmuxjoin nest 3 4 5 4 0 0 4 4 3 0 2 1 4 3 0 4 1 3 3 2 1 0 3 0 3 2 0 0 0 0 0 0 4 4 0 1 2 3 4 4 2 3 0 3 3 1 2 0 3 0 3 1 0 0 0 0 0 0 3 3 2 1 0 3 4 0 2 3 3 1 0 2 3 0 1 2 0 0 0 0 0 0 8 -2/1 40/1 4/1 0/1 29/7 2/1 -39/2 12/1 8 3/1 3/1 4/1 -3/1 26/5 -9/1 3/1 6/1 3 6/1 3/1 -6/1 0 0 8 27/7 -7/1 3/1 2/1 5/1 -8/1 -3/1 -8/1 8 0/1 6/1 3/4 -5/1 0/1 0/1 29/2 3/2 3 -6/1 0/1 0/1 0 0 6 11/1 6/1 4/1 11/1 1/1 7/1 6 -16/1 39/7 -3/1 -5/1 6/1 15/2 3 39/1 4/1 -1/1 0 0",
    "cmuxsplit t4 4 4 5 6 1 4 4 4 3 1 2 0 4 4 2 3 0 4 4 0 1 2 3 4 2 0 4 1 0 0 0 1 1 0 1 0 3 3 0 1 2 3 4 2 3 2 2 0 1 2 5 3 0 0 0 3 3 0 1 2 3 3 2 0 0 0 0 5 5 0 1 2 3 4 5 2 0 1 5 3 1 1 0 1 0 3 3 2 0 1 3 2 0 3 2 2 0 1 2 0 3 4 4 0 1 2 3 4 0 2 3 5 1 1 0 1 0 3 3 1 0 2 3 0 1 2 5 5/1 -9/1 -1/1 -3/7 -1/3 12 24/7 11/4 -9/1 0/1 -14/5 -7/1 0/1 -4/1 3/1 2/1 -8/1 6/1 1 29/8 4 -18/7 -4/1 7/1 37/3",
    "cmuxjoin t3 3 3 2 6 5 2 2 1 0 2 1 0 4 4 0 1 2 3 4 0 2 4 3 4 4 1 2 3 0 4 0 2 4 3 2 2 0 1 2 1 0 3 3 0 1 2 3 5 3 0 2 2 0 1 2 3 2 0 0 0 4 4 0 1 2 3 4 4 1 5 3 3 3 0 2 1 3 3 2 4 4 -6/1 29/1 8/1 1/1 4 0/1 -7/1 -7/1 0/1 12 -2/1 -1/1 -5/1 -6/1 0/1 3/1 -32/7 -7/4 1/1 -7/1 -9/1 -9/1 4 -3/1 25/1 0/1 -17/5 3 -33/7 -1/2 0/1 6 1/1 7/1 6/1 -5/1 -6/1 2/1 0 4 0/1 -4/1 16/1 -9/1 9 19/3 0/1 23/2 15/1 -17/3 0/1 7/1 8/1 -2/1",
    "csync0 t3 4 3 8 11 6 4 3 4 7 5 2 0 9 3 2 3 1 3 2 5 3 6 1 2 3 7 8 9 4 2 3 4 0 6 1 3 0 6 2 5 6 4 5 0 7 1 9 3 3 5 2 4 0 3 4 5 5 9 2 10 6 5 3 2 3 5 3 3 3 0 1 3 1 1 2 0 1 2 2 3 0 2 0 1 2 0 1 1 2 3 0 1 1 2 0 1 3 0 2 1 2 1 5 2 0 1 2 3 2 0 1 3 5 3 0 2 0 1 3 2 1 2 2 1 5 2 1 0 3 3 3 5 1 2 2 1 5 3 0 1 2 1 3 1 4 5 3 5 3 4 2 2 0 0 2 5 1 2 2 5 2 2 0 3 2 3 3 1 0 2 4 0 3 1 2 0 0 3 1 2 3 1 0 2 0 1 1 2 3 1 2 1 0 2 1 0 3 1 0 2 3 0 2 1 3 1 2 0 3 0 2 1 8 -7/1 0/1 -6/1 37/8 -7/1 6/1 1/2 27/7 2 31/5 0/1 9 -22/5 36/1 5/1 -6/7 -7/2 35/3 5/1 0/1 -24/5 6 -35/3 -5/1 -3/1 0/1 0/1 5/1 6 2/1 4/1 5/2 -6/1 -1/1 34/7 12 0/1 -1/1 -1/2 -9/2 13/2 -21/5 34/1 0/1 5/1 0/1 -7/2 8/1 12 3/1 -4/1 5/1 -1/7 21/1 2/1 9/1 -7/1 -1/1 0/1 -9/1 -5/1 6 8/1 -4/1 -17/1 -1/1 -4/1 5/7 9 2/3 -23/8 -25/1 -2/1 -5/4 4/1 1/2 7/1 -2/1 8 8/1 2/1 -17/8 0/1 0/1 9/1 -37/8 -1/5 5 6/1 0/1 0/1 -7/1 5/1 9 6/1 1/1 8/1 31/4 19/8 -3/1 4/1 0/1 26/7",
    "csync1 nest 6 4 8 5 12 14 1 0 3 0 1 2 2 8 10 3 11 5 0 0 0 3 9 1 3 3 12 9 5 2 4 2 1 3 3 5 6 7 3 2 8 12 2 3 5 1 4 0 4 2 6 8 10 3 7 6 1 0 2 11 2 4 13 10 7 3 0 0 2 0 4 4 1 3 7 4 1 1 0 0 0 1 1 2 0 0 0 0 1 2 2 0 0 0 1 0 2 3 0 0 0 2 0 1 1 0 0 0 1 2 2 4 0 0 0 1 3 2 0 0 0 2 0 2 2 5 0 0 0 2 2 3 3 0 0 0 1 1 1 4 0 0 0 2 2 1 1 0 2 1 0 2 1 0 2 0 1 2 1 0 1 0 2 -9/1 -36/1 2 -7/1 -2/1 3 -9/1 -11/2 5/1 6 -8/1 7/1 -3/1 -16/7 -9/1 -5/1 3 -8/1 -4/1 6/7 0 0 0 9 11/4 4/1 -3/1 23/7 1/1 -5/1 8/1 7/1 -9/1 3 -11/4 0/1 5/2 4 21/2 -7/1 2/1 0/1 4 7/3 -5/2 1/2 19/3 1 0/1 9 9/1 -13/2 5/1 -17/2 -3/7 6/1 4/1 0/1 -3/1 3 -2/1 4/1 -31/5 4 -3/1 2/1 0/1 0/1 4 6/1 3/1 -9/1 23/2 1 -5/7 0 4 35/2 11/2 -8/1 -33/1 6 3/1 30/1 -6/1 36/5 -5/1 17/3 6 3/1 -4/1 -3/1 -5/1 -31/4 -5/1 0 6 0/1 -1/1 18/7 0/1 -1/1 0/1 4 -1/1 -4/1 -14/3 2/1 0 0 0 6 -8/1 3/1 -8/1 -7/1 0/1 1/4 4 0/1 0/1 -36/5 -6/1",
    "cdot p3 4 1 4 4 1 0 2 3 3 0 2 3 2 1 2 2 1 2 3 3 2 0 2 2 2 0 2 1 3 3 2 1 3 2 1 1 3 1 1 0 3 2 1 0 3 1 1 1 3 2 1 0 0 2 0 1 3 1 1 1 0 2 0 1 2 2 1 0 4 3/5 0/1 5/1 0/1 4 4/1 0/1 22/7 9/1 4 0/1 16/5 -5/1 -3/1 3 0/1 5/1 0/1 3 0/1 22/7 9/1 3 16/5 -5/1 -3/1 2 3/5 5/1 2 4/1 22/7 2 0/1 -5/1 2 3/5 5/1 2 4/1 22/7 2 0/1 -5/1 4 -9/1 16/7 -7/1 -3/1 4 0/1 18/5 0/1 0/1 4 5/1 13/5 27/8 -8/1 3 16/7 -7/1 -3/1 3 18/5 0/1 0/1 3 13/5 27/8 -8/1 2 -9/1 -7/1 2 0/1 0/1 2 5/1 27/8 2 -9/1 -7/1 2 0/1 0/1 2 5/1 27/8",
    "csync0 t4 5 4 7 7 7 10 1 0 2 2 3 4 2 6 3 1 2 0 2 2 6 0 0 2 3 5 3 8 9 4 1 0 2 5 4 4 0 2 6 5 2 3 6 5 5 1 0 3 4 0 4 3 4 2 0 2 1 5 3 0 2 6 3 0 6 1 3 3 5 1 1 7 4 1 1 0 0 1 2 0 4 1 0 0 2 2 3 0 2 1 0 0 2 1 0 0 3 1 0 0 2 2 0 0 4 4 2 0 1 0 2 0 1 0 3 1 1 0 1 0 0 2 1 1 0 1 1 0 0 1 1 0 1 0 0 4 0 1 0 0 2 2 1 0 3 1 0 0 2 0 1 0 4 1 0 0 1 3 0 1 1 0 0 1 3 0 4 4 1 2 0 1 0 0 1 1 2 0 1 0 0 0 1 2 0 2 0 2 0 2 1 2 0 2 3 2 0 4 2 1 0 0 1 1 0 1 2 2 0 0 2 0 1 0 0 1 0 0 2 0 2 0 3 1 0 0 1 0 0 4 1 0 2 3 4 0 1 2 3 4 3 0 2 1 4 1 2 0 3 4 3 2 1 0 1 5/1 4 0/1 8/7 8/1 8/1 4 2/1 -28/1 -27/8 0/1 2 6/1 -5/4 2 0/1 2/1 0 2 -31/2 3/1 3 3/1 39/1 2/1 1 1/1 4 7/4 0/1 4/1 3/1 4 2/1 29/7 7/5 -5/1 2 36/1 0/1 5 9/1 -9/1 35/4 8/1 3/2 0 4 -22/5 7/1 -5/1 -3/1 2 -5/1 0/1 3 2/1 -17/4 -14/1 6 3/1 0/1 1/1 9/1 -4/1 -12/7 3 0/1 7/1 -13/3 1 -4/7",
    # operand aliasing: apply / apply_transposed (r, x, y, alpha) with r the same object as y (and not), y non-zero on the
    # DOFs shared by 2 and 3 patches; aliased Global::Vector members for block sizes 1, 2, 3
    "gapply2 0 0 -3/2 5 3 3 0 1 2 3 1 0 3 2 4 0 2 1 2 0 1 2 1 0 2 2 1 1 0 2 1 0 2 0 1 1 1 1 1 2 1 0 2 0 1 2 1 0 3 2 0 2/1 1 -1/1 2 0 -1/1 1 3/1 2 1 1/2 2 1/1 3 2 0 2/1 1 -1/1 2 0 -1/1 1 1/1 2 1 1/1 2 4/1 2 1 0 3/1 2 0 -1/1 1 1/1 3 1/1 -2/1 3/1 3 -2/1 1/1 1/2 2 4/1 1/1 3 5/1 7/1 1/1 3 7/1 5/1 2/1 2 -3/1 5/1",
    "gapply2 0 1 -3/2 5 3 3 0 1 2 3 1 0 3 2 4 0 2 1 2 0 1 2 1 0 2 2 1 1 0 2 1 0 2 0 1 1 1 1 1 2 1 0 2 0 1 2 1 0 3 2 0 2/1 1 -1/1 2 0 -1/1 1 3/1 2 1 1/2 2 1/1 3 2 0 2/1 1 -1/1 2 0 -1/1 1 1/1 2 1 1/1 2 4/1 2 1 0 3/1 2 0 -1/1 1 1/1 3 1/1 -2/1 3/1 3 -2/1 1/1 1/2 2 4/1 1/1 3 5/1 7/1 1/1 3 7/1 5/1 2/1 2 -3/1 5/1",
    "gapply2 1 0 -3/2 5 3 3 0 1 2 3 1 0 3 2 4 0 2 1 2 0 1 2 1 0 2 2 1 1 0 2 1 0 2 0 1 1 1 1 1 2 1 0 2 0 1 2 1 0 3 2 0 2/1 1 -1/1 2 0 -1/1 1 3/1 2 1 1/2 2 1/1 3 2 0 2/1 1 -1/1 2 0 -1/1 1 1/1 2 1 1/1 2 4/1 2 1 0 3/1 2 0 -1/1 1 1/1 3 1/1 -2/1 3/1 3 -2/1 1/1 1/2 2 4/1 1/1 3 5/1 7/1 1/1 3 7/1 5/1 2/1 2 -3/1 5/1",
    "gapply2 1 1 -3/2 5 3 3 0 1 2 3 1 0 3 2 4 0 2 1 2 0 1 2 1 0 2 2 1 1 0 2 1 0 2 0 1 1 1 1 1 2 1 0 2 0 1 2 1 0 3 2 0 2/1 1 -1/1 2 0 -1/1 1 3/1 2 1 1/2 2 1/1 3 2 0 2/1 1 -1/1 2 0 -1/1 1 1/1 2 1 1/1 2 4/1 2 1 0 3/1 2 0 -1/1 1 1/1 3 1/1 -2/1 3/1 3 -2/1 1/1 1/2 2 4/1 1/1 3 5/1 7/1 1/1 3 7/1 5/1 2/1 2 -3/1 5/1",
    "valias 1 1/2 -2/1 5 3 3 0 1 2 3 1 0 3 2 4 0 2 1 2 0 1 2 1 0 2 2 1 1 0 2 1 0 2 0 1 1 1 1 1 2 1 0 2 0 1 2 1 0 3 5/1 7/1 1/1 3 7/1 5/1 2/1 2 -3/1 5/1",
    "valias 2 1/2 -2/1 5 3 3 0 1 2 3 1 0 3 2 4 0 2 1 2 0 1 2 1 0 2 2 1 1 0 2 1 0 2 0 1 1 1 1 1 2 1 0 2 0 1 2 1 0 6 5/1 6/1 7/1 8/1 1/1 2/1 6 7/1 8/1 5/1 6/1 2/1 3/1 4 -3/1 -2/1 5/1 6/1",
    "valias 3 1/2 -2/1 5 3 3 0 1 2 3 1 0 3 2 4 0 2 1 2 0 1 2 1 0 2 2 1 1 0 2 1 0 2 0 1 1 1 1 1 2 1 0 2 0 1 2 1 0 9 5/1 6/1 7/1 7/1 8/1 9/1 1/1 2/1 3/1 9 7/1 8/1 9/1 5/1 6/1 7/1 2/1 3/1 4/1 6 -3/1 -2/1 -1/1 5/1 6/1 7/1",
    # asynchronous reductions (dot_async / norm2sqr_async / norm2_async / *_element_async / sum|min|max_async, sqrt flag):
    # DOFs shared by 2 and by 3 patches carry non-zero values, block sizes 1, 2, 3; tuple / power / nested gates
    "async 1 5 3 3 0 1 2 3 1 0 3 2 4 0 2 1 2 0 1 2 1 0 2 2 1 1 0 2 1 0 2 0 1 1 1 1 1 3 5/1 -7/1 1/1 3 -7/1 5/1 2/1 2 -3/1 5/1 3 1/1 -2/1 3/1 3 -2/1 1/1 1/2 2 4/1 1/1",
    "async 2 5 3 3 0 1 2 3 1 0 3 2 4 0 2 1 2 0 1 2 1 0 2 2 1 1 0 2 1 0 2 0 1 1 1 1 1 6 5/1 6/1 -7/1 -6/1 1/1 2/1 6 -7/1 -6/1 5/1 6/1 2/1 3/1 4 -3/1 -2/1 5/1 6/1 6 1/1 2/1 -2/1 -4/1 3/1 6/1 6 -2/1 -4/1 1/1 2/1 1/2 1/1 4 4/1 8/1 1/1 2/1",
    "async 3 5 3 3 0 1 2 3 1 0 3 2 4 0 2 1 2 0 1 2 1 0 2 2 1 1 0 2 1 0 2 0 1 1 1 1 1 9 5/1 6/1 7/1 -7/1 -6/1 -5/1 1/1 2/1 3/1 9 -7/1 -6/1 -5/1 5/1 6/1 7/1 2/1 3/1 4/1 6 -3/1 -2/1 -1/1 5/1 6/1 7/1 9 1/1 2/1 3/1 -2/1 -4/1 -6/1 3/1 6/1 9/1 9 -2/1 -4/1 -6/1 1/1 2/1 3/1 1/2 1/1 3/2 6 4/1 8/1 12/1 1/1 2/1 3/1",
    "casync t3 3 3 3 4 6 2 2 0 2 0 3 2 2 4 3 2 1 0 1 2 3 0 3 5 3 0 1 2 1 1 1 1 2 2 2 1 0 0 0 1 2 0 1 0 0 2 0 2 0 2 0 0 2 3 0 1 2 0 0 2 0 2 0 2 0 0 1 3 2 1 0 0 0 4 0/1 0/1 -2/1 2/1 2 -1/1 0/1 6 -7/1 8/1 -5/2 -1/1 6/1 -26/3 6 0/1 0/1 33/5 -4/1 -2/1 2/1 1 -3/4 9 4/1 -7/1 7/1 -5/4 36/1 21/1 0/1 5/1 6/1 6 -2/1 2/1 33/5 -4/1 0/1 0/1 1 -18/7 3 34/1 -4/1 0/1 4 5/1 37/5 39/1 18/1 2 -15/4 7/4 6 -1/2 0/1 -7/1 -25/4 0/1 9/1 6 5/1 37/5 6/1 31/8 39/1 18/1 1 0/1 9 -19/5 0/1 31/5 36/7 0/1 -15/4 2/1 6/1 6/1 6 39/1 18/1 6/1 31/8 5/1 37/5 1 1/1 3 -19/4 4/1 9/1",
    "casync nest 3 4 5 2 1 6 2 3 4 1 0 1 0 5 5 1 3 0 4 2 0 3 0 1 0 3 3 2 0 2 2 1 1 1 1 0 2 3 4 2 2 0 0 1 0 2 4 2 1 1 0 0 1 0 2 2 3 2 0 1 1 0 1 0 2 0 2 2 0 0 1 0 1 0 2 1 0 0 1 0 1 0 0 0 0 1 0 2 1 0 4 0/1 -11/4 -9/1 7/1 4 19/4 0/1 -4/1 -7/1 1 6/1 3 10/1 5/1 -9/2 5 2/1 19/4 -7/1 -1/1 -4/1 4 -10/7 -3/2 0/1 -11/4 4 0/1 8/1 19/4 0/1 0 3 10/1 5/1 -9/2 3 -7/1 -21/1 -1/1 4 -8/1 9/1 15/1 8/1 4 -3/1 0/1 -5/1 6/1 1 4/1 3 10/1 5/1 -9/2 2 -7/1 -4/1 4 16/1 11/2 -30/1 31/5 4 8/1 0/1 -1/4 5/1 1 -1/1 3 -13/2 -5/1 -9/1 5 11/3 0/1 -9/7 6/1 -39/8 4 6/1 -17/1 16/1 11/2 4 -7/1 4/1 8/1 0/1 0 3 -13/2 -5/1 -9/1 3 -9/7 -4/1 6/1 4 17/2 4/1 0/1 3/1 4 2/1 5/1 -1/1 1/1 1 5/1 3 -13/2 -5/1 -9/1 2 -9/7 -39/8",
    "casync p3 3 1 2 1 0 0 1 1 0 0 0 1 -9/2 1 4/1 1 -8/1 0 0 0 1 -3/1 1 8/1 1 -5/7 1 -3/1 1 9/1 1 9/1 0 0 0 1 1/1 1 -24/1 1 -17/3",
    # regression lines of the repaired finding F1 (13bbcdd1f): asynchronous ticket on a gate without neighbours
    "ticket 0 3 1/1 2/1 3/1",
    "ticket 1 3 1/1 2/1 3/1",
    "ticket 2 3 1/1 2/1 3/1",
    # discretise-and-solve: distributed Richardson / Jacobi-Richardson / CG iterates equal the one-process iterates
    "rich 0 3 1/1 3 4 2 0 1 2 0 2 2 1 0 1 1 3 3 1 1 2 2 0 1 1 1 0 2 0 1 0 2 1 0 3 3 1 0 0 2 1 0 1 1 1 2 0 1 0 2 1 0 3 2 1 0 2 1 0 3 2 1 0 2 0 1 2 1 0 0/1 2 0 3/1 1 9/1 2 1 1 0/1 1 1 1/1 2 2 0 -2/1 1 7/1 1 1 -2/1 1 1 0 -7/1 2 2/1 1/1 2 2/1 4/1 2 1/1 2/1 1 1/1 2 -2/1 -5/1 2 -2/1 -4/1 2 -5/1 -2/1 1 -5/1",
    "rich 1 3 -3/4 2 3 2 0 1 1 1 2 0 1 2 2 2 0 1 1 1 1 2 0 1 0 2 1 0 2 1 1 1 0 2 0 1 2 0 1 2 1 0 2 1 0 2 1 1 -6/1 2 0 0/1 1 -1/1 1 1 0 -8/1 2 2 0 -5/1 1 0/1 2 0 1/1 1 -1/1 2 0/1 2/1 1 2/1 2 0/1 2/1 2 -7/1 -4/1 1 -4/1 2 -7/1 -4/1",
    "cg 2 5 3 1 0 3 4 3 0 3 0 1 2 2 2 1 0 1 1 0 2 2 1 2 0 1 2 2 0 1 0 1 1 0 2 1 0 2 1 0 2 1 0 1 1 0 0/1 3 3 0 -3/1 1 2/1 2 1/1 0 2 0 1/1 2 1/1 3 1 0 5/1 0 0 1 8/1 3 4/1 -1/1 8/1 3 8/1 -9/1 1/1 1 5/1 3 1/1 6/1 5/1 3 5/1 -6/1 -5/1",
    # Jacobi-preconditioned CG: iterates equal the one-process iterates
    "pcg 2 4 3 2 1 3 2 0 1 3 3 2 1 2 2 2 1 0 1 1 0 2 0 1 1 2 1 1 2 1 1 2 0 2 0 2 2 1 0 2 0 1 2 0 1 2 2 0 5/1 1 3/1 2 0 -4/1 1 5/1 2 2 0 -4/1 1 1/1 2 0 1/1 1 0/1 3 1 0 1/1 2 0 9/1 1 9/1 1 2 5/1 2 3/1 0/1 2 9/1 3/1 3 0/1 0/1 3/1 2 0/1 -8/1 2 -8/1 0/1 3 -8/1 -1/1 0/1",
]


# ---------------------------------------------------------------------------------------------
# (a) independent oracle
# ---------------------------------------------------------------------------------------------

class Tk:
    def __init__(self, s):
        self.t = s.split()
        self.p = 0

    def tok(self):
        self.p += 1
        return self.t[self.p - 1]

    def nat(self):
        return int(self.tok())

    def lst(self):
        n = self.nat()
        return [self.nat() for _ in range(n)]

    def rats(self):
        n = self.nat()
        return [vlib.parse_frac(self.tok()) for _ in range(n)]

    def decomp(self):
        G, P = self.nat(), self.nat()
        maps = [self.lst() for _ in range(P)]
        nbrs = []
        for _ in range(P):
            nn = self.nat()
            nbrs.append([(self.nat(), self.lst()) for _ in range(nn)])
        return G, maps, nbrs

    def done(self):
        return self.p >= len(self.t)


def is_abnormal(out):
    return out.split(":")[0] in ("ABORT", "EXC", "TIMEOUT", "SIGNAL", "SANITIZER", "EXIT") or out in ("HANG", "BAD-OP", "DEADLOCK")


def decomp_wf(G, maps, nbrs):
    """do the mirrors describe exactly the DOFs shared according to the maps, in matching order? (precondition)"""
    P = len(maps)
    msets = []
    for m in maps:
        ms = set(m)
        if len(ms) != len(m) or any(g >= G for g in m):
            return False
        msets.append(ms)
    owners = {}
    for r, m in enumerate(maps):
        for g in m:
            owners.setdefault(g, []).append(r)
    shared = [dict() for _ in range(P)]          # shared[r][s] = set of global DOFs common to r and s
    for g, rs in owners.items():
        if len(rs) > 1:
            for r in rs:
                for q in rs:
                    if q != r:
                        shared[r].setdefault(q, set()).add(g)
    nbd = [dict() for _ in range(P)]
    for r in range(P):
        for q, mir in nbrs[r]:
            if q == r or q >= P or q in nbd[r]:
                return False
            nbd[r][q] = mir
    for r in range(P):
        for q, mir in nbrs[r]:
            back = nbd[q].get(r)
            if back is None or any(i >= len(maps[r]) for i in mir) or any(j >= len(maps[q]) for j in back):
                return False
            gl = [maps[r][i] for i in mir]
            if gl != [maps[q][j] for j in back] or len(set(mir)) != len(mir):
                return False
            if set(gl) != shared[r].get(q, set()):
                return False
        if any(q not in nbd[r] for q in shared[r]):
            return False
    return True


def positions(maps):
    """per patch: global DOF -> local index"""
    return [{g: i for i, g in enumerate(m)} for m in maps]


def compute_sharers(maps, G):
    sh = [[] for _ in range(G)]
    for r, m in enumerate(maps):
        for g in m:
            if g < G:
                sh[g].append(r)
    return sh


def read_vecs_out(out, tag, sizes):
    o = Tk(out)
    if o.tok() != tag:
        raise ValueError("tag")
    vs = [o.rats() for _ in sizes]
    if [len(v) for v in vs] != sizes or not o.done():
        raise ValueError("vector sizes")
    return vs


def composite_oracle(op, c, out):
    kind = c.tok()
    leaves = KINDS[kind]
    L = len(leaves)
    if op in ("cmuxjoin", "cmuxsplit"):
        C, S = c.nat(), c.nat()
        pn = [c.nat() for _ in range(S)]
        ch = [[(c.nat(), c.lst(), c.lst()) for _ in range(S)] for _ in range(C)]
        for cc in ch:
            for n, pm, cm in cc:
                if len(pm) != len(cm) or sorted(pm) != list(range(n)):
                    return None          # not a consistent parent/child numbering (not generated)
        if is_abnormal(out):
            return "%s with consistent mirrors ended with %s" % (op, out)
        if op == "cmuxjoin":
            srcs = [[c.rats() for _ in range(L)] for _ in range(C)]
            res = read_vecs_out(out, "V", [pn[sl] * bs for bs, sl in leaves])
            for l, (bs, sl) in enumerate(leaves):
                exp = [Fraction(0)] * (pn[sl] * bs)
                for k in range(C):                       # every child entry exactly once
                    n, pm, cm = ch[k][sl]
                    for j, i in zip(pm, cm):
                        for b in range(bs):
                            exp[i * bs + b] += srcs[k][l][j * bs + b]
                if res[l] != exp:
                    return "join: parent component %d = %s, sum over the children gives %s" % (l, res[l][:8], exp[:8])
            return None
        src = [c.rats() for _ in range(L)]
        res = read_vecs_out(out, "V", [ch[k][sl][0] * bs for k in range(C) for bs, sl in leaves])
        for k in range(C):
            for l, (bs, sl) in enumerate(leaves):
                n, pm, cm = ch[k][sl]
                exp = [Fraction(0)] * (n * bs)
                for j, i in zip(pm, cm):
                    for b in range(bs):
                        exp[j * bs + b] = src[l][i * bs + b]
                if res[k * L + l] != exp:
                    return "split: child %d component %d = %s, restriction of the parent vector is %s" % (k, l, res[k * L + l][:8], exp[:8])
        return None
    P, S = c.nat(), c.nat()
    Gs = [c.nat() for _ in range(S)]
    maps = [[c.lst() for _ in range(S)] for _ in range(P)]          # maps[r][s]
    nbrs = []
    for _ in range(P):
        nn = c.nat()
        nbrs.append([(c.nat(), [c.lst() for _ in range(S)]) for _ in range(nn)])
    for s in range(S):
        if not decomp_wf(Gs[s], [maps[r][s] for r in range(P)], [[(q, ms[s]) for q, ms in nbrs[r]] for r in range(P)]):
            return None
    if is_abnormal(out):
        return "%s on a consistent decomposition ended with %s" % (op, out)
    sharers = [[[r for r in range(P) if g in maps[r][s]] for g in range(Gs[s])] for s in range(S)]
    sizes = [len(maps[r][sl]) * bs for r in range(P) for bs, sl in leaves]
    if op in ("csync0", "csync1"):
        for _ in range(P):
            c.lst()
        vs = [[c.rats() for _ in range(L)] for _ in range(P)]
        res = read_vecs_out(out, "V", sizes)
        cpos = [[{g: i for i, g in enumerate(maps[q][sl2])} for sl2 in range(S)] for q in range(P)]
        for r in range(P):
            for l, (bs, sl) in enumerate(leaves):
                for i, g in enumerate(maps[r][sl]):
                    for k in range(bs):
                        contrib = [vs[q][l][cpos[q][sl][g] * bs + k] for q in sharers[sl][g]]
                        exp = sum(contrib) if op == "csync0" else sum(contrib) / len(contrib)
                        if res[r * L + l][i * bs + k] != exp:
                            return "%s: patch %d component %d dof %d comp %d = %s, expected %s over sharers %s" % (
                                op, r, l, i, k, res[r * L + l][i * bs + k], exp, sharers[sl][g])
        return None
    if op in ("cdot", "casync"):
        xs = [[c.rats() for _ in range(L)] for _ in range(P)]
        ys = [[c.rats() for _ in range(L)] for _ in range(P)]
        X, Y = {}, {}
        for r in range(P):
            for l, (bs, sl) in enumerate(leaves):
                for i, g in enumerate(maps[r][sl]):
                    for k in range(bs):
                        for V, vv in ((X, xs), (Y, ys)):
                            if V.setdefault((l, g, k), vv[r][l][i * bs + k]) != vv[r][l][i * bs + k]:
                                return None
        exp = sum(X[key] * Y[key] for key in X)
        o = Tk(out)
        if op == "casync":
            n2 = sum(X[key] * X[key] for key in X)
            if o.tok() != "A":
                raise ValueError("tag")
            got = [vlib.parse_frac(o.tok()) for _ in range(3)]
            return None if got == [exp, n2, q_sqrt(n2)] else \
                "Gate::dot_async on %s vectors (dot, norm2sqr, norm2) = %s, undecomposed vectors give %s" % (kind, got, [exp, n2, q_sqrt(n2)])
        if o.tok() != "D":
            raise ValueError("tag")
        got = vlib.parse_frac(o.tok())
        return None if got == exp else "global dot %s, undecomposed vectors give %s" % (got, exp)
    return None


def global_oracle(op, c, out):
    if op == "gred":
        l = c.rats()
        exp = [sum(l), min(l), max(l), q_sqrt(sum(x * x for x in l))]
        if is_abnormal(out):
            return "scalar reduction ended with " + out
        o = Tk(out)
        if o.tok() != "R":
            raise ValueError("tag")
        got = [vlib.parse_frac(o.tok()) for _ in range(4)]
        return None if got == exp else "Gate::sum/min/max/norm2 = %s, expected %s" % (got, exp)
    if op in ("spljoin", "splsplit"):
        G, maps, nbrs = c.decomp()
        P = len(maps)
        nb = c.nat()
        rms = [c.lst() for _ in range(P)]
        bms = [c.lst() for _ in range(P)]
        if not decomp_wf(G, maps, nbrs) or nb != G or any(sorted(rms[r]) != list(range(len(maps[r]))) or
                                                         bms[r] != [maps[r][j] for j in rms[r]] for r in range(P)):
            return None
        if is_abnormal(out):
            return "%s on a consistent decomposition ended with %s" % (op, out)
        if op == "spljoin":
            vs = [c.rats() for _ in range(P)]
            res = read_vecs_out(out, "B", [G])[0]
            spos = positions(maps)
            for g in range(G):
                cc = [vs[r][spos[r][g]] for r in range(P) if g in spos[r]]
                exp = sum(cc) / len(cc) if cc else Fraction(0)     # the common value of a type-1 vector, exactly once
                if res[g] != exp:
                    return "splitter join: base dof %d = %s, expected %s from %d patches" % (g, res[g], exp, len(cc))
            return None
        base = c.rats()
        res = read_vecs_out(out, "V", [len(m) for m in maps])
        for r in range(P):
            if res[r] != [base[g] for g in maps[r]]:
                return "splitter split: patch %d = %s, restriction of the base vector is %s" % (r, res[r][:8], [base[g] for g in maps[r]][:8])
        return None
    bs = 1
    if op in ("norm", "vmax", "vops", "async"):
        bs = c.nat()
    if op == "vops":
        mode, a, b = c.nat(), vlib.parse_frac(c.tok()), vlib.parse_frac(c.tok())
    if op == "gapply2":
        alias, transp = c.nat(), c.nat()
        alpha = vlib.parse_frac(c.tok())
    if op == "valias":
        bs = c.nat()
        a, b = vlib.parse_frac(c.tok()), vlib.parse_frac(c.tok())
    if op in ("gdiag", "gfilter"):
        flag = c.nat()
    G, maps, nbrs = c.decomp()
    P = len(maps)
    if not decomp_wf(G, maps, nbrs):
        return None
    if is_abnormal(out):
        return "%s on a consistent decomposition ended with %s" % (op, out)
    sharers = compute_sharers(maps, G)
    vpos = positions(maps)
    sizes = [len(m) * bs for m in maps]

    def glob(vs, b=bs):
        X = {}
        for r in range(P):
            for i, g in enumerate(maps[r]):
                for k in range(b):
                    if X.setdefault((g, k), vs[r][i * b + k]) != vs[r][i * b + k]:
                        return None
        return X
    if op == "async":
        xs = [c.rats() for _ in range(P)]
        ys = [c.rats() for _ in range(P)]
        X, Y = glob(xs), glob(ys)
        if X is None or Y is None:
            return None
        d = sum(X[key] * Y[key] for key in X)
        n2 = sum(v * v for v in X.values())
        vals = list(X.values())
        # this rank's part of the squared norm: every entry weighted by 1 / (number of patches sharing the DOF)
        loc = [sum(xs[r][i * bs + k] ** 2 / len(sharers[g]) for i, g in enumerate(maps[r]) for k in range(bs)) for r in range(P)]
        sc = [xs[r][0] for r in range(P)]
        exp = [d, n2, q_sqrt(n2), q_sqrt(n2), P] + [q_sqrt(w) for w in loc] + \
              [max(abs(v) for v in vals), min(abs(v) for v in vals), max(vals), min(vals),
               sum(sc), q_sqrt(sum(t * t for t in sc)), min(sc), max(sc), q_sqrt(sum(t * t for t in sc))]
        t = out.split()
        if t[0] != "A":
            raise ValueError("tag")
        got = [vlib.parse_frac(u) for u in t[1:]]
        if got != exp:
            names = ["dot_async", "norm2sqr_async", "norm2_async", "Gate::dot_async(sqrt)", "#patches"] + ["local part %d" % r for r in range(P)] + \
                    ["max_abs_element_async", "min_abs_element_async", "max_element_async", "min_element_async", "sum_async",
                     "sum_async(sqrt)", "min_async", "max_async", "norm2 of scalars"]
            bad = [i for i in range(min(len(got), len(exp))) if got[i] != exp[i]]
            i = bad[0] if bad else 0
            return "asynchronous reduction %s = %s, the undecomposed vector gives %s" % (names[i] if i < len(names) else i, got[i] if bad else len(got), exp[i])
        return None
    if op in ("norm", "vmax"):
        xs = [c.rats() for _ in range(P)]
        X = glob(xs)
        if X is None:
            return None
        o = Tk(out)
        if op == "norm":
            sq = sum(v * v for v in X.values())
            if o.tok() != "N":
                raise ValueError("tag")
            got = [vlib.parse_frac(o.tok()), vlib.parse_frac(o.tok())]
            return None if got == [sq, q_sqrt(sq)] else "norm2sqr/norm2 = %s, undecomposed vector gives %s" % (got, [sq, q_sqrt(sq)])
        vals = list(X.values())
        exp = [max(abs(v) for v in vals), min(abs(v) for v in vals), max(vals), min(vals)]
        if o.tok() != "M":
            raise ValueError("tag")
        got = [vlib.parse_frac(o.tok()) for _ in range(4)]
        return None if got == exp else "max_abs/min_abs/max/min = %s, undecomposed vector gives %s" % (got, exp)
    if op == "valias":
        for _ in range(P):
            c.lst()
        ys = [c.rats() for _ in range(P)]
        loc = [[(b * (y + a * y)) ** 2 for y in ys[r]] for r in range(P)]
        toks = out.split()
        if "D" not in toks:
            raise ValueError("no dot")
        k = len(toks) - 2
        res = read_vecs_out(" ".join(toks[:k]), "V", sizes)
        for r in range(P):
            for i, g in enumerate(maps[r]):
                for kk in range(bs):
                    cc = [loc[q][vpos[q][g] * bs + kk] for q in sharers[g]]
                    if res[r][i * bs + kk] != sum(cc) / len(cc):
                        return "aliased Global::Vector ops + sync_1: patch %d dof %d = %s, expected %s" % (
                            r, i, res[r][i * bs + kk], sum(cc) / len(cc))
        L = glob(loc)
        if L is not None:
            exp = sum(v * v for v in L.values())
            if vlib.parse_frac(toks[-1]) != exp:
                return "Gate::dot(x, x) with both arguments the same object = %s, undecomposed vector gives %s" % (toks[-1], exp)
        return None
    if op == "vops":
        for _ in range(P):
            c.lst()
        ys = [c.rats() for _ in range(P)]
        xs = [c.rats() for _ in range(P)]
        loc = [[b * (y + a * x) for y, x in zip(ys[r], xs[r])] for r in range(P)]
        res = read_vecs_out(out, "V", sizes)
        for r in range(P):
            for i, g in enumerate(maps[r]):
                for k in range(bs):
                    if mode == 0:
                        exp = loc[r][i * bs + k]
                    else:
                        cc = [loc[s][vpos[s][g] * bs + k] for s in sharers[g]]
                        exp = sum(cc) / len(cc)
                    if res[r][i * bs + k] != exp:
                        return "Global::Vector copy/axpy/scale%s: patch %d dof %d = %s, expected %s" % (
                            "/sync_1" if mode else "", r, i, res[r][i * bs + k], exp)
        return None
    if op in ("gapply2", "gdiag"):
        for _ in range(P):
            c.lst()
        A = {}
        for r in range(P):
            nrows = c.nat()
            for i in range(nrows):
                for _ in range(c.nat()):
                    col, av = c.nat(), vlib.parse_frac(c.tok())
                    key = (maps[r][i], maps[r][col])
                    A[key] = A.get(key, 0) + av
        res_exp = {}
        if op == "gapply2":
            X, Y = glob([c.rats() for _ in range(P)], 1), None
            Y = glob([c.rats() for _ in range(P)], 1)
            if X is None or Y is None:
                return None
            for g in range(G):
                res_exp[g] = Y.get((g, 0), 0)
            for (gi, gj), av in A.items():
                if transp:
                    res_exp[gj] += alpha * av * X[(gi, 0)]
                else:
                    res_exp[gi] += alpha * av * X[(gj, 0)]
        else:
            for g in range(G):
                res_exp[g] = Fraction(0)
            for (gi, gj), av in A.items():
                if flag != 0 or gi == gj:
                    res_exp[gi] += av
        res = read_vecs_out(out, "V", sizes)
        for r in range(P):
            for i, g in enumerate(maps[r]):
                if res[r][i] != res_exp[g]:
                    return "%s: patch %d dof %d = %s, undecomposed operator gives %s" % (op, r, i, res[r][i], res_exp[g])
        return None
    if op == "gfilter":
        fs = []
        for r in range(P):
            fs.append([(c.nat(), vlib.parse_frac(c.tok())) for _ in range(c.nat())])
        vs = [c.rats() for _ in range(P)]
        res = read_vecs_out(out, "V", sizes)
        for r in range(P):
            exp = list(vs[r])
            for i, av in fs[r]:
                exp[i] = Fraction(0) if flag else av
            if res[r] != exp:
                return "unit filter on patch %d: %s, expected %s" % (r, res[r][:8], exp[:8])
        # a consistent filter keeps a consistent vector consistent
        gl = {}
        for r in range(P):
            for i, av in fs[r]:
                if gl.setdefault(maps[r][i], av) != av:
                    return None
        if all(set(g for g in maps[r] if g in gl) == set(maps[r][i] for i, _ in fs[r]) for r in range(P)) and glob(vs, 1) is not None:
            if glob(res, 1) is None:
                return "consistently filtered type-1 vector is no longer consistent"
        return None
    return None


def solve_oracle(op, c, out):
    if op == "rich":
        jac, k, omega = c.nat(), c.nat(), vlib.parse_frac(c.tok())
    else:
        k = c.nat()
    G, maps, nbrs = c.decomp()
    P = len(maps)
    if not decomp_wf(G, maps, nbrs):
        return None
    for _ in range(P):
        c.lst()
    mats = []
    for r in range(P):
        start = c.p
        nrows = c.nat()
        for i in range(nrows):
            for _ in range(c.nat()):
                c.nat(), c.tok()
        mats.append(" ".join(c.t[start:c.p]))
    A = assemble_global(maps, mats)
    bs = [c.rats() for _ in range(P)]
    xs = [c.rats() for _ in range(P)]
    B, X = [Fraction(0)] * G, [Fraction(0)] * G
    for r in range(P):
        for i, g in enumerate(maps[r]):
            B[g], X[g] = bs[r][i], xs[r][i]
    if any(bs[r][i] != B[g] or xs[r][i] != X[g] for r in range(P) for i, g in enumerate(maps[r])):
        return None
    if is_abnormal(out):
        return "%s on a consistent decomposition ended with %s" % (op, out)
    sizes = [len(m) for m in maps]
    if op == "rich":
        ref = serial_rich(A, G, B, X, jac, omega, k)
        if ref is None:
            return None
        res = read_vecs_out(out, "V", sizes)
        rr = None
    else:
        ref = serial_cg(A, G, B, X, k) if op == "cg" else serial_pcg(A, G, B, X, k)
        if ref is None:
            return None
        ref, rr = ref
        t = out.split()
        res = read_vecs_out(" ".join(t[:-2]), "V", sizes)
        if t[-2] != "R" or vlib.parse_frac(t[-1]) != rr:
            return "%s: r.z after %d steps = %s, the one-process iteration gives %s" % (op, k, t[-1], rr)
    for r in range(P):
        for i, g in enumerate(maps[r]):
            if res[r][i] != ref[g]:
                return "%s: iterate %d of patch %d dof %d = %s, the one-process iteration gives %s" % (op, k, r, i, res[r][i], ref[g])
    return None


def oracle(case, out):
    c = Tk(case)
    op = c.tok()
    try:
        if op in ("rich", "cg", "pcg"):
            return solve_oracle(op, c, out)
        if op == "ticket":
            kind, v = c.nat(), c.rats()
            exp = [2 * t for t in v] if kind == 2 else v
            if is_abnormal(out):
                return "async ticket of a gate without neighbours: wait() ended with %s (expected the synchronous result)" % out
            return None if read_vecs_out(out, "V", [len(v)])[0] == exp else "async ticket result %s, expected %s" % (out[:80], exp)
        if op in ("csync0", "csync1", "cdot", "casync", "cmuxjoin", "cmuxsplit"):
            return composite_oracle(op, c, out)
        if op in ("gred", "norm", "vmax", "vops", "valias", "async", "gapply2", "gdiag", "gfilter", "spljoin", "splsplit"):
            return global_oracle(op, c, out)
        if op in ("mgather", "mscatter"):
            bs, size, mir = c.nat(), c.nat(), c.lst()
            alpha = vlib.parse_frac(c.tok()) if op == "mscatter" else None
            boff, buf, vec = c.nat(), c.rats(), c.rats()
            valid = boff + bs * len(mir) <= len(buf) and size * bs == len(vec)
            if not valid:
                return None if out.startswith("ABORT") else "invalid mirror operation not reported: " + out[:80]
            if is_abnormal(out):
                return "valid mirror operation ended with " + out
            res = read_vecs_out(out, "B", [len(buf) if op == "mgather" else len(vec)])[0]
            if op == "mgather":
                exp = list(buf)
                for i, ix in enumerate(mir):
                    for k in range(bs):
                        exp[boff + i * bs + k] = vec[ix * bs + k]
            else:
                exp = list(vec)
                for i, ix in enumerate(mir):
                    for k in range(bs):
                        exp[ix * bs + k] += alpha * buf[boff + i * bs + k]
            return None if res == exp else "mirror %s result %s, expected %s" % (op[1:], res[:8], exp[:8])
        bs = 1 if op == "gapply" else c.nat()
        G, maps, nbrs = c.decomp()
        P = len(maps)
        if not decomp_wf(G, maps, nbrs):
            return None          # precondition of the property not met (malformed-gate stream: model equality only)
        if is_abnormal(out):
            return "%s on a consistent decomposition ended with %s" % (op, out)
        sharers = compute_sharers(maps, G)
        sizes = [len(m) * bs for m in maps]
        if op == "freqs":
            fs = read_vecs_out(out, "F", sizes)
            for r in range(P):
                for i, g in enumerate(maps[r]):
                    for k in range(bs):
                        if fs[r][i * bs + k] != Fraction(1, len(sharers[g])):
                            return "frequency of patch %d dof %d is %s, DOF is shared by %d patches" % (
                                r, i, fs[r][i * bs + k], len(sharers[g]))
            return None
        if op in ("sync0", "sync1"):
            for _ in range(P):
                c.lst()
            vs = [c.rats() for _ in range(P)]
            res = read_vecs_out(out, "V", sizes)
            pos = positions(maps)
            for r in range(P):
                for i, g in enumerate(maps[r]):
                    for k in range(bs):
                        contrib = [vs[s][pos[s][g] * bs + k] for s in sharers[g]]   # each sharer exactly once
                        exp = sum(contrib) if op == "sync0" else sum(contrib) / len(contrib)
                        if res[r][i * bs + k] != exp:
                            return "%s: patch %d dof %d comp %d = %s, expected %s over sharers %s" % (
                                op, r, i, k, res[r][i * bs + k], exp, sharers[g])
            return None
        if op == "dot":
            xs = [c.rats() for _ in range(P)]
            ys = [c.rats() for _ in range(P)]
            X, Y = {}, {}
            for r in range(P):
                for i, g in enumerate(maps[r]):
                    for k in range(bs):
                        for V, vv in ((X, xs), (Y, ys)):
                            if V.setdefault((g, k), vv[r][i * bs + k]) != vv[r][i * bs + k]:
                                return None      # not type-1 vectors
            exp = sum(X[key] * Y[key] for key in X)
            o = Tk(out)
            if o.tok() != "D":
                raise ValueError("tag")
            got = vlib.parse_frac(o.tok())
            return None if got == exp else "global dot %s, undecomposed vectors give %s" % (got, exp)
        if op == "gapply":
            for _ in range(P):
                c.lst()
            A = {}
            for r in range(P):
                nrows = c.nat()
                for i in range(nrows):
                    for _ in range(c.nat()):
                        col, a = c.nat(), vlib.parse_frac(c.tok())
                        key = (maps[r][i], maps[r][col])
                        A[key] = A.get(key, 0) + a
            xs = [c.rats() for _ in range(P)]
            X = {}
            for r in range(P):
                for i, g in enumerate(maps[r]):
                    if X.setdefault(g, xs[r][i]) != xs[r][i]:
                        return None
            Y = {}
            for (gi, gj), a in A.items():
                Y[gi] = Y.get(gi, 0) + a * X[gj]
            res = read_vecs_out(out, "V", sizes)
            for r in range(P):
                for i, g in enumerate(maps[r]):
                    if res[r][i] != Y.get(g, 0):
                        return "global matvec: patch %d dof %d = %s, undecomposed operator gives %s" % (r, i, res[r][i], Y.get(g, 0))
            return None
    except (IndexError, ValueError, AssertionError, ZeroDivisionError) as e:
        return "unparsable implementation output (%s): %s" % (e, out[:200])
    return None


def _shape(case):
    c = Tk(case)
    op = c.tok()
    if op in ("csync0", "csync1", "cdot", "casync", "cmuxjoin", "cmuxsplit"):
        kind = c.tok()
        n = c.nat()           # patches or children
        return op, "kind:" + kind, n, len(KINDS[kind]), True
    if op in ("mgather", "mscatter"):
        bs, size, mir = c.nat(), c.nat(), c.lst()
        return op, bs, None, len(mir), None
    if op == "gred":
        return op, 1, None, c.nat(), None
    if op == "ticket":
        c.nat()
        return op, 1, None, c.nat(), None
    if op == "rich":
        c.nat(), c.nat(), c.tok()
    if op in ("cg", "pcg"):
        c.nat()
    bs = 1 if op in ("gapply", "gapply2", "gdiag", "gfilter", "spljoin", "splsplit", "rich", "cg", "pcg") else c.nat()
    if op == "vops":
        c.nat(), c.tok(), c.tok()
    if op == "valias":
        c.tok(), c.tok()
    if op == "gapply2":
        c.nat(), c.nat()
    if op == "gapply2":
        bs = 1
        c.p -= 0
    if op in ("gdiag", "gfilter"):
        c.nat()
    if op == "gapply2":
        c.tok()
    G, maps, nbrs = c.decomp()
    cnt = [0] * G
    for m in maps:
        for g in m:
            if g < G:
                cnt[g] += 1
    return op, bs, len(maps), max(cnt) if cnt else 0, decomp_wf(G, maps, nbrs)


def nontrivial(case):
    try:
        op, bs, P, share, wf = _shape(case)
    except Exception:
        return False
    if P is None:
        return share >= 2
    if isinstance(bs, str):   # composite: >= 3 components (or nested) and >= 2 children / >= 3 patches
        return share >= 3 and P >= (2 if op.startswith("cmux") else 3)
    return P >= 3 and share >= 3 and wf


def describe(case):
    try:
        op, bs, P, share, wf = _shape(case)
    except Exception:
        return ["op:?"]
    if isinstance(bs, str):
        return ["op:" + op, bs, ("children:%d" if op.startswith("cmux") else "patches:%d") % P]
    keys = ["op:" + op, "bs:%d" % bs]
    if P is not None:
        keys += ["patches:%s" % (P if P <= 6 else "7-16"), "max-sharers:%s" % (share if share <= 4 else "5+"),
                 "gate:" + ("consistent" if wf else "malformed")]
    return keys


def canon(out):
    return "ABORT" if out.startswith("ABORT:") else out


def signature(case, out, why):
    t = case.split()
    return "c13-edge:%s:%s" % (t[0], (why or "")[:40])


# ---------------------------------------------------------------------------------------------
# (b) real MPI
# ---------------------------------------------------------------------------------------------

MESH2D = "data/meshes/unit-square-quad.xml"
MESH3D = "data/meshes/unit-cube-hexa.xml"

# process counts of the coarser layers: N -> [(levels below the top level, processes)]
LAYERED = {2: [(2, 1)], 4: [(2, 2), (3, 1)], 6: [(1, 3), (2, 1)], 8: [(1, 4), (2, 2)], 9: [(1, 3), (2, 1)],
           10: [(1, 5), (2, 1)], 12: [(1, 6), (2, 2)], 14: [(1, 7), (2, 1)], 15: [(1, 5), (2, 1)], 16: [(1, 4), (2, 1)]}


def layered_spec(top, n):
    return "_".join([str(top)] + ["%d:%d" % (max(top - d, 0), p) for d, p in LAYERED[n]] + ["0"])


def mpi_cases(tier, seed, hook):
    """case line: mpi <space> <mesh> <top-level> <solve> <N> <h3seed> <parti> <levels with '_'>"""
    rng = random.Random(seed * 7919 + 13)
    ns = [1, 2, 3, 4, 6, 8] if tier == "quick" else list(range(1, 17))
    cfgs = [("q1", MESH2D, 4, 1), ("q2", MESH2D, 3, 1), ("q1-3d", MESH3D, 2, 1)]
    reps = 1 if tier == "quick" else 2
    cases = []
    for space, mesh, top, solve in cfgs:
        for n in ns:
            for rep in range(reps if n > 2 else 1):
                h3 = rng.randint(1, 10 ** 6) if (hook and n > 1) else 0
                cases.append("mpi %s %s %d %d %d %d auto %d_0" % (space, mesh, top, solve, n, h3, top))
        # multi-layered hierarchies (process count changes on coarser levels: Muxer / Splitter / Transfer)
        for n in ns:
            if n in LAYERED and space != "q1-3d":
                h3 = rng.randint(1, 10 ** 6) if hook else 0
                cases.append("mpi %s %s %d %d %d %d auto %s" % (space, mesh, top, solve, n, h3, layered_spec(top, n)))
            elif space == "q1-3d" and n % 2 == 0:
                h3 = rng.randint(1, 10 ** 6) if hook else 0
                cases.append("mpi %s %s %d %d %d %d auto %d_1:%d_0" % (space, mesh, top, solve, n, h3, top, 1 if n == 2 else 2))
        # another partitioner for the same process count
        for n in ns:
            if n in (4, 16) and space == "q1":
                h3 = rng.randint(1, 10 ** 6) if hook else 0
                cases.append("mpi %s %s %d %d %d %d naive %d_0" % (space, mesh, top, solve, n, h3, top))
    return cases


def mpi_cfg_key(case):
    t = case.split()
    return " ".join(t[1:5])


def mpi_ref_case(case, out=None):
    """the one-process run of the same discretisation; the control layer may choose a finer top level than desired
    (reported in `levels`), in which case the reference is the one-process run on that level"""
    t = case.split()
    top = t[3]
    if out is not None:
        try:
            top = parse_mpi_out(out)["levels"].split("_")[0].split(":")[0]
            int(top)
        except (ValueError, KeyError):
            top = t[3]
    return "mpi %s %s %s %s 1 0 auto %s_0" % (t[1], t[2], top, t[4], top)


def syn_cases(tier):
    """synthetic gates: single messages above 2^15 / 2^16 entries (scalar m, blocked 2m, tuple 4m), neighbour counts
    crossing powers of two; thorough: >= 128 neighbours and a 65537-entry scalar message"""
    cs = ["mpisyn chain 3 66000 32769", "mpisyn chain 2 40000 16385", "mpisyn star 9 3 1", "mpisyn star 17 3 1", "mpisyn chain 1 10 3"]
    if tier == "thorough":
        cs += ["mpisyn chain 2 140000 65537", "mpisyn chain 4 70000 32768", "mpisyn star 33 2 1", "mpisyn star 130 2 1"]
    return cs


def syn_oracle(case, out):
    t = case.split()
    kind, N, n, m = t[1], int(t[2]), int(t[3]), int(t[4])
    try:
        o = parse_mpi_out(out)
    except ValueError:
        return "synthetic distributed run did not complete: " + out[:300]
    chain = kind == "chain"
    val = {}
    for r in range(N):
        for i in range(n):
            g = r * (n - m) + i if chain else (0 if i == 0 else 1 + r * (n - 1) + (i - 1))
            val[g] = val.get(g, 0) + (r + 1) * (g % 5 + 1)          # every sharing rank exactly once
    nd = len(val)
    sv = sum(val.values())
    exp = {"syn_dot": sum(v * 2 * (g % 3 + 1) for g, v in val.items()), "syn_max": max(val.values()),
           "syn_blk_dot": sum(v * (2 * (g % 3 + 1) - 8) for g, v in val.items()), "syn_tup_dot": 14 * sv}
    exp["syn_async_dot"] = exp["syn_dot"]
    glast = (N - 1) * (n - m) + n - 1 if chain else 1 + (N - 1) * (n - 1) + (n - 2)
    exp["syn_last"] = val[glast] if n > 1 else val[0]
    if int(o["nranks"]) != N:
        return "ran on %s ranks" % o["nranks"]
    for k, e in (("syn_ndofs", nd), ("syn_blk_ndofs", nd), ("syn_tup_ndofs", 3 * nd)):
        if int(o[k]) != e:
            return "%s = %s, the undecomposed numbering has %d" % (k, o[k], e)
    tol = 0.0 if (chain or N == 1) else 1e-12        # frequencies 1/2 are exact, 1/N in general not
    for k, e in exp.items():
        got = float.fromhex(o[k])
        if not abs(got - e) <= tol * abs(e):
            return "%s = %r on %d ranks (message of %d entries, %s neighbours), expected %r" % (k, got, N, m, o["syn_maxnb"], float(e))
    if not float.fromhex(o["syn_s1_diff"]) <= (0.0 if chain else 1e-11):
        return "sync_1 of a consistent vector changed it by %r" % float.fromhex(o["syn_s1_diff"])
    return None


def run_one_mpi(binary, case, timeout):
    t = case.split()
    if t[0] == "mpisyn":
        cmd = ["mpirun", "--allow-run-as-root", "--oversubscribe", "-n", t[2], binary, "--synthetic", t[1], t[3], t[4]]
        env = dict(os.environ)
        env["OMPI_MCA_rmaps_base_oversubscribe"] = "1"
        env["OMPI_MCA_mpi_yield_when_idle"] = "1"
        try:
            r = subprocess.run(cmd, stdout=subprocess.PIPE, stderr=subprocess.PIPE, env=env, timeout=timeout)
        except subprocess.TimeoutExpired:
            return "TIMEOUT"
        lines = [l for l in r.stdout.decode(errors="replace").split("\n") if l.startswith("C13MPI ")]
        if r.returncode != 0 or len(lines) != 1:
            return "FAIL:rc=%s %s" % (r.returncode, " ".join(r.stderr.decode(errors="replace")[-300:].split()))
        return " ".join(lines[0].split())
    space, mesh, top, solve, n, h3, parti, lv = t[1], t[2], int(t[3]), int(t[4]), int(t[5]), int(t[6]), t[7], t[8]
    cmd = ["mpirun", "--allow-run-as-root", "--oversubscribe", "-n", str(n), binary, "--mesh", os.path.join(vlib.REPO, mesh),
           "--level"] + lv.split("_") + ["--space", space]
    if solve:
        cmd.append("--solve")
    if parti != "auto":
        cmd += ["--parti-type", parti]
    if len(lv.split("_")) == 2:
        cmd.append("--splitter")     # base levels (needed by the base splitter) can be kept for single-layer runs only
    env = dict(os.environ)
    env["FEAT_VERIF_H3_SEED"] = str(h3)
    env["OMPI_MCA_rmaps_base_oversubscribe"] = "1"
    env["OMPI_MCA_mpi_yield_when_idle"] = "1"
    try:
        r = subprocess.run(cmd, stdout=subprocess.PIPE, stderr=subprocess.PIPE, env=env, timeout=timeout)
    except subprocess.TimeoutExpired:
        return "TIMEOUT"
    so = r.stdout.decode(errors="replace")
    lines = [l for l in so.split("\n") if l.startswith("C13MPI ")]
    if r.returncode != 0 or len(lines) != 1 or not lines[0].rstrip().endswith("END"):
        err = (r.stderr.decode(errors="replace") + so)[-300:].replace("\n", " ")
        return "FAIL:rc=%s %s" % (r.returncode, " ".join(err.split()))
    return " ".join(lines[0].split())


def run_mpi(binary, cases, timeout=150, max_ranks=None):
    """own runner (no forkcase): bounded total number of ranks in flight"""
    max_ranks = max_ranks or max(16, vlib.NCPU + 8)
    results = {}
    cond = threading.Condition()
    state = {"ranks": 0}

    def job(case):
        n = int(case.split()[2 if case.startswith("mpisyn") else 5])
        with cond:
            while state["ranks"] > 0 and state["ranks"] + n > max_ranks:
                cond.wait()
            state["ranks"] += n
        try:
            out = run_one_mpi(binary, case, timeout)
        finally:
            with cond:
                state["ranks"] -= n
                cond.notify_all()
        return out

    uniq = list(dict.fromkeys(cases))
    with ThreadPoolExecutor(max_workers=8) as ex:
        for case, out in zip(uniq, ex.map(job, uniq)):
            results[case] = out
    return results


def parse_mpi_out(out):
    t = out.split()
    if not t or t[0] != "C13MPI" or t[-1] != "END" or len(t) % 2 != 0:
        raise ValueError("malformed line")
    return {t[i]: t[i + 1] for i in range(1, len(t) - 1, 2)}


TOL = {"t_async_sum": 1e-12, "t_async_sum_sqrt": 1e-12, "t_async_gnorm2": 1e-12, "t_blk_async_nrm2": 1e-12, "t_blk_nrm2": 1e-12,
       "t_tup3_async_nrm2": 1e-12, "t_gate_sum_freq": 1e-12, "t_gate_norm2": 1e-12, "t_gate_norm2_ref": 1e-12, "t_b_nrm": 1e-14, "t_rhs_nrm": 1e-12, "t_def_init": 1e-12, "t_valias_dot": 1e-12, "t_Axpy_w2": 1e-12, "t_Axpy_alias_w2": 1e-12, "t_ATxpy_w2": 1e-12, "t_ATxpy_alias_w2": 1e-12, "t_sol_nrm": 1e-7, "t_sol_w1": 1e-7,
       "t_err_h0": 1e-6, "t_err_h1": 1e-6}


def make_mpi_oracle(results):
    def mpi_oracle(case, out):
        if case.startswith("mpisyn "):
            return syn_oracle(case, out)
        ref_out = results.get(mpi_ref_case(case, out))
        if ref_out is None:
            return "no single-process reference run for " + case
        try:
            ref = parse_mpi_out(ref_out)
        except ValueError:
            return "single-process reference run failed: " + ref_out[:200]
        try:
            o = parse_mpi_out(out)
        except ValueError:
            return "distributed run did not complete: " + out[:300]
        if set(o) != set(ref):
            return "different key sets"
        n = int(o["nranks"])
        if n != int(case.split()[5]):
            return "ran on %d ranks" % n
        for k in sorted(o):
            a, b = o[k], ref[k]
            if k in ("ndofs", "x_blk_ndofs", "x_tup3_ndofs", "x_pow3_ndofs", "x_nest_ndofs", "x_alt_ndofs"):
                if a != b:
                    return "%s: %s on %d ranks, %s on one" % (k, a, n, b)
            elif k.startswith("x_"):
                # dyadic data: every partial sum is exact, so the value must be bit-identical
                if float.fromhex(a) != float.fromhex(b):
                    return "%s (exact data): %s on %d ranks, %s on one process" % (k, a, n, b)
            elif k in TOL:
                fa, fb = float.fromhex(a), float.fromhex(b)
                if not abs(fa - fb) <= TOL[k] * max(abs(fa), abs(fb)):
                    return "%s: %r on %d ranks, %r on one process (rel. tolerance %g)" % (k, fa, n, fb, TOL[k])
            elif k.startswith("b_"):
                # quantities with an a-priori floating point bound proved in Lean: error / bound <= 1 (slack 1e-3 for the rounding
                # in the evaluation of the bound itself).  b_sync_float_ratio: C13.sync0_float_bound, ((1+u)^(k-1)-1) * sum|c| at a
                # DOF shared by k ranks; b_dot_float_ratio: C13.gdotFl_bound, ((1+u)^(n+2+N)-1) * sum|freq x y|
                if not float.fromhex(a) <= 1.001:
                    return "%s = %r on %d ranks: the floating point result is further from the exact value than the proved bound" % (
                        k, float.fromhex(a), n)
            elif k.startswith("z_"):
                # relative defects of identities that hold exactly in exact arithmetic (prol reproduces the interpolant of a
                # multilinear function, rest is the adjoint of prol w.r.t. Gate::dot)
                if not float.fromhex(a) <= 1e-11:
                    return "%s = %r on %d ranks (should vanish up to rounding)" % (k, float.fromhex(a), n)
            elif k == "t_s1_idem":
                if not float.fromhex(a) <= 1e-13:
                    return "sync_1 of a synchronised vector changed it by %r (relative)" % float.fromhex(a)
            elif k == "s_status":
                if a != "ok":
                    return "solver status " + a
        if "t_Axpy_alias_w2" in o:
            # r aliasing y must give what distinct objects give (same run, same partition: bit-identical)
            for ka, kb in (("t_Axpy_alias_w2", "t_Axpy_w2"), ("t_ATxpy_alias_w2", "t_ATxpy_w2")):
                if float.fromhex(o[ka]) != float.fromhex(o[kb]):
                    return "%s = %s but %s = %s on %d ranks (r aliasing y changes the result)" % (ka, o[ka], kb, o[kb], n)
        if "x_async_dot" in o:
            # asynchronous = synchronous, within the same run
            pairs = (("x_async_dot", "x_x_w2"), ("x_async_gdot", "x_x_w2"), ("x_async_nrm2sqr", "x_x_x"), ("x_async_nrm2", "x_x_nrm"),
                     ("x_async_gdot_sqrt", "x_x_nrm"), ("x_async_maxabs", "x_x_max"), ("x_async_minabs", "x_vminabs"),
                     ("x_async_max", "x_vmax"), ("x_async_min", "x_vmin"), ("x_async_gmax", "x_gate_max"), ("x_async_gmin", "x_gate_min"),
                     ("x_blk_async_dot", "x_blk_dot"), ("x_pow3_async_dot", "x_pow3_dot"), ("x_nest_async_dot", "x_nest_dot"), ("x_tup3_async_xw", "x_tup3_xw"), ("x_tup3_async_xx", "x_tup3_xx"),
                     ("t_async_sum", "t_gate_sum_freq"), ("t_async_gnorm2", "t_gate_norm2"), ("t_blk_async_nrm2", "t_blk_nrm2"))
            for ka, kb in pairs:
                fa, fb = float.fromhex(o[ka]), float.fromhex(o[kb])
                if not abs(fa - fb) <= 1e-13 * max(abs(fa), abs(fb)):
                    return "asynchronous %s = %r but synchronous %s = %r on %d ranks" % (ka, fa, kb, fb, n)
            fa, fb = float.fromhex(o["t_async_sum_sqrt"]) ** 2, float.fromhex(o["t_async_sum"])
            if not abs(fa - fb) <= 1e-12 * fb:
                return "sum_async with the sqrt flag: %r squared is not %r" % (float.fromhex(o["t_async_sum_sqrt"]), fb)
            fa, fb = float.fromhex(o["t_tup3_async_nrm2"]) ** 2, float.fromhex(o["x_tup3_xx"])
            if not abs(fa - fb) <= 1e-12 * fb:
                return "tuple gate dot_async with the sqrt flag: %r squared is not %r" % (float.fromhex(o["t_tup3_async_nrm2"]), fb)
        if "t_gate_norm2" in o:
            fa, fb = float.fromhex(o["t_gate_norm2"]), float.fromhex(o["t_gate_norm2_ref"])
            if not abs(fa - fb) <= 1e-12 * abs(fb):
                return "Gate::norm2 of the local norms %r differs from Global::Vector::norm2 %r" % (fa, fb)
            if not abs(float.fromhex(o["t_gate_sum_freq"]) - int(o["ndofs"])) <= 1e-9 * int(o["ndofs"]):
                return "sum of all frequencies %r is not the number of global DOFs %s" % (float.fromhex(o["t_gate_sum_freq"]), o["ndofs"])
        if "u_res_true" in o:
            if not float.fromhex(o["u_res_true"]) <= 1e-6 * float.fromhex(o["t_def_init"]):
                return "true residual %r not reduced (initial %r)" % (float.fromhex(o["u_res_true"]), float.fromhex(o["t_def_init"]))
        return None
    return mpi_oracle


LOOKUP = "import json,sys\nd=json.load(open(sys.argv[1]))\nfor l in open(sys.argv[2]):\n l=' '.join(l.split())\n print(d.get(l,'FAIL:not-run') if l else '')\n"


def build_mpi():
    return vlib.build_harness(
        "c13mpi", os.path.join(HDIR, "mpi_main.cpp"), cxx="mpicxx",
        # vlib puts harness/config first on the include path; pre-including the MPI variant of feat_config.hpp
        # (same include guard) makes every unit see FEAT_HAVE_MPI
        extra_flags=["-include", os.path.join(HDIR, "config_mpi", "feat_config.hpp")],
        extra_srcs=[os.path.join(HDIR, f) for f in ("mpi_inst_q1_2d.cpp", "mpi_inst_q2_2d.cpp", "mpi_inst_q1_3d.cpp", "mpi_synthetic.cpp")])


# ---------------------------------------------------------------------------------------------

def main(argv):
    args = vlib.std_args(argv)
    t0 = time.time()
    rng = random.Random(args.seed * 1000003 + 13)
    lean = None if args.no_lean else vlib.lean_check(PROP, leanchecker=(args.tier == "thorough"))
    with ThreadPoolExecutor(max_workers=2) as ex:
        fa = ex.submit(vlib.build_harness, "c13", os.path.join(HDIR, "main.cpp"))
        fb = ex.submit(build_mpi)
        (binary, err), (mpibin, merr) = fa.result(), fb.result()
    if binary is None or mpibin is None:
        v = [{"property": PROP, "kind": "harness-build-failure", "detail": err or merr, "failing_input": None,
              "broken": "harness c13 does not compile against the current tree"}]
        return vlib.finish(PROP, args.tier, args.seed, t0, lean, [], [], v, [])
    hook = os.path.exists(os.path.join(vlib.REPO, "kernel", "global", "synch_vec.hpp")) and \
        "FEAT_VERIF_H3" in open(os.path.join(vlib.REPO, "kernel", "global", "synch_vec.hpp")).read()

    replay_case = json.load(open(args.replay))["input"] if args.replay else None
    streams = []
    extra = {}
    only = os.environ.get("C13_ONLY", "")     # debugging aid: "inproc" or "mpi"
    if (replay_case is None or not replay_case.startswith("mpi")) and only in ("", "inproc"):
        cases = [replay_case] if replay_case else CORPUS + gen_cases(rng, 12000 if args.tier == "quick" else 80000)
        streams.append(vlib.Stream("inproc", cases, [binary], vlib.driver_cmd(PROP), oracle=oracle, nontrivial=nontrivial,
                                   describe=describe, signature=signature, canon=canon))
    if replay_case is None and only in ("", "inproc", "boundary"):
        bcases = gen_boundary_cases(random.Random(args.seed * 7 + 1), args.tier)
        small = [c for c in bcases if c.count(" ") < MODEL_TOKENS]
        large = [c for c in bcases if c.count(" ") >= MODEL_TOKENS]
        streams.append(vlib.Stream("boundary-sizes", small, [binary], vlib.driver_cmd(PROP), oracle=oracle, nontrivial=None,
                                   describe=boundary_describe, signature=signature, canon=canon))
        if large:   # oracle only: the list-based model is quadratic in the vector length
            streams.append(vlib.Stream("boundary-sizes-large", large, [binary], None, oracle=oracle, nontrivial=None,
                                       describe=boundary_describe, signature=signature, canon=canon))
    if (replay_case is None or replay_case.startswith("mpi")) and only in ("", "mpi"):
        if replay_case and replay_case.startswith("mpisyn "):
            mcases = []
        else:
            mcases = [replay_case] if replay_case else mpi_cases(args.tier, args.seed, hook)
        allc = list(dict.fromkeys([mpi_ref_case(c) for c in mcases] + mcases))
        t1 = time.time()
        tmo = 120 if args.tier == "quick" else 300
        results = run_mpi(mpibin, allc, timeout=tmo)
        more = [r for r in dict.fromkeys(mpi_ref_case(c, results[c]) for c in allc) if r not in results]
        if more:    # the control layer chose another finest level for some runs: add their one-process references
            results.update(run_mpi(mpibin, more, timeout=tmo))
            allc = more + allc
        if replay_case is None or replay_case.startswith("mpisyn "):
            syn = syn_cases(args.tier) if replay_case is None else [replay_case]
            results.update(run_mpi(mpibin, syn, timeout=tmo))
            allc = allc + syn
        extra["mpi_wall_s"] = round(time.time() - t1, 1)
        os.makedirs(os.path.join(vlib.BUILD, "tmp"), exist_ok=True)
        jpath = os.path.join(vlib.BUILD, "tmp", "c13-mpi-%d.json" % os.getpid())
        with open(jpath, "w") as f:
            json.dump(results, f)
        orders, share3, exact_keys, muxers, transfers = 0, 0, 0, 0, 0
        for c, o in results.items():
            try:
                d = parse_mpi_out(o)
                orders += int(d["h3_orders"])
                muxers += int(d.get("p_mux3_used", 0))
                transfers += int(d.get("p_transfers", 0)) if int(d["nranks"]) > 1 else 0
                share3 += 1 if (int(d["nranks"]) >= 3 and int(d["p_share3"]) > 0) else 0
                exact_keys += sum(1 for k in d if k.startswith("x_")) if int(d["nranks"]) > 1 else 0
            except (ValueError, KeyError):
                pass
        extra.update({"h3_hook_compiled_in": hook, "h3_distinct_processing_orders": orders,
                      "mpi_runs": len(results), "mpi_tuple3_muxers_exercised": muxers, "mpi_transfer_level_pairs": transfers, "mpi_runs_with_dof_shared_by_3_ranks": share3,
                      "mpi_bit_exact_comparisons": exact_keys,
                      "mpi_process_counts": sorted({int(c.split()[2 if c.startswith("mpisyn") else 5]) for c in results})})

        def mpi_nontrivial(case, results=results):
            try:
                d = parse_mpi_out(results.get(case, ""))
                return int(d["nranks"]) >= 3 and int(d["p_share3"]) > 0
            except (ValueError, KeyError):
                return False

        def mpi_describe(case):
            t = case.split()
            if t[0] == "mpisyn":
                return ["synthetic:" + t[1], "N:" + t[2], "message-entries:" + t[4]]
            return ["space:" + t[1], "N:" + t[5], "layers:%d" % (len(t[8].split("_")) - 1), "parti:" + t[7],
                    "h3:" + ("on" if t[6] != "0" else "off")]

        streams.append(vlib.Stream("mpi", allc, [sys.executable, "-c", LOOKUP, jpath], None, oracle=make_mpi_oracle(results),
                                   nontrivial=mpi_nontrivial, describe=mpi_describe, signature=signature))
    rule = ("inproc: random decompositions (1..16 patches; disjoint / chain / vertex-grid / star / random membership; "
            "shuffled local numbering, mirror and neighbour order; empty halos; scalar and blocked(2,3) vectors; all "
            "arrival orders drawn at random; 6% malformed gates for model equality only); non-trivial = >= 3 patches "
            "with a DOF shared by >= 3 of them (mirror ops: >= 2 indices). mpi: unit square Q1/Q2, unit cube Q1, "
            "N = 1,2,3,4,6,8 (quick) / 1..16 (thorough), single- and multi-layered hierarchies, two partitioners; "
            "non-trivial = N >= 3 with a DOF shared by >= 3 ranks")
    extra["rule"] = rule
    rc = vlib.run_pipeline(PROP, args.tier, args.seed, lean, streams, t0, assumptions=[
        "in-process stream: the MPI message exchange is emulated (gather all send buffers, then scatter in the given "
        "arrival order), everything else is the real FEAT code at the exact scalar Q",
        "MPI stream: Open MPI delivers each message unmodified to the matching receive (runtime is trusted)",
        "arrival orders: every order is covered by theorem C13.sync0_order_indep; the runs observe "
        + ("seeded permutations via hook H3" if hook else "only the orders MPI produced (hook H3 not in this tree)"),
        "Index modelled as unbounded Nat"], extra_cov=extra)
    return rc
