"""C04 - vector operations equal their element-wise definitions for every vector kind."""
import json
import os
import random
import time
from fractions import Fraction

import vlib

PROP = "C04"

# ---------------------------------------------------------------------------------------------
# shapes (prefix notation; must be instantiated in harness/c04/main.cpp, checked at start-up)
# ---------------------------------------------------------------------------------------------
LEAF_SHAPES = ["D", "B 1", "B 2", "B 3", "B 4"]
COMPOSED_SHAPES = [
    "T 1 D", "T 2 D B 2", "T 3 B 3 D B 2", "T 2 P 2 D D", "T 2 T 2 D D B 2",
    "P 1 D", "P 2 D", "P 3 D", "P 2 B 2", "P 2 P 2 D", "P 2 T 2 D B 2", "T 2 P 3 B 3 T 1 D",
    # blocked components in first / middle position (scalar vs block offsets of the rest differ there)
    "T 2 B 2 D", "T 3 D B 4 D", "T 2 B 1 B 3", "T 3 B 3 B 2 D", "P 3 B 4", "P 2 T 2 B 2 D",
]
SHAPES = LEAF_SHAPES + COMPOSED_SHAPES

SIZES_LEAF = [0, 1, 2, 3, 4, 5, 7, 8, 9, 31, 32, 33]
SIZES_SMALL = [0, 1, 1, 2, 3, 4, 5, 7, 9]

MUT_OPS = {"axpy": "ab", "scale": "ab", "cinv": "ab", "cprod": "abc", "copy": "ab", "format": "a"}
RED_OPS = {"dot": "ab", "tdot": "abc", "norm2": "a", "norm2sqr": "a", "maxabs": "a", "minabs": "a", "max": "a", "min": "a"}
BLK_OPS = {"axpyb": "ab", "scaleb": "ab", "dotb": "ab", "tdotb": "abc", "norm2b": "a", "norm2sqrb": "a",
           "maxabsb": "a", "minabsb": "a", "maxb": "a", "minb": "a", "ccopy": "ab", "ccopyto": "ab"}
# flat <-> composed copies (DenseVector::copy(VT_) / copy_inv(VT_) / convert(VT_)), second class flat where 'F'
FLAT_OPS = {"flatcopy": "ab", "flatcopyinv": "ab", "flatconvert": "a", "flatrt": "ab", "flatrtinv": "ab"}
FLAT_SECOND = ("flatcopy", "flatcopyinv", "flatrtinv")
MINMAX = ("maxabs", "minabs", "max", "min", "maxabsb", "minabsb", "maxb", "minb")
PATTERNS = {1: ["a"], 2: ["ab", "aa"], 3: ["abc", "aab", "aba", "abb", "aaa"]}


def shape_leaves(shape):
    """block size of every leaf in flattening order (dense = 1, flagged separately)"""
    t = shape.split()
    pos = [0]

    def rec():
        k = t[pos[0]]
        pos[0] += 1
        if k == "D":
            return [("D", 1)]
        if k == "B":
            b = int(t[pos[0]])
            pos[0] += 1
            return [("B", b)]
        if k == "T":
            n = int(t[pos[0]])
            pos[0] += 1
            out = []
            for _ in range(n):
                out += rec()
            return out
        if k == "P":
            n = int(t[pos[0]])
            pos[0] += 1
            sub = rec()
            return sub * n
        raise ValueError(k)

    r = rec()
    return r, pos[0]


def shape_depth(shape):
    t = shape.split()
    return sum(1 for x in t if x in ("T", "P"))


# ---------------------------------------------------------------------------------------------
# generators
# ---------------------------------------------------------------------------------------------

def gen_value(rng, style):
    if style == "smallint":
        return Fraction(rng.randint(-3, 3))
    if style == "rat":
        return Fraction(rng.randint(-20, 20), rng.randint(1, 9))
    if style == "spread":
        e = rng.randint(-40, 40)
        m = Fraction(rng.randint(1, 7) * rng.choice([-1, 1]))
        return m * (Fraction(2) ** e)
    if style == "nonneg":
        return Fraction(rng.randint(0, 12), rng.randint(1, 4))
    if style == "neg":
        return -Fraction(rng.randint(1, 12), rng.randint(1, 4))
    if style == "zeros":
        return Fraction(0)
    if style == "ties":
        return Fraction(rng.choice([-2, 2, -2, 2, 1]))
    raise ValueError(style)


STYLES = ["smallint", "rat", "rat", "spread", "nonneg", "neg", "zeros", "ties"]


def gen_data(rng, n, nonzero=False):
    style = rng.choice(STYLES)
    out = []
    for _ in range(n):
        v = gen_value(rng, style)
        if rng.random() < 0.08:
            v = gen_value(rng, rng.choice(STYLES))
        if nonzero and v == 0:
            v = Fraction(rng.choice([-1, 1]) * rng.randint(1, 5), rng.randint(1, 3))
        out.append(v)
    return out


def gen_scalar(rng):
    k = rng.random()
    if k < 0.12:
        return Fraction(0)
    if k < 0.22:
        return Fraction(1)
    if k < 0.34:
        return Fraction(-1)
    if k < 0.75:
        return Fraction(rng.randint(-9, 9), rng.randint(1, 7))
    return gen_value(rng, "spread")


def fl(l):
    return ("%d " % len(l) + " ".join(vlib.frac_str(x) for x in l)).strip()


def il(l):
    return ("%d " % len(l) + " ".join(map(str, l))).strip()


def gen_sizes(rng, shape, min_size=0):
    leaves, _ = shape_leaves(shape)
    if len(leaves) == 1:
        pool = [s for s in SIZES_LEAF if s >= min_size]
        if leaves[0][1] >= 3:
            pool = [s for s in pool if s <= 9] + [11]
        return [rng.choice(pool)]
    pool = [s for s in SIZES_SMALL if s >= min_size]
    if rng.random() < 0.5:
        n = rng.choice(pool)
        return [n] * len(leaves)
    return [rng.choice(pool) for _ in leaves]


def pod_len(shape, sizes):
    leaves, _ = shape_leaves(shape)
    return sum(n * b for n, (_, b) in zip(sizes, leaves))


def gen_case(rng, probes=False):
    k = rng.random()
    if k < 0.04:
        return gen_sparse(rng, probes)
    if k < 0.10:
        return gen_script(rng, probes)
    if k < 0.27:
        # blocked-only members
        op = rng.choice(list(BLK_OPS))
        b = rng.choice([1, 2, 3, 4])
        shape = "B %d" % b
        base = BLK_OPS[op]
        if op in ("ccopy", "ccopyto"):
            n = rng.choice([1, 2, 3, 4, 5, 7, 8, 9])
            ok_blocks = [j for j in range(b) if j < n]
            bad_blocks = [j for j in range(b) if j >= n]       # short vector, high component (was FEAT defect 3, fixed)
            if bad_blocks and rng.random() < 0.4:
                block = rng.choice(bad_blocks)
            else:
                block = rng.choice(ok_blocks)
            return "%s ab 0 1 %d/1 %s 1 %d %s %s" % (op, block, shape, n, fl(gen_data(rng, n * b)), fl(gen_data(rng, n)))
        minsz = 1 if op in MINMAX else 0
        sizes = gen_sizes(rng, shape, minsz)
        if op in MINMAX and rng.random() < 0.03:
            sizes = [0]
        pat = rng.choice(PATTERNS[len(base)])
        ncls = len(set(pat))
        scal = [gen_scalar(rng) for _ in range(b)] if op in ("axpyb", "scaleb") else []
        datas = [gen_data(rng, pod_len(shape, sizes)) for _ in range(ncls)]
        return "%s %s %d %s %s %s %s" % (op, pat, rng.randint(0, 1), fl(scal), shape, il(sizes), " ".join(fl(d) for d in datas))
    if k < 0.40:
        # flat <-> composed copies and round trips on every shape; dense <-> blocked conversion
        if rng.random() < 0.12:
            b = rng.choice([1, 2, 3, 4])
            n = rng.choice([0, 1, 2, 3, 5, 8])
            return "denseblocked a 0 0 B %d 1 %d %s" % (b, n, fl(gen_data(rng, n * b)))
        op = rng.choice(list(FLAT_OPS))
        shape = rng.choice(COMPOSED_SHAPES if rng.random() < 0.85 else LEAF_SHAPES)
        sizes = gen_sizes(rng, shape, 0)
        n = pod_len(shape, sizes)
        pat = FLAT_OPS[op]
        if op == "flatrt" and rng.random() < 0.2:
            pat = "aa"
        datas = [gen_data(rng, n) for _ in range(len(set(pat)))]
        return "%s %s 0 0 %s %s %s" % (op, pat, shape, il(sizes), " ".join(fl(d) for d in datas))
    ops = dict(MUT_OPS)
    ops.update(RED_OPS)
    op = rng.choice(list(ops))
    shape = rng.choice(SHAPES if rng.random() < 0.7 else COMPOSED_SHAPES)
    base = ops[op]
    pat = rng.choice(PATTERNS[len(base)])
    if len(base) > 1 and rng.random() < 0.35:
        pat = rng.choice(PATTERNS[len(base)][1:])     # favour the aliased patterns
    ncls = len(set(pat))
    minsz = 1 if op in MINMAX else 0
    sizes = gen_sizes(rng, shape, minsz)
    if op in MINMAX:
        r = rng.random()
        if r < 0.03:
            sizes = [0] * len(sizes)                      # undefined on an empty vector
        elif probes and len(sizes) > 1 and r < 0.10:
            sizes[rng.randrange(len(sizes))] = 0          # empty component of a non-empty composition (finding 2)
    n = pod_len(shape, sizes)
    scal = []
    if op in ("axpy", "scale", "cinv", "format"):
        scal = [gen_scalar(rng)]
    if op == "copy":
        scal = [Fraction(rng.randint(0, 1))]
    datas = []
    for ci in range(ncls):
        nonzero = (op == "cinv") and rng.random() < 0.97
        datas.append(gen_data(rng, n, nonzero=nonzero))
    return "%s %s %d %s %s %s %s" % (op, pat, rng.randint(0, 1), fl(scal), shape, il(sizes), " ".join(fl(d) for d in datas))


def gen_sparse(rng, probes):
    b = rng.choice([0, 0, 1, 2, 3])
    subs = ["get", "get", "format", "maxabs", "minabs", "max", "min"]
    sub = rng.choice(subs)
    size = rng.choice([1, 2, 3, 5, 8, 9, 17, 40])
    nw = rng.choice([0, 1, 2, 3, 5, 8, size, size + 3])
    if b > 0 and not (rng.random() < 0.3):
        nw = min(nw, size)      # more writes than slots make SparseVectorBlocked reallocate (was FEAT defect 4, fixed)
    w = max(b, 1)
    writes = []
    for _ in range(nw):
        idx = rng.randrange(size)
        vals = gen_data(rng, w, nonzero=(rng.random() < 0.8))
        writes.append("%d %s" % (idx, " ".join(vlib.frac_str(v) for v in vals)))
    head = "sv" if b == 0 else "svb %d" % b
    extra = " " + vlib.frac_str(gen_scalar(rng)) if sub == "format" else ""
    return ("%s %s%s %d %d %s" % (head, sub, extra, size, nw, " ".join(writes))).strip()


def gen_script(rng, probes):
    """svs: interleaved writes / reads / format / used_elements / min-max members on one sparse vector"""
    b = rng.choice([0, 0, 1, 2, 3])
    w = max(b, 1)
    big = rng.random() < 0.004
    size = rng.choice([1001, 1003, 1500]) if big else rng.choice([1, 2, 3, 5, 8, 9, 17, 40])
    n = rng.choice([1001, 1002, 1005]) if big else rng.choice([1, 2, 3, 5, 8, 13, size, size + 3, 2 * size + 1, 3 * size + 2])
    order = rng.choice(["random", "random", "desc", "asc", "same", "two"])
    steps = []
    pool = rng.sample(range(size), min(size, 2))
    for k in range(n):
        r = rng.random()
        if big and k < 1000:
            r = 0.0      # fill the first allocation, the interesting calls follow the reallocation
        if r < 0.6:
            if order == "random":
                idx = rng.randrange(size)
            elif order == "desc":
                idx = (size - 1 - k) % size
            elif order == "asc":
                idx = k % size
            elif order == "same":
                idx = pool[0]
            else:
                idx = rng.choice(pool)
            vals = gen_data(rng, w, nonzero=(rng.random() < 0.8))
            steps.append("w %d %s" % (idx, " ".join(vlib.frac_str(v) for v in vals)))
        elif r < 0.85:
            steps.append("r %d" % rng.randrange(size))
        elif r < 0.90:
            steps.append("u")
        elif r < 0.93:
            steps.append("f %s" % vlib.frac_str(gen_scalar(rng)))
        elif not big or rng.random() < 0.05:
            steps.append("m %s" % rng.choice(["maxabs", "minabs", "max", "min"]))
        else:
            steps.append("r %d" % rng.randrange(size))
    return "svs %d %d %d %s" % (b, size, len(steps), " ".join(steps))


def gen_cases(rng, count, probes=False):
    return [gen_case(rng, probes) for _ in range(count)]


# ---------------------------------------------------------------------------------------------
# boundary-size stream: the Lean model counts in unbounded Nat, so C++ size-dependent paths (MemoryPool's count%4
# padding, SparseVector's min(size,1000)-slot allocation steps, the max-index duplicate marker, int block/stride
# arguments, 32-bit index type) are only tied by running sizes just below / at / above the boundaries.
# Data are sparse (mostly zero); the interesting entries sit at the HIGH end (last scalars / highest indices).
# ---------------------------------------------------------------------------------------------
BOUNDARY_QUICK = [127, 128, 129, 255, 256, 257, 1000, 1001]
BOUNDARY_THOROUGH = [32767, 32768, 65535, 65536, 65537]


def hi_data(rng, n, k=3, nonzero_all=False):
    """n scalars, zeros except up to k entries among the last positions (always the very last one)"""
    d = [Fraction(0)] * n
    if n == 0:
        return d
    pos = {n - 1}
    for _ in range(k - 1):
        pos.add(max(0, n - 1 - rng.randrange(min(n, 6))))
    for q in pos:
        d[q] = Fraction(rng.choice([-1, 1]) * rng.randint(1, 9), rng.randint(1, 4))
    if nonzero_all:
        d = [v if v != 0 else Fraction(1) for v in d]
    return d


def gen_boundary(rng, tier):
    cases = []
    sizes = list(BOUNDARY_QUICK) + (BOUNDARY_THOROUGH if tier == "thorough" else [])
    dense_ops = dict(MUT_OPS, **RED_OPS)
    blk_ops = {k: v for k, v in BLK_OPS.items() if k not in ("ccopy", "ccopyto")}
    for n in sizes:
        big = n > 2000
        # every dense kernel in every aliasing branch at every boundary size (for the very large sizes: one
        # random branch per kernel); extreme / only non-zero values in the last positions
        for op, base in dense_ops.items():
            pats = PATTERNS[len(base)] if not big else [rng.choice(PATTERNS[len(base)])]
            for pat in pats:
                scal = [gen_scalar(rng)] if op in ("axpy", "scale", "cinv", "format") else ([Fraction(0)] if op == "copy" else [])
                datas = [hi_data(rng, n, nonzero_all=(op in ("cinv", "minabs", "min", "max"))) for _ in set(pat)]
                if op in ("min", "max", "minabs"):
                    # the extreme value is the very last scalar
                    datas[0][-1] = {"min": Fraction(-7), "max": Fraction(7), "minabs": Fraction(1, 3)}[op]
                cases.append("%s %s %d %s D 1 %d %s" % (op, pat, rng.randint(0, 1), fl(scal), n, " ".join(fl(d) for d in datas)))
        # blocked vector whose pod size is n (or just above): per-component kernels, the last block decides
        for op, base in blk_ops.items():
            if big and rng.random() < 0.5:
                continue
            pats = PATTERNS[len(base)] if not big else [rng.choice(PATTERNS[len(base)])]
            modes = ["pod", "count"] if (len(base) == 1 and not big) else [rng.choice(["pod", "count"])]
            for pat, mode in [(pt, md) for pt in pats for md in modes]:
                b = rng.choice([2, 3, 4])
                # the boundary is crossed by the scalar (pod) size or by the number of blocks
                nb = (n + b - 1) // b if mode == "pod" else n
                scal = [gen_scalar(rng) for _ in range(b)] if op in ("axpyb", "scaleb") else []
                nz = op in ("maxabsb", "minabsb", "minb", "maxb")
                datas = [hi_data(rng, nb * b, k=b + 1) for _ in set(pat)]
                if nz:
                    # all entries equal, the extreme of every component in the second-to-last block and a decoy
                    # (between the common value and the extreme) in the last block: a stale / narrowed running
                    # index makes the decoy win
                    base_v, ext, decoy = {"maxabsb": (1, -9, 2), "maxb": (1, 9, 2), "minabsb": (5, Fraction(-1, 3), 2),
                                          "minb": (5, -9, 2)}[op]
                    d0 = [Fraction(base_v)] * (nb * b)
                    for j in range(b):
                        d0[nb * b - 2 * b + j] = Fraction(ext) + (j if op in ("maxb",) else 0)
                        d0[nb * b - b + j] = Fraction(decoy)
                    datas[0] = d0
                cases.append("%s %s 0 %s B %d 1 %d %s" % (op, pat, fl(scal), b, nb, " ".join(fl(d) for d in datas)))
        if n <= 1001 or tier == "thorough":
            # component copy into / out of the LAST component, flat <-> composed copy with the blocked part first
            b = 4
            nb = n
            if n <= 1001:
                cases.append("ccopy ab 0 1 %d/1 B %d 1 %d %s %s" % (b - 1, b, nb, fl(hi_data(rng, nb * b)), fl(hi_data(rng, nb))))
            k1 = max(1, n // 4)
            sz = [k1, n - 2 * k1 if n - 2 * k1 >= 0 else 0]
            tot = sz[0] * 2 + sz[1]
            op = rng.choice(["flatcopy", "flatcopyinv", "flatrtinv"])
            cases.append("%s ab 0 0 T 2 B 2 D 2 %d %d %s %s" % (op, sz[0], sz[1], fl(hi_data(rng, tot)), fl(hi_data(rng, tot))))
    # sparse vectors: allocation steps of min(size, 1000) slots -> reallocation on write 1001, 2001, ...;
    # sort() of > 1000 entries; duplicates and the last writes at the highest indices; 32-bit index type
    counts = [999, 1000, 1001, 1002, 2000, 2001, 2002] if tier == "quick" else [999, 1000, 1001, 1002, 2000, 2001, 2002, 3001]
    for nw in counts:
        for b in ([0] if tier == "quick" else [0, 2]) + ([32, 2] if nw in (1001, 2001) else []) + ([322] if nw in (1001, 2001) else []):
            w = max({32: 0, 322: 2}.get(b, b), 1)
            size = rng.choice([nw, nw + 1, nw + 500, 1000, 1001]) if nw <= 1002 else nw + rng.choice([0, 1, 499])
            size = max(size, 2)
            # no duplicates before the last three writes for asc / desc (size >= nw - 3), so that every
            # reallocation really happens at write 1001, 2001, ...
            order = rng.choice(["desc", "asc", "desc", "asc", "random"])
            if order != "random":
                size = max(size, nw)
            midread = rng.random() < 0.3
            steps = []
            for k in range(nw):
                if order == "desc":
                    idx = (size - 1 - k) % size
                elif order == "asc":
                    idx = k % size
                else:
                    idx = rng.randrange(size)
                if k >= nw - 3:
                    idx = size - 1 - (k % 2)              # the last writes: duplicates at the highest indices
                vals = [Fraction(k % 7 - 3) if k < nw - 3 else Fraction(rng.randint(1, 9) * 100 + k % 10) for _ in range(w)]
                steps.append("w %d %s" % (idx, " ".join(vlib.frac_str(v) for v in vals)))
                if midread and k in (999, 1000, 1999, 2000):
                    steps.append("r %d" % (size - 1))      # a read (sort) right at the allocation boundary
            steps += ["r %d" % (size - 1), "r %d" % (size - 2), "r 0", "u", "m maxabs", "m min"]
            cases.append("svs %d %d %d %s" % (b, size, len(steps), " ".join(steps)))
    return cases


def describe_boundary(case):
    t = case.split()
    keys = ["op:" + t[0]]
    try:
        p = parse_case(case)
    except Exception:
        return keys
    if p["op"] == "svs":
        nwr = sum(1 for st in p["steps"] if st[0] == "w")
        keys.append("sparse-writes:%d" % nwr)
        keys.append("sparse-size:%d" % p["size"])
        keys.append("index-type:%s" % ("uint32" if t[1] in ("32", "322") else "uint64"))
    else:
        keys.append("pod-size:%d" % pod_len(p["shape"], p["sizes"]))
    return keys



CORPUS = [
    # alias branches with the scalars that make them degenerate (1 + a == 0), empty and one-element vectors
    "axpy aa 0 1 -1/1 D 1 3 3 1/1 2/1 3/1",
    "axpy aa 1 1 -1/1 D 1 3 3 1/1 2/1 3/1",
    "axpy aa 0 1 1/2 D 1 0 0",
    "axpy ab 0 1 1/2 T 2 D B 2 2 1 2 5 1/1 2/1 3/1 4/1 5/1 5 1/1 1/1 1/1 1/1 2/1",
    "dot aa 0 0 D 1 0 0",
    "tdot aba 0 0 T 2 P 2 D D 3 2 2 1 5 1/1 2/1 3/1 4/1 5/1 5 1/1 -1/1 1/2 3/1 7/1",
    "tdot abb 1 0 B 3 1 1 3 1/1 2/1 3/1 3 -1/1 1/2 5/1",
    "tdot aaa 0 0 P 2 D 2 1 1 2 -2/1 3/1",
    "cprod aaa 0 0 D 1 5 5 1/1 -2/1 0/1 3/1 1/2",
    "cprod aba 1 0 P 2 P 2 D 4 1 1 2 0 4 1/1 2/1 3/1 4/1 4 5/1 6/1 7/1 8/1",
    "norm2 a 0 0 P 1 D 1 2 2 1/1 1/1",
    "norm2 a 0 0 T 1 D 1 2 2 1/1 1/1",
    "norm2sqr a 0 0 T 2 D B 2 2 1 1 3 1/1 1/1 1/1",
    "maxabs a 0 0 D 1 3 3 0/1 0/1 0/1",
    "minb a 0 0 B 3 1 2 6 1/1 5/1 -3/1 0/1 7/1 -4/1",
    "ccopy ab 0 1 1/1 B 3 1 2 6 1/1 2/1 3/1 4/1 5/1 6/1 2 10/1 20/1",
    "sv get 5 4 3 7/1 1 2/1 3 9/1 1 -1/1",
    "svb 2 get 4 3 1 5/1 6/1 1 7/1 8/1 0 1/1 1/1",
    # fixed FEAT defects (f61038424, 985ee9111): kept as regression inputs
    "ccopy ab 0 1 2/1 B 3 1 1 3 1/1 2/1 3/1 1 9/1",
    "ccopyto ab 0 1 2/1 B 3 1 2 6 1/1 2/1 3/1 4/1 5/1 6/1 2 0/1 0/1",
    "svb 2 get 1 2 0 1/1 1/1 0 2/1 2/1",
    "svb 1 get 3 4 2 5/1 1 6/1 0 7/1 0 8/1",
]

# inputs that reproduce the FEAT defects recorded in FINDINGS_C04.md (only run in probe mode)
PROBE_CORPUS = [
    "maxabs a 0 0 T 2 D B 2 2 1 0 1 -5/1",
    "max a 0 0 P 2 D 2 2 0 2 1/1 3/1",
]


# ---------------------------------------------------------------------------------------------
# independent oracle: element-wise definitions on the flattened data (fractions)
# ---------------------------------------------------------------------------------------------

class Tk:
    def __init__(self, s):
        self.t = s.split()
        self.p = 0

    def tok(self):
        self.p += 1
        return self.t[self.p - 1]

    def nat(self):
        return int(self.tok())

    def frac(self):
        return vlib.parse_frac(self.tok())

    def nats(self):
        n = self.nat()
        return [self.nat() for _ in range(n)]

    def fracs(self):
        n = self.nat()
        return [self.frac() for _ in range(n)]

    def shape(self):
        start = self.p
        _, used = shape_leaves(" ".join(self.t[start:]))
        self.p = start + used
        return " ".join(self.t[start:self.p])


def is_abnormal(out):
    return out.split(":")[0] in ("ABORT", "EXC", "TIMEOUT", "SIGNAL", "SANITIZER", "EXIT", "UNDEF") or out.startswith("BAD-OP")


def parse_case(case):
    c = Tk(case)
    op = c.tok()
    if op == "svs":
        b, size, n = c.nat(), c.nat(), c.nat()
        b = {32: 0, 322: 2}.get(b, b)          # 32 / 322: 32-bit index type variants
        w = max(b, 1)
        steps = []
        for _ in range(n):
            what = c.tok()
            if what == "w":
                idx = c.nat()
                steps.append(("w", idx, [c.frac() for _ in range(w)]))
            elif what == "r":
                steps.append(("r", c.nat()))
            elif what == "f":
                steps.append(("f", c.frac()))
            elif what == "u":
                steps.append(("u",))
            elif what == "m":
                steps.append(("m", c.tok()))
            else:
                raise ValueError(what)
        return {"op": op, "b": b, "size": size, "steps": steps, "sub": "script"}
    if op in ("sv", "svb"):
        b = c.nat() if op == "svb" else 0
        sub = c.tok()
        fv = c.frac() if sub == "format" else None
        size, n = c.nat(), c.nat()
        w = max(b, 1)
        writes = []
        for _ in range(n):
            idx = c.nat()
            writes.append((idx, [c.frac() for _ in range(w)]))
        return {"op": op, "b": b, "sub": sub, "fv": fv, "size": size, "writes": writes}
    pat = c.tok()
    cl = c.nat()
    scal = c.fracs()
    shape = c.shape()
    sizes = c.nats()
    classes = []
    for ch in pat:
        if ch not in classes:
            classes.append(ch)
    datas = [c.fracs() for _ in classes]
    return {"op": op, "pat": pat, "cl": cl, "scal": scal, "shape": shape, "sizes": sizes, "classes": classes,
            "datas": datas}


def parse_out(out):
    o = Tk(out)
    if o.tok() != "R":
        raise ValueError("no R")
    res = o.fracs()
    k = o.nat()
    objs = [o.fracs() for _ in range(k)]
    used = None
    if o.p < len(o.t):
        if o.tok() != "U":
            raise ValueError("trailing tokens")
        used = o.nat()
    return res, objs, used


TWO40 = Fraction(1, 2 ** 40)


def sqrt_ok(val, s, leaves):
    """val is the square root of s up to the documented rounding of the exact type's sqrt (truncation to
    2^-40 absolute per square root taken)"""
    tol = TWO40 + leaves * 2 * TWO40
    return val >= 0 and val * val <= s and (val + tol) ** 2 > s


def sqr_ok(val, s, leaves):
    # sum of squared truncated roots: below s by less than leaves * 2^-39 * sqrt(s)
    d = s - val
    return d >= 0 and d * d <= (leaves * 2 * TWO40) ** 2 * s


def classify(case):
    """'main' | 'undefined' (operation not defined on this input) | 'probe2' (open FEAT defect: empty sub-vector)"""
    p = parse_case(case)
    op = p["op"]
    if op in ("svs", "sv", "svb"):
        return "main"
    if op in MINMAX:
        if sum(p["sizes"]) == 0:
            return "undefined"
        if any(s == 0 for s in p["sizes"]):
            return "probe2"
    if op == "cinv":
        x = p["datas"][p["classes"].index(p["pat"][1])]
        if any(v == 0 for v in x):
            return "undefined"
    return "main"


def oracle(case, out):
    try:
        p = parse_case(case)
    except Exception as e:  # generator bug
        return "unparsable case (%s)" % e
    op = p["op"]
    kind = classify(case)
    if kind == "undefined":
        return None
    if is_abnormal(out):
        return "operation on a valid input ended with %s" % out
    try:
        res, objs, used = parse_out(out)
    except Exception as e:
        return "unparsable implementation output (%s): %s" % (e, out[:200])
    if op == "svs":
        w = max(p["b"], 1)
        zero = [Fraction(0)] * w
        m = {}
        exp = []
        mm = []        # positions of min/max results
        for st in p["steps"]:
            if st[0] == "w":
                m[st[1]] = list(st[2])
            elif st[0] == "r":
                exp += m.get(st[1], zero)
            elif st[0] == "f":
                for k in m:
                    m[k] = [st[1]] * w
            elif st[0] == "u":
                exp.append(Fraction(len(m)))
            else:
                flat = [v for i in range(p["size"]) for v in m.get(i, zero)]
                mm.append(len(exp))
                exp.append({"maxabs": max(abs(v) for v in flat), "minabs": min(abs(v) for v in flat),
                            "max": max(flat), "min": min(flat)}[st[1]])
        flat = [v for i in range(p["size"]) for v in m.get(i, zero)]
        if len(objs) != 1 or objs[0] != flat:
            return "sparse vector read-out differs from the last-write-wins expansion"
        if used != len(m):
            return "used_elements %s, expected %d distinct indices" % (used, len(m))
        if len(res) != len(exp):
            return "script returned %d values, expected %d" % (len(res), len(exp))
        for k, (g, e) in enumerate(zip(res, exp)):
            if g != e and k not in mm:
                return "script value %d is %s, last-write-wins gives %s" % (k, g, e)
        for k in mm:
            if res[k] != exp[k]:
                return "min/max of the flattened sparse vector is %s, got %s" % (exp[k], res[k])
        return None
    if op in ("sv", "svb"):
        w = max(p["b"], 1)
        dense = [[Fraction(0)] * w for _ in range(p["size"])]
        written = set()
        for idx, vals in p["writes"]:
            dense[idx] = list(vals)
            written.add(idx)
        if p["sub"] == "format":
            for idx in written:
                dense[idx] = [p["fv"]] * w
        flat = [v for blk in dense for v in blk]
        if len(objs) != 1 or objs[0] != flat:
            return "sparse vector read-out differs from the last-write-wins expansion"
        if used != len(written):
            return "used_elements %s, expected %d distinct indices" % (used, len(written))
        if p["sub"] in ("get", "format"):
            return None if not res else "unexpected scalar result"
        if len(res) != 1:
            return "missing scalar result"
        exp = {"maxabs": max(abs(v) for v in flat), "minabs": min(abs(v) for v in flat),
               "max": max(flat), "min": min(flat)}[p["sub"]]
        if res[0] != exp:
            return "%s of the flattened sparse vector is %s, got %s" % (p["sub"], exp, res[0])
        return None

    pat, classes, datas = p["pat"], p["classes"], p["datas"]
    if len(objs) != len(classes):
        return "wrong number of operand states"

    def opnd(i):
        return datas[classes.index(pat[i])]

    leaves, _ = shape_leaves(p["shape"])
    nleaves = len(leaves)
    a = p["scal"][0] if p["scal"] else Fraction(0)
    expect = {ch: list(d) for ch, d in zip(classes, datas)}
    exp_res = None        # exact expected scalars
    x0 = opnd(0)
    n = len(x0)
    if op == "axpy":
        expect[pat[0]] = [x0[i] + a * opnd(1)[i] for i in range(n)]
    elif op == "scale":
        expect[pat[0]] = [a * opnd(1)[i] for i in range(n)]
    elif op == "cinv":
        expect[pat[0]] = [a / opnd(1)[i] for i in range(n)]
    elif op == "cprod":
        expect[pat[0]] = [opnd(1)[i] * opnd(2)[i] for i in range(n)]
    elif op == "copy":
        expect[pat[0]] = list(opnd(1))
    elif op == "format":
        expect[pat[0]] = [a] * n
    elif op == "dot":
        exp_res = [sum((x0[i] * opnd(1)[i] for i in range(n)), Fraction(0))]
    elif op == "tdot":
        exp_res = [sum((x0[i] * opnd(1)[i] * opnd(2)[i] for i in range(n)), Fraction(0))]
    elif op in ("norm2", "norm2sqr"):
        s = sum((v * v for v in x0), Fraction(0))
        if len(res) != 1:
            return "missing scalar result"
        ok = sqrt_ok(res[0], s, nleaves) if op == "norm2" else sqr_ok(res[0], s, nleaves)
        if not ok:
            return "%s = %s is not the (rounded) value for sum of squares %s" % (op, res[0], s)
    elif op == "maxabs":
        exp_res = [max(abs(v) for v in x0)]
    elif op == "minabs":
        exp_res = [min(abs(v) for v in x0)]
    elif op == "max":
        exp_res = [max(x0)]
    elif op == "min":
        exp_res = [min(x0)]
    elif op == "flatcopy":
        expect[pat[1]] = list(x0)                    # flat <- composed
    elif op == "flatcopyinv":
        expect[pat[0]] = list(opnd(1))               # composed <- flat
    elif op == "flatconvert":
        exp_res = list(x0)
    elif op == "flatrt":
        exp_res = list(x0)                           # a -> flat -> b
        expect[pat[1]] = list(x0)
    elif op == "flatrtinv":
        exp_res = list(opnd(1))                      # flat -> a -> flat2
        expect[pat[0]] = list(opnd(1))
    elif op == "denseblocked":
        b = int(p["shape"].split()[1])
        exp_res = list(x0) * 4 + [Fraction(n), Fraction(n // b)]
    elif op in BLK_OPS:
        b = int(p["shape"].split()[1])
        col = lambda v, j: v[j::b]
        if op == "axpyb":
            expect[pat[0]] = [x0[i] + p["scal"][i % b] * opnd(1)[i] for i in range(n)]
        elif op == "scaleb":
            expect[pat[0]] = [p["scal"][i % b] * opnd(1)[i] for i in range(n)]
        elif op == "dotb":
            exp_res = [sum((u * v for u, v in zip(col(x0, j), col(opnd(1), j))), Fraction(0)) for j in range(b)]
        elif op == "tdotb":
            exp_res = [sum((u * v * w for u, v, w in zip(col(x0, j), col(opnd(1), j), col(opnd(2), j))), Fraction(0))
                       for j in range(b)]
        elif op in ("norm2b", "norm2sqrb"):
            if len(res) != b:
                return "blocked norm has %d components, expected %d" % (len(res), b)
            for j in range(b):
                s = sum((v * v for v in col(x0, j)), Fraction(0))
                if op == "norm2sqrb" and res[j] != s:
                    return "norm2sqr_blocked[%d] = %s, expected %s" % (j, res[j], s)
                if op == "norm2b" and not sqrt_ok(res[j], s, 1):
                    return "norm2_blocked[%d] = %s is not the rounded root of %s" % (j, res[j], s)
        elif op == "maxabsb":
            exp_res = [max(abs(v) for v in col(x0, j)) for j in range(b)]
        elif op == "minabsb":
            exp_res = [min(abs(v) for v in col(x0, j)) for j in range(b)]
        elif op == "maxb":
            exp_res = [max(col(x0, j)) for j in range(b)]
        elif op == "minb":
            exp_res = [min(col(x0, j)) for j in range(b)]
        elif op == "ccopy":
            block = int(a)
            r = list(x0)
            for i, v in enumerate(opnd(1)):
                r[i * b + block] = v
            expect[pat[0]] = r
        elif op == "ccopyto":
            block = int(a)
            expect[pat[1]] = [x0[i * b + block] for i in range(len(opnd(1)))]
    else:
        return "oracle does not know op %s" % op
    if exp_res is not None and res != exp_res:
        return "%s returned %s, element-wise definition gives %s" % (op, [str(v) for v in res], [str(v) for v in exp_res])
    if exp_res is None and op not in ("norm2", "norm2sqr", "norm2b", "norm2sqrb") and res:
        return "unexpected scalar result"
    for ch, got in zip(classes, objs):
        if got != expect[ch]:
            k = next((i for i in range(min(len(got), len(expect[ch]))) if got[i] != expect[ch][i]), None)
            role = "result" if ch == pat[0] and op in MUT_OPS or op in ("axpyb", "scaleb", "ccopy") else "operand"
            if op in FLAT_OPS:
                role = "copied"
            if op == "ccopyto" and ch == pat[1]:
                role = "result"
            return "%s vector '%s' differs from the element-wise definition at flat index %s (got %s, expected %s)" % (
                role, ch, k, got[k] if k is not None else len(got), expect[ch][k] if k is not None else len(expect[ch]))
    return None


def nontrivial(case):
    try:
        p = parse_case(case)
    except Exception:
        return False
    if p["op"] == "svs":
        idx = [st[1] for st in p["steps"] if st[0] == "w"]
        return len(idx) >= 2 and (len(set(idx)) < len(idx) or idx != sorted(idx))
    if p["op"] in ("sv", "svb"):
        idx = [w[0] for w in p["writes"]]
        return len(idx) >= 2 and (len(set(idx)) < len(idx) or idx != sorted(idx))
    total = pod_len(p["shape"], p["sizes"])
    leaves, _ = shape_leaves(p["shape"])
    alias = len(set(p["pat"])) < len(p["pat"])
    block = any(b > 1 for k, b in leaves if k == "B")
    return total >= 2 and (alias or block or shape_depth(p["shape"]) >= 2)


def describe(case):
    t = case.split()
    keys = ["op:" + t[0]]
    try:
        p = parse_case(case)
    except Exception:
        return keys
    keys.append("class:" + classify(case))
    if p["op"] == "svs":
        nwr = sum(1 for st in p["steps"] if st[0] == "w")
        keys.append("sparse-script:" + ("realloc" if nwr > min(p["size"], 1000) else "no-realloc"))
        if p["size"] > 1000:
            keys.append("sparse-script:size>1000")
        return keys
    if p["op"] in ("sv", "svb"):
        keys.append("sparse:" + p["sub"])
        if len(p["writes"]) > min(p["size"], 1000):
            keys.append("sparse:realloc")
        return keys
    keys.append("alias:" + p["pat"] + ("/clone" if p["cl"] and len(set(p["pat"])) < len(p["pat"]) else ""))
    keys.append("shape:" + p["shape"])
    total = pod_len(p["shape"], p["sizes"])
    keys.append("size:" + (str(total) if total <= 5 else "6-16" if total <= 16 else "17-40" if total <= 40 else ">40"))
    if total % 4:
        keys.append("size%4!=0")
    return keys


def signature(case, out, why):
    kind = classify(case)
    t = case.split()
    if kind == "probe2":
        return "minmax-empty-component"
    return "%s:%s" % (t[0], (why or "")[:40])


def canon(out):
    if out.startswith("ABORT"):
        return "ABORT"
    if out == "SIGNAL:11" or (out.startswith("EXC:") and "out_of_range" in out):
        return "UNDEF"      # null / out-of-range array access: the model says "no defined result"
    return out


def model_filter(case):
    # the model is compared on every input: it says UNDEF where the code reads a null / out-of-range array
    # (min/max on an empty (sub-)vector) and is the code *as it is* for the sparse min/max members (the difference
    # to their specification by C04.sparse_extreme_eq_dense)
    return True


def main(argv):
    args = vlib.std_args(argv)
    t0 = time.time()
    rng = random.Random(args.seed * 1000003 + 4)
    lean = None if args.no_lean else vlib.lean_check(PROP, leanchecker=(args.tier == "thorough"))
    binary, err = vlib.build_harness("c04", os.path.join(vlib.VERIF, "harness", "c04", "main.cpp"))
    if binary is None:
        v = [{"property": PROP, "kind": "harness-build-failure", "detail": err, "failing_input": None,
              "broken": "harness c04 does not compile against the current tree"}]
        return vlib.finish(PROP, args.tier, args.seed, t0, lean, [], [], v, [])
    have = set(vlib.sh([binary, "--shapes"]).stdout.split("\n"))
    missing = [s for s in SHAPES if s not in have]
    if missing:
        v = [{"property": PROP, "kind": "harness-build-failure", "detail": "shapes not instantiated: %s" % missing,
              "failing_input": None, "broken": "harness c04 lacks vector types the generator uses"}]
        return vlib.finish(PROP, args.tier, args.seed, t0, lean, [], [], v, [])
    # the inputs that reproduce the recorded FEAT defects run only when asked for, or when they are listed as
    # open entries of KNOWN_FINDINGS.json (then they are reported as KNOWN-FINDING and do not fail the run)
    probes = os.environ.get("VERIF_C04_PROBES") == "1" or bool(vlib.load_known(PROP))
    if args.replay:
        cases = [json.load(open(args.replay))["input"]]
    else:
        corpus = list(CORPUS)
        cdir = os.path.join(vlib.CORPUS, "c04")
        if os.path.isdir(cdir):
            for f in sorted(os.listdir(cdir)):
                corpus += [l.strip() for l in open(os.path.join(cdir, f)) if l.strip() and not l.startswith("#")]
        if probes:
            corpus += PROBE_CORPUS
        cases = corpus + gen_cases(rng, 20000 if args.tier == "quick" else 400000, probes)
    st = vlib.Stream("vector-ops", cases, [binary], vlib.driver_cmd(PROP), oracle=oracle, nontrivial=nontrivial,
                     describe=describe, signature=signature, canon=canon, model_filter=model_filter)
    stats_rule = ("23 container types (DenseVector, DenseVectorBlocked<1..4>, 18 Tuple/PowerVector nestings up to "
                  "depth 3 with blocked components in first, middle and last position); flat<->composed copies "
                  "(copy/copy_inv/convert and both round trips) and dense<->blocked conversion on every shape, leaf sizes {0,1,2,3,4,5,7,8,9,31,32,33}, every aliasing pattern of 2- and 3-operand "
                  "members realised both as the same object and as shallow clones, values: zeros, ties, signed "
                  "rationals, magnitudes 2^-40..2^40; blocked-only members and component copies; sparse vectors "
                  "through element access; non-trivial = flat size >= 2 and (aliased operands or block size > 1 or "
                  "nesting depth >= 2), sparse: duplicate or unsorted writes")
    streams = [st]
    if not args.replay:
        brng = random.Random(args.seed * 7919 + 404)
        streams.append(vlib.Stream("boundary-sizes", gen_boundary(brng, args.tier), [binary], vlib.driver_cmd(PROP),
                                   oracle=oracle, nontrivial=lambda c: True, describe=describe_boundary,
                                   signature=signature, canon=canon, model_filter=model_filter))
    rc = vlib.run_pipeline(PROP, args.tier, args.seed, lean, streams, t0, assumptions=[
        "numerics at the exact rational type Q (rounding of float/double is out of scope of the exact comparison)",
        "Math::sqrt(Q) is the deterministic truncated square root of harness/common/exact_q.hpp; the oracle accepts "
        "norms within that truncation (2^-40 per root)",
        "division by zero in component_invert is outside the property (Q aborts, IEEE types give inf)",
        "min/max element members are not defined on an empty vector",
        "Index / IT_ / int block arguments are unbounded Nat in the model; the boundary-sizes stream (pod sizes 127..1001, "
        "thorough 32767..65537; 999..3001 sparse writes across the 1000-slot allocation steps; uint32 index type) is what "
        "ties the size-dependent C++ paths"],
        extra_cov={"rule": stats_rule, "defect_probes_enabled": probes})
    return rc
