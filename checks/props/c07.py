"""C07 - iterative solvers report their status truthfully and converge to the solution.

Two correspondence streams (see harness/c07/main.cpp and lean/FeatModel/Driver/C07.lean):
  control : the stopping-criterion state machine of IterativeSolver at double, fed with dyadic / non-finite defects
  solvers : sessions of apply()/correct() calls on one real PCG / Richardson / PCR / PMR / PCGNR / BiCGStab / Chebyshev / RGCR object at the exact scalar Q
The oracle below is independent Python (fractions): it recomputes the true residual ||F(b - A x)|| from the returned
iterate, a dense reference solution, and judges the reported status against the configured limits and the defects
the solver produced.

Findings (standard mechanism: executed and judged on every run, matched against KNOWN_FINDINGS.json by signature):
  c07-edge:F7  (double-precision stream) FGMRES divides by the norm of the new Arnoldi vector without a happy-breakdown
               test: on a system whose Krylov space is smaller than krylov_dim (e.g. the identity) it returns 'aborted'
               with a NaN iterate
  (F-C07-8 IDRS kept _shadow_space_setup over done_symbolic(); F-C07-9 RGCR recycled its direction lists across
  done_numeric()/init_numeric() with new matrix values ('success' with residual 30); F-C07-10 BiCGStabL did not clear its
  direction vectors (NaN of an earlier solve survived); F-C07-11 BiCGStabL returned Status::undefined on an already
  converged initial defect — all four found by the life-cycle stream and fixed in /repo (685d21123, 34b320bb6,
  ab5d9bae1, 624f5fec9); their inputs stay in the life-cycle corpus as regression lines under the strict oracle.)
  (F-C07-3, 'success' judged from the stale initial defect when the defect computation is skipped (default
  skip_defect_calc, min_iter >= max_iter), is fixed in /repo (8aa081eb5): such a run now returns max_iter; its input
  stays in the corpus as a regression line.)
  (F-C07-6, BiCGStab applying the preconditioner before _set_initial_defect so that an early 'aborted' kept the previous
  solve's counters, is fixed in /repo (3d5803c40); its input stays in the corpus as a regression line.)
  (F-C07-2, BiCGStab's half-step test returning 'success' before min_iter iterations, is fixed in /repo (784169477);
  its input stays in the corpus as a regression line.)
  (F-C07-1, BiCGStab returning Status::undefined on an already converged initial defect, is fixed in /repo; its input
  stays in the corpus and must now give success with 0 iterations.)
Documented observations that are *outside* the property and therefore accepted by the oracle:
  F-C07-4  PCG/PCR keep iterating while num_iter < min_iter even when the defect is exactly 0; the next step is 0/0
           (division-by-zero abort of the exact scalar, NaN -> 'aborted' with a NaN iterate at floating point; the
           double-precision stream hits this on 2x2/3x3 systems, e.g.
           solved pcg 2 2 -1 -1 2 none none 1/1000000 1000000000 1/1000000000 1000000000 1000000000000 19/20 2 60 0 1 1 1 c 0 0 1 1 0).  The property speaks about
           runs that return a status for systems "within each method's scope"; an exactly zero residual before min_iter
           is a degenerate Krylov space (breakdown), which only the exact scalar hits; counted as
           input class 'breakdown-forced-by-min-iter'.
  F-C07-5  _set_initial_defect returns success for def_init < tol_abs_low without testing tol_abs.  This differs from
           is_converged only for the contradictory setting tol_abs_low > tol_abs, for which the property's "configured
           relative/absolute tolerances" has no consistent reading; modelled as it is (theorem C07.success_initial).
"""
import json
import math
import os
import random
import sys
import time
from fractions import Fraction as Fr

import vlib

PROP = "C07"
if hasattr(sys, "set_int_max_str_digits"):
    sys.set_int_max_str_digits(0)

ST_NAMES = {0: "undefined", 1: "progress", 2: "success", 3: "aborted", 4: "diverged", 5: "max_iter", 6: "stagnated"}
EPS2 = Fr(1, 2 ** 104)  # sqr(eps) for double and for Q
SENTINEL = Fr(7777)       # the mock preconditioner rejects a defect whose first entry is this value
HALF_STEP_KINDS = ("bicgstab", "rbicgstab")
OVERSIZE = 3000000       # characters of one implementation output line (largest seen on the unchanged tree: 2.5e6)

# measured while the oracle runs; written into the evidence file
STATS = {"terminal_status": {}, "input_classes": {}, "max_iters_seen": 0, "exact_reference_hits": 0,
         "true_residual_checks": 0, "pair_checks": 0,
         "half_step_exits_checked": 0, "criteria": {}}


def bump(d, k, n=1):
    d[k] = d.get(k, 0) + n


def fs(x):
    return vlib.frac_str(Fr(x))


def qsqrt(x):
    """the deterministic rational square root of harness/common/exact_q.hpp"""
    x = Fr(x)
    n, d = x.numerator, x.denominator
    return Fr(math.isqrt(n * d * 2 ** 80), d * 2 ** 40)


# ---------------------------------------------------------------------------------------------
# the documented stopping rule, written down independently (used by both oracles)
# ---------------------------------------------------------------------------------------------

class Cfg:
    def __init__(self, tol_rel, tol_abs, tol_abs_low, div_rel, div_abs, stag_rate, min_iter, max_iter, min_stag, skip,
                 plot_mode=0, plot_int=1):
        self.tol_rel, self.tol_abs, self.tol_abs_low = tol_rel, tol_abs, tol_abs_low
        self.div_rel, self.div_abs, self.stag_rate = div_rel, div_abs, stag_rate
        self.min_iter, self.max_iter, self.min_stag, self.skip = min_iter, max_iter, min_stag, skip
        self.plot_mode, self.plot_int = plot_mode, plot_int

    def tokens(self, with_plot):
        t = [fs(self.tol_rel), fs(self.tol_abs), fs(self.tol_abs_low), fs(self.div_rel), fs(self.div_abs),
             fs(self.stag_rate), str(self.min_iter), str(self.max_iter), str(self.min_stag), str(int(self.skip))]
        if with_plot:
            t += [str(self.plot_mode), str(self.plot_int)]
        return t

    def computes_defect(self, k):
        """is the defect of iteration k (>= 1) computed at all?  (documented skip_defect_calc optimisation)"""
        plots = self.plot_mode in (1, 3) and k % self.plot_int == 0
        return (not self.skip) or self.min_iter < self.max_iter or plots or self.min_stag > 0

    def converged(self, d, d0):
        return d <= self.tol_abs and (d <= self.tol_rel * d0 or d <= self.tol_abs_low)

    def diverged(self, d, d0):
        return d > self.div_abs or d > self.div_rel * d0


def judge_run(cfg, defects, statuses, exhausted_ok=True, computed=None):
    """defects: list of Fraction | None (None = non-finite), the value the solver *saw* in iteration k (k = 0 initial);
    statuses: reported status codes, one per consumed defect.  Returns None or a reason string."""
    if not statuses:
        return "no status reported"
    n = len(statuses)
    if n > len(defects):
        return "more statuses than defects"
    d0 = defects[0]
    stag = 0
    for k in range(n):
        st = statuses[k]
        d = defects[k]
        last = (k == n - 1)
        if st in (0,):
            return "status 'undefined' reported at iteration %d" % k
        if not last and st != 1:
            return "iteration continued after terminal status %s at iteration %d" % (ST_NAMES.get(st), k)
        if k == 0:
            if d is None:
                exp = 3
            elif d < cfg.tol_abs_low or d <= EPS2:
                exp = 2
            else:
                exp = 1
        else:
            if d is None:
                exp = 3
            elif cfg.diverged(d, d0):
                exp = 4
            elif k < cfg.min_iter:
                exp = 1
            elif cfg.converged(d, d0):
                # a 'success' must rest on a defect computed in this iteration; a converged-looking stale defect
                # (skip_defect_calc with min_iter >= max_iter) is reported as max_iter (fix of finding c07-edge:F3)
                exp = 2 if (computed is None or computed(k)) else 5
            elif k >= cfg.max_iter:
                exp = 5
            else:
                exp = 1
                if cfg.min_stag > 0:
                    if d >= cfg.stag_rate * defects[k - 1]:
                        stag += 1
                        if stag >= cfg.min_stag:
                            exp = 6
                    else:
                        stag = 0
        if st != exp:
            return "iteration %d: reported %s, the configured limits and the defects produced say %s" % (
                k, ST_NAMES.get(st, st), ST_NAMES[exp])
    if statuses[-1] == 1 and not exhausted_ok:
        return "solver returned while still in progress"
    return None


def stag_count(cfg, defects, n):
    stag = 0
    d0 = defects[0]
    for k in range(1, n):
        d = defects[k]
        if d is None or cfg.diverged(d, d0) or k < cfg.min_iter or cfg.converged(d, d0) or k >= cfg.max_iter:
            continue
        if cfg.min_stag > 0:
            stag = stag + 1 if d >= cfg.stag_rate * defects[k - 1] else 0
    return stag


# ---------------------------------------------------------------------------------------------
# stream 1: control
# ---------------------------------------------------------------------------------------------

def dy(rng, bits=8, lo=-8, hi=6):
    return Fr(rng.randrange(1, 2 ** bits)) * Fr(2) ** rng.randrange(lo, hi)


def gen_cfg_ctl(rng):
    return Cfg(
        tol_rel=rng.choice([Fr(0), Fr(1, 1024), Fr(1, 16), Fr(1, 4), Fr(1, 2), Fr(1), Fr(2), Fr(3, 8)]),
        tol_abs=rng.choice([Fr(1, 64), Fr(1), Fr(16), Fr(1024), Fr(2 ** 20), Fr(2 ** 20), Fr(2 ** 20)]),
        tol_abs_low=rng.choice([Fr(0), Fr(0), Fr(1, 256), Fr(1, 8), Fr(1), Fr(4)]),
        div_rel=rng.choice([Fr(1, 2), Fr(1), Fr(4), Fr(64), Fr(2 ** 20), Fr(2 ** 20)]),
        div_abs=rng.choice([Fr(1), Fr(64), Fr(2 ** 12), Fr(2 ** 30), Fr(2 ** 30)]),
        stag_rate=rng.choice([Fr(1, 2), Fr(3, 4), Fr(15, 16), Fr(1), Fr(5, 4)]),
        min_iter=rng.choice([0, 0, 0, 1, 2, 3, 5]),
        max_iter=rng.choice([0, 1, 2, 3, 4, 6, 8, 12]),
        min_stag=rng.choice([0, 0, 1, 2, 3]),
        skip=rng.random() < 0.6,
        plot_mode=rng.choice([0, 0, 0, 1, 2, 3]),
        plot_int=rng.choice([1, 1, 2, 3]))


def gen_ctl(rng):
    cfg = gen_cfg_ctl(rng)
    n = rng.choice([1, 2, 3, 4, 6, 8, 10, 14])
    r = rng.random()
    if r < 0.04:
        d0 = rng.choice([Fr(0), EPS2, EPS2 / 2, EPS2 * 2, cfg.tol_abs_low, cfg.tol_abs_low / 2])
    else:
        d0 = dy(rng)
    ds = [d0]
    trend = rng.choice(["down", "down", "slow", "flat", "up", "random", "mixed"])
    for k in range(1, n):
        prev = ds[-1] if ds[-1] is not None else Fr(1)
        u = rng.random()
        if u < 0.04:
            ds.append(None)
            continue
        if u < 0.30:
            # exactly on a threshold (or one dyadic step off)
            thr = rng.choice([cfg.tol_rel * d0, cfg.tol_abs, cfg.tol_abs_low, cfg.stag_rate * prev, cfg.div_rel * d0,
                              cfg.div_abs, prev])
            eps = rng.choice([Fr(0), Fr(0), Fr(1, 2 ** 12), Fr(-1, 2 ** 12)])
            v = thr + eps
            if v < 0:
                v = Fr(0)
            if v.numerator.bit_length() > 30 or v.denominator.bit_length() > 45:
                v = dy(rng)
            ds.append(v)
            continue
        t = trend if trend != "mixed" else rng.choice(["down", "slow", "flat", "up", "random"])
        if t == "down":
            v = prev * rng.choice([Fr(1, 2), Fr(1, 4), Fr(1, 8), Fr(3, 4)])
        elif t == "slow":
            v = prev * rng.choice([Fr(15, 16), Fr(31, 32), Fr(7, 8), Fr(1)])
        elif t == "flat":
            v = prev
        elif t == "up":
            v = prev * rng.choice([Fr(2), Fr(4), Fr(3, 2), Fr(16)])
        else:
            v = dy(rng)
        # keep the numbers exactly representable and their products with the config values exact in double
        if v.numerator.bit_length() > 24 or v.denominator.bit_length() > 40:
            v = dy(rng)
        ds.append(v)
    toks = ["ctl", str(rng.randrange(2))] + cfg.tokens(True) + [str(len(ds))]
    for d in ds:
        toks.append(rng.choice(["nan", "inf"]) if d is None else fs(d))
    return " ".join(toks)


def parse_ctl(case):
    t = case.split()
    variant = int(t[1])
    f = [vlib.parse_frac(x) for x in t[2:8]]
    cfg = Cfg(f[0], f[1], f[2], f[3], f[4], f[5], int(t[8]), int(t[9]), int(t[10]), t[11] != "0", int(t[12]), int(t[13]))
    n = int(t[14])
    ds = [None if x in ("nan", "inf") else vlib.parse_frac(x) for x in t[15:15 + n]]
    return variant, cfg, ds


def pdef(s):
    return None if s == "nonfinite" else vlib.parse_frac(s)


def oracle_ctl(case, out):
    variant, cfg, ds = parse_ctl(case)
    if is_abnormal(out):
        return "convergence control ended with " + out
    t = out.split()
    if t[0] != "S":
        return "unparsable output"
    ns = int(t[1])
    sts = [int(x) for x in t[2:2 + ns]]
    num_iter, num_stag = int(t[2 + ns]), int(t[3 + ns])
    d_init, d_cur, d_prev = pdef(t[4 + ns]), pdef(t[5 + ns]), pdef(t[6 + ns])
    # the defects the solver saw: `_update_defect` always takes the value, `_set_new_defect` may skip the computation
    seen = [ds[0]]
    for k in range(1, len(ds)):
        if variant == 1 or cfg.computes_defect(k):
            seen.append(ds[k])
        else:
            seen.append(seen[-1])
    why = judge_run(cfg, seen, sts, computed=(lambda k: variant == 1 or cfg.computes_defect(k)))
    if why:
        return why
    # all defects are consumed unless a terminal status was reached
    if sts[-1] == 1 and ns != len(ds):
        return "stopped consuming defects while in progress"
    if num_iter != ns - 1:
        return "iteration count %d after %d defects" % (num_iter, ns)
    if d_init != seen[0]:
        return "initial defect not stored"
    if d_cur != seen[ns - 1]:
        return "final defect %s, the solver saw %s" % (d_cur, seen[ns - 1])
    if ns >= 2 and d_prev != seen[ns - 2]:
        return "previous defect %s, expected %s" % (d_prev, seen[ns - 2])
    if all(x is not None for x in seen[:ns]) and num_stag != stag_count(cfg, seen, ns):
        return "stagnation counter %d, expected %d" % (num_stag, stag_count(cfg, seen, ns))
    bump(STATS["terminal_status"], "ctl:" + ST_NAMES[sts[-1]])
    return None


# ---------------------------------------------------------------------------------------------
# stream 2: solver sessions
# ---------------------------------------------------------------------------------------------

def mat_vec(a, x):
    return [sum((a[i][j] * x[j] for j in range(len(x))), Fr(0)) for i in range(len(a))]


def solve_dense(a, b):
    """Gaussian elimination in Fractions; returns None if singular"""
    n = len(a)
    m = [list(a[i]) + [b[i]] for i in range(n)]
    for c in range(n):
        p = next((r for r in range(c, n) if m[r][c] != 0), None)
        if p is None:
            return None
        m[c], m[p] = m[p], m[c]
        for r in range(n):
            if r != c and m[r][c] != 0:
                f = m[r][c] / m[c][c]
                m[r] = [m[r][j] - f * m[c][j] for j in range(n + 1)]
    return [m[i][n] / m[i][i] for i in range(n)]


def is_spd(a):
    n = len(a)
    if any(a[i][j] != a[j][i] for i in range(n) for j in range(n)):
        return False
    # Sylvester via elimination without pivoting
    m = [list(r) for r in a]
    for c in range(n):
        if m[c][c] <= 0:
            return False
        for r in range(c + 1, n):
            f = m[r][c] / m[c][c]
            m[r] = [m[r][j] - f * m[c][j] for j in range(n)]
    return True


def small(rng, den=(1, 1, 2, 4)):
    return Fr(rng.randrange(-4, 5), rng.choice(den))


def gen_spd(rng, n):
    style = rng.choice(["btb", "lap", "diagdom"])
    if style == "lap":
        a = [[Fr(0)] * n for _ in range(n)]
        for i in range(n):
            a[i][i] = Fr(2) + Fr(rng.randrange(0, 3), 2)
            if i + 1 < n:
                a[i][i + 1] = a[i + 1][i] = Fr(-1)
        return a
    if style == "btb":
        b = [[small(rng, (1, 1, 2)) for _ in range(n)] for _ in range(n)]
        a = [[sum(b[k][i] * b[k][j] for k in range(n)) for j in range(n)] for i in range(n)]
        for i in range(n):
            a[i][i] += Fr(rng.choice([1, 1, 2]), rng.choice([1, 2, 4]))
        return a
    a = [[Fr(0)] * n for _ in range(n)]
    for i in range(n):
        for j in range(i + 1, n):
            if rng.random() < 0.6:
                a[i][j] = a[j][i] = small(rng)
    for i in range(n):
        a[i][i] = sum(abs(a[i][j]) for j in range(n)) + Fr(rng.choice([1, 2, 3]), rng.choice([1, 2]))
    return a


def gen_nonsym(rng, n, dominant=True):
    a = [[small(rng) if rng.random() < 0.7 else Fr(0) for _ in range(n)] for _ in range(n)]
    for i in range(n):
        if dominant:
            a[i][i] = sum(abs(a[i][j]) for j in range(n) if j != i) + Fr(rng.choice([1, 2, 3]), rng.choice([1, 2]))
        elif a[i][i] == 0:
            a[i][i] = Fr(rng.choice([-3, -1, 1, 2]))
    return a


def power_steps(a, tol=1e-4):
    """floating-point rehearsal of Chebyshev::init_numeric's power method: number of steps until it stops"""
    n = len(a)
    v = [3.0] * n
    nv = math.sqrt(sum(x * x for x in v))
    v = [x / nv for x in v]
    old = 0.0
    for i in range(40):
        z = [sum(float(a[r][j]) * v[j] for j in range(n)) for r in range(n)]
        nz = math.sqrt(sum(x * x for x in z))
        if nz == 0.0:
            return 99
        v = [x / nz for x in z]
        lam = sum(x * y for x, y in zip(v, z))
        if lam == 0.0:
            return 99
        if abs((lam - old) / lam) < tol:
            return i + 1
        old = lam
    return 40


def gen_gap(rng, n):
    """SPD matrix D + t*w*w^T with one strongly dominant eigenvalue, so that the power method of Chebyshev stops after
    a few steps (the exact rationals double in length per normalisation)"""
    for _ in range(50):
        w = [Fr(rng.randrange(1, 4)) for _ in range(n)]
        t = Fr(rng.choice([20, 50, 100]))
        a = [[t * w[i] * w[j] for j in range(n)] for i in range(n)]
        for i in range(n):
            a[i][i] += Fr(rng.choice([1, 2, 3]), rng.choice([1, 2]))
        if power_steps(a) <= 3:
            return a
    return [[Fr(7) if i == j else Fr(0) for j in range(n)] for i in range(n)]


def fmt_vec(v):
    return " ".join(fs(x) for x in v)


def fmt_mat(a):
    return " ".join(fmt_vec(r) for r in a)


def gen_solve(rng, tier):
    kind = rng.choice(["pcg", "pcg", "pcg", "rich", "rich", "pcr", "pmr", "pcgnr", "bicgstab", "bicgstab", "cheb", "rgcr"])
    n = rng.choice([1, 2, 2, 3, 3, 4, 4, 5, 6] if tier == "quick" else [1, 2, 3, 3, 4, 4, 5, 5, 6, 7])
    tags = []
    # matrix class
    if kind == "rgcr":
        mc = rng.choice(["spd", "nonsym"])
        n = min(n, 3)
    elif kind == "cheb":
        mc = "gap"
        n = min(n, 5)
    elif kind == "pcgnr":
        mc = rng.choice(["spd", "nonsym", "nonsym", "indef"])
    elif kind in ("pcg", "pcr", "pmr"):
        mc = rng.choice(["spd", "spd", "spd", "spd", "nonsym", "indef"])
    elif kind == "rich":
        mc = rng.choice(["spd", "nonsym", "nonsym", "indef"])
    else:
        mc = rng.choice(["spd", "nonsym", "nonsym", "nonsym", "indef"])
    if mc == "gap":
        a = gen_gap(rng, n)
    elif mc == "spd":
        a = gen_spd(rng, n)
    elif mc == "nonsym":
        a = gen_nonsym(rng, n, True)
    else:
        a = gen_nonsym(rng, n, False)
        if all(x == 0 for r in a for x in r):
            a[0][0] = Fr(1)
    # filter
    fr_ = rng.random()
    if fr_ < 0.5 or n == 1:
        ftoks, cons = ["none"], []
    else:
        cons = sorted(rng.sample(range(n), rng.randrange(0, n)))
        if rng.random() < 0.3:
            rng.shuffle(cons)
        ftoks = ["unit", str(len(cons))] + [str(i) for i in cons]
    # preconditioner
    pr = rng.random()
    pclass = "none"
    if pr < 0.3 or kind == "cheb":
        ptoks = ["none"]
    elif pr < 0.55 and all(a[i][i] != 0 for i in range(n)):
        # one of FEAT's own preconditioners (property C08) with damping w
        fk = rng.choice(["jac", "sor", "ssor"])
        pclass = "feat-" + fk
        ptoks = [fk, fs(rng.choice([Fr(1), Fr(1), Fr(1, 2), Fr(3, 4), Fr(5, 4)]))]
    else:
        if pr < 0.65 and all(a[i][i] != 0 for i in range(n)):
            pclass = "jacobi"
            m = [[(1 / a[i][i] if i == j else Fr(0)) for j in range(n)] for i in range(n)]
        elif pr < 0.8:
            pclass = "spd"
            m = gen_spd(rng, n)
        elif pr < 0.9:
            pclass = "arbitrary"
            m = [[small(rng) for _ in range(n)] for _ in range(n)]
        else:
            pclass = "failing"
            m = [[(Fr(1) if i == j else Fr(0)) for j in range(n)] for i in range(n)]
        if cons and pclass != "arbitrary":
            # a preconditioner that respects the filter (rows/columns of constrained dofs cleared)
            for i in cons:
                for j in range(n):
                    m[i][j] = Fr(0)
                    m[j][i] = Fr(0)
        fail_at = rng.randrange(1, 6) if pclass == "failing" else 0
        ptoks = ["mat", fmt_mat(m), str(fail_at)]
    # configuration
    goal = rng.choice(["exact", "exact", "loose", "loose", "maxit", "stag", "div", "fixed", "any", "absbind", "lowesc"])
    cfg = Cfg(tol_rel=Fr(1, 10 ** rng.randrange(1, 7)), tol_abs=Fr(10 ** 9), tol_abs_low=Fr(0), div_rel=Fr(10 ** 9),
              div_abs=Fr(10 ** 12), stag_rate=Fr(19, 20), min_iter=0, max_iter=3 * n + 4, min_stag=0,
              skip=rng.random() < 0.7)
    if goal == "exact":
        cfg.tol_rel = Fr(0)
        cfg.max_iter = 2 * n + 3
    elif goal == "loose":
        cfg.tol_rel = rng.choice([Fr(1, 2), Fr(1, 10), Fr(1, 100)])
        cfg.tol_abs = rng.choice([Fr(10 ** 9), Fr(1), Fr(1, 10)])
        cfg.tol_abs_low = rng.choice([Fr(0), Fr(1, 100), Fr(1, 2)])
        cfg.min_iter = rng.choice([0, 0, 1, 2])
    elif goal == "maxit":
        cfg.tol_rel = Fr(1, 10 ** 12)
        cfg.max_iter = rng.randrange(0, 4)
        cfg.min_iter = rng.choice([0, 0, 1])
    elif goal == "stag":
        cfg.min_stag = rng.choice([1, 2, 3])
        cfg.stag_rate = rng.choice([Fr(1, 100), Fr(1, 4), Fr(1, 2), Fr(9, 10)])
        cfg.tol_rel = Fr(1, 10 ** 9)
    elif goal == "div":
        cfg.div_rel = rng.choice([Fr(1, 2), Fr(1), Fr(2), Fr(10)])
        cfg.div_abs = rng.choice([Fr(10 ** 12), Fr(5), Fr(1)])
        cfg.tol_rel = Fr(1, 10 ** 6)
    elif goal == "fixed":
        # fixed number of iterations (smoother use): min_iter >= max_iter, the defect computation may be skipped
        cfg.max_iter = rng.randrange(1, 4)
        cfg.min_iter = cfg.max_iter + rng.choice([0, 0, 1])
        cfg.skip = rng.random() < 0.8
        cfg.tol_rel = rng.choice([Fr(1, 10 ** 6), Fr(1, 2), Fr(1), Fr(2)])
    else:
        cfg.tol_rel = rng.choice([Fr(0), Fr(1, 1000), Fr(1, 2), Fr(1)])
        cfg.tol_abs = rng.choice([Fr(10 ** 9), Fr(1, 2)])
        cfg.tol_abs_low = rng.choice([Fr(0), Fr(1, 10)])
        cfg.div_rel = rng.choice([Fr(10 ** 9), Fr(3)])
        cfg.min_iter = rng.randrange(0, 3)
        cfg.max_iter = rng.randrange(0, 2 * n + 3)
        cfg.min_stag = rng.choice([0, 0, 1, 2])
        cfg.stag_rate = rng.choice([Fr(1, 2), Fr(19, 20)])
    if kind != "rich":
        # exact rationals roughly double in length per Krylov iteration once the method leaves its scope
        if kind == "rgcr":
            cap = 3  # every new direction is normalised with the truncated square root: the rationals double in length
        elif kind == "cheb":
            cap = 6
        elif kind in ("bicgstab", "rbicgstab"):
            cap = 6
        elif kind == "pcgnr":
            cap = 6 if pclass == "none" else 3  # the normal equations square the size of the rationals
        elif kind == "pmr":
            cap = 5  # no finite termination: the rationals double per iteration
        elif mc == "spd" and pclass in ("none", "jacobi", "spd", "feat-jac", "feat-ssor"):
            cap = 9 if tier == "quick" else 10
        else:
            cap = 5
        cfg.max_iter = min(cfg.max_iter, cap)
        cfg.min_iter = min(cfg.min_iter, cap)
    # Richardson damping
    if kind == "rich":
        rowsum = max(sum(abs(x) for x in r) for r in a)
        if pclass == "jacobi":
            omega = rng.choice([Fr(1), Fr(1, 2), Fr(3, 4), Fr(3)])
        else:
            omega = rng.choice([1 / rowsum, 1 / (2 * rowsum), Fr(1), Fr(2)])
        if goal == "exact":
            cfg.tol_rel = Fr(1, 10 ** rng.randrange(2, 5))
            cfg.max_iter = rng.choice([20, 40])
    elif kind == "cheb":
        omega = rng.choice([Fr(3, 4), Fr(1), Fr(9, 8)])  # fraction_max_ev
    else:
        omega = Fr(1)
    # the solves of the session
    ns = rng.choice([1, 2, 2, 3, 4])
    solves = []

    def rvec():
        return [small(rng, (1, 1, 2, 3)) for _ in range(n)]

    def filt(v):
        return [Fr(0) if i in cons else v[i] for i in range(n)]

    for k in range(ns):
        u = rng.random()
        if solves and u < 0.45:
            # a partner of an earlier solve: same mode and rhs; apply gets a different start vector
            mode, x0, b, _ = solves[rng.randrange(len(solves))]
            if mode == "a":
                x0 = rvec()
        else:
            mode = rng.choice(["a", "c", "c"])
            b = rvec()
            if rng.random() < 0.05:
                b = [Fr(0)] * n
            if mode == "a":
                b = filt(b)  # apply() takes a (filtered) defect vector
                x0 = rvec() if rng.random() < 0.7 else [Fr(0)] * n
            else:
                x0 = rvec() if rng.random() < 0.7 else [Fr(0)] * n
                if rng.random() < 0.06:
                    # start from the exact solution of the filtered system
                    xs = ref_solution(a, cons, x0, b)
                    if xs is not None:
                        x0 = xs
        solves.append((mode, x0, b, rng.choice([0, 0, 0, 1, 2])))
    if goal in ("absbind", "lowesc"):
        # tolerances relative to the first solve's initial defect d0:
        #   absbind: tol_abs < tol_rel*d0, so the ABSOLUTE tolerance is the binding one;
        #   lowesc : the relative criterion is out of reach, success only through the tol_abs_low escape
        mode0, x00, b0, _ = solves[0]
        if mode0 == "a":
            r0 = b0
        else:
            ax = mat_vec(a, x00)
            r0 = [Fr(0) if i in cons else b0[i] - ax[i] for i in range(n)]
        d0 = norm2(r0)
        if d0 > 0:
            if goal == "absbind":
                cfg.tol_rel = Fr(1, 2)
                cfg.tol_abs = d0 * rng.choice([Fr(1, 10), Fr(1, 100), Fr(1, 1000)])
                cfg.tol_abs_low = Fr(0)
            else:
                cfg.tol_rel = Fr(1, 10 ** 12)
                cfg.tol_abs = Fr(10 ** 9)
                cfg.tol_abs_low = d0 * rng.choice([Fr(1, 4), Fr(1, 20), Fr(1, 200)])
            cfg.min_iter = rng.choice([0, 0, 1])
    toks = ["solve", kind, str(n), fmt_mat(a)] + ftoks + ptoks + cfg.tokens(False) + [fs(omega), str(ns)]
    for mode, x0, b, re in solves:
        toks += [mode, fmt_vec(x0), fmt_vec(b), str(re)]
    return " ".join(toks)


def ref_solution(a, cons, x0, b):
    """dense reference: free dofs solve A_ff x_f = b_f - A_fc x0_c, constrained dofs keep the start value"""
    n = len(a)
    free = [i for i in range(n) if i not in cons]
    if not free:
        return list(x0)
    aff = [[a[i][j] for j in free] for i in free]
    rhs = [b[i] - sum(a[i][j] * x0[j] for j in cons) for i in free]
    xf = solve_dense(aff, rhs)
    if xf is None:
        return None
    x = list(x0)
    for k, i in enumerate(free):
        x[i] = xf[k]
    return x


class SolveCase:
    def __init__(self, case):
        t = case.split()
        p = [1]

        def tok():
            p[0] += 1
            return t[p[0] - 1]

        def frs(k):
            return [vlib.parse_frac(tok()) for _ in range(k)]

        self.kind = tok()
        n = self.n = int(tok())
        self.a = [frs(n) for _ in range(n)]
        self.filter = tok()
        self.cons = []
        if self.filter == "unit":
            m = int(tok())
            self.cons = [int(tok()) for _ in range(m)]
        self.pk = tok()
        self.m, self.fail_at, self.fpre = None, 0, None
        if self.pk in ("jac", "sor", "ssor"):
            self.fpre = (self.pk, vlib.parse_frac(tok()))
        if self.pk == "mat":
            self.m = [frs(n) for _ in range(n)]
            self.fail_at = int(tok())
        f = frs(6)
        self.cfg = Cfg(f[0], f[1], f[2], f[3], f[4], f[5], int(tok()), int(tok()), int(tok()), tok() != "0")
        self.omega = vlib.parse_frac(tok())
        ns = int(tok())
        self.solves = []
        for _ in range(ns):
            mode = tok()
            x0 = frs(n)
            b = frs(n)
            re = int(tok())
            self.solves.append((mode, x0, b, re))

    def filt(self, v):
        return [Fr(0) if i in self.cons else v[i] for i in range(self.n)]

    def resid(self, b, x):
        ax = mat_vec(self.a, x)
        return self.filt([b[i] - ax[i] for i in range(self.n)])


def norm2(v):
    return qsqrt(sum((x * x for x in v), Fr(0)))


def parse_solve_out(out, n):
    res = []
    for part in out.split(" | "):
        t = part.split()
        if t[0] != "R":
            raise ValueError("no R record")
        st, it = int(t[1]), int(t[2])
        d0, d1 = vlib.parse_frac(t[3]), vlib.parse_frac(t[4])
        nn = int(t[5])
        x = [vlib.parse_frac(z) for z in t[6:6 + nn]]
        rhs_ok = t[6 + nn] == "1"
        st_member = int(t[7 + nn])
        if t[8 + nn] != "H":
            raise ValueError("no H record")
        nh = int(t[9 + nn])
        hist = [vlib.parse_frac(z) for z in t[10 + nn:10 + nn + nh]]
        if nn != n or len(x) != n or len(hist) != nh:
            raise ValueError("length mismatch")
        res.append({"status": st, "iters": it, "d0": d0, "d1": d1, "x": x, "rhs_ok": rhs_ok, "member": st_member,
                    "hist": hist, "raw": part})
    return res


def is_abnormal(out):
    return out.split(":")[0] in ("ABORT", "EXC", "TIMEOUT", "SIGNAL", "SANITIZER", "EXIT") or out in ("HANG", "BAD-OP", "")


def in_scope(sc):
    """is the session within the method's scope, so that breakdown must not happen and the iteration converges?"""
    free = [i for i in range(sc.n) if i not in sc.cons]
    if not free:
        return False
    aff = [[sc.a[i][j] for j in free] for i in free]
    if sc.kind == "pcgnr":
        # CG on the normal equations: any nonsingular matrix (unfiltered, unpreconditioned here)
        return not sc.cons and sc.m is None and sc.fpre is None and solve_dense(sc.a, [Fr(0)] * sc.n) is not None
    if sc.kind in ("pcg", "pcr", "pmr"):
        if not is_spd(aff):
            return False
        if sc.fpre is not None:
            # Jacobi and SSOR (0 < w < 2) of an SPD matrix are SPD, also after the correction filter; SOR is not symmetric
            return sc.fpre[0] in ("jac", "ssor") and 0 < sc.fpre[1] < 2 and is_spd(sc.a)
        if sc.m is not None:
            if sc.fail_at:
                return False
            # the preconditioner must be SPD on the free dofs and must not leave them
            if any(sc.m[i][j] != 0 for i in sc.cons for j in range(sc.n)):
                return False
            if any(sc.m[j][i] != 0 for i in sc.cons for j in range(sc.n)):
                return False
            mff = [[sc.m[i][j] for j in free] for i in free]
            if not is_spd(mff):
                return False
        return True
    return False


def oracle_solve(case, out):
    sc = SolveCase(case)
    cfg = sc.cfg
    scope = in_scope(sc)
    if is_abnormal(out):
        if out.startswith("ABORT") and not scope:
            # breakdown (division by zero of the exact scalar; NaN/inf at floating point) outside the method's scope
            bump(STATS["input_classes"], "breakdown-outside-scope")
            return None
        if out.startswith("ABORT") and cfg.min_iter >= 2:
            # min_iter forces iterations after the residual became exactly zero: 0/0 (observation F-C07-4 of the module docstring)
            bump(STATS["input_classes"], "breakdown-forced-by-min-iter")
            return None
        return "solver session within the method's scope ended with " + out
    free = [i for i in range(sc.n) if i not in sc.cons]
    exact_scope = scope and sc.kind in ("pcg", "pcr", "pcgnr") and cfg.tol_rel == 0 and cfg.tol_abs_low == 0 \
        and cfg.min_iter == 0 and cfg.min_stag == 0 and cfg.max_iter >= len(free) \
        and cfg.tol_abs >= 10 ** 9 and cfg.div_rel >= 10 ** 9 and cfg.div_abs >= 10 ** 12 \
        and (cfg.max_iter > 0 or not cfg.skip)
    if len(out) > OVERSIZE:
        # a broken recurrence makes the exact rationals explode (megabytes per number); do not compute with them:
        # judge what can be judged from the leading fields, otherwise leave the case to the model comparison
        for k, part in enumerate(out.split(" | ")):
            t = part.split(" ", 3)
            if len(t) < 4 or t[0] != "R":
                return "unparsable implementation output: %s" % part[:80]
            st, it = int(t[1]), int(t[2])
            if exact_scope and (st != 2 or it > len(free)):
                return "solve %d: SPD system in exact arithmetic: expected the dense reference solution within %d " \
                       "iterations, got status %s after %d iterations" % (k, len(free), ST_NAMES.get(st, st), it)
        bump(STATS["input_classes"], "oversize-output-not-fully-judged")
        return None
    try:
        res = parse_solve_out(out, sc.n)
    except (ValueError, IndexError) as e:
        return "unparsable implementation output (%s): %s" % (e, out[:200])
    if len(res) != len(sc.solves):
        return "number of result records differs from the number of solves"
    edge = None  # a known-finding class seen in this session (reported only if nothing else fails)
    for k, ((mode, x0, b, re), r) in enumerate(zip(sc.solves, res)):
        tag = "solve %d (%s): " % (k, "apply" if mode == "a" else "correct")
        st = r["status"]
        if not r["rhs_ok"]:
            return tag + "the right-hand side was modified"
        if r["member"] != st:
            return tag + "get_status() differs from the returned status"
        if st in (0, 1):
            return tag + "returned status %s" % ST_NAMES[st]
        xs = [Fr(0)] * sc.n if mode == "a" else x0
        # start vector: ignored by apply (defect of the zero vector), honoured by correct
        d0_true = norm2(b) if mode == "a" else norm2(sc.resid(b, x0))
        if r["d0"] != d0_true:
            return tag + "initial defect %s, but ||F(b - A x0)|| = %s for the start vector that should be used" % (
                r["d0"], d0_true)
        if not r["hist"] or r["hist"][0] != r["d0"]:
            return tag + "defect history does not start with the initial defect"
        # aborted is only legitimate if the preconditioner failed
        if st == 3 and not sc.fail_at and not (sc.m is not None and SENTINEL in (list(b) + list(x0))):
            return tag + "aborted without a failing preconditioner"
        # cheap scope check first
        if exact_scope and (st != 2 or r["iters"] > len(free)):
            return tag + "SPD system in exact arithmetic: expected the dense reference solution within %d " \
                         "iterations, got status %s after %d iterations" % (len(free), ST_NAMES[st], r["iters"])
        true_res = norm2(sc.resid(b, r["x"]))
        it = r["iters"]
        halfk = sc.kind in HALF_STEP_KINDS

        def comp(j):  # is the defect of iteration j stored?  (_update_defect always stores it)
            return sc.kind == "rbicgstab" or cfg.computes_defect(j)
        STATS["max_iters_seen"] = max(STATS["max_iters_seen"], it)
        # the defects the solver saw
        hist = r["hist"]
        half_exit = False
        seen = [hist[0]]
        hi = 1
        for j in range(1, it + 1):
            if comp(j):
                if hi < len(hist):
                    seen.append(hist[hi])
                    hi += 1
                elif halfk and j == it and st in (2, 4):
                    half_exit = True
                    seen.append(r["d1"])
                elif st == 3 and j == it:
                    return tag + "iteration counted although the solver aborted inside it"
                else:
                    return tag + "defect history shorter than the iteration count"
            else:
                if halfk and j == it and st in (2, 4) and r["d1"] != seen[-1]:
                    half_exit = True
                    seen.append(r["d1"])
                else:
                    seen.append(seen[-1])
        if hi != len(hist):
            return tag + "more defects computed (%d) than iterations reported (%d)" % (len(hist) - 1, it)
        if r["d1"] != seen[-1]:
            return tag + "get_def_final() is not the last defect"
        computed_last = (it == 0) or comp(it) or half_exit
        # status against the limits and the defects produced
        if st == 3:
            statuses = [1] * (it + 1)
            why = judge_run(cfg, seen, statuses, computed=comp)
            if why:
                return tag + "before the preconditioner failure: " + why
        elif half_exit:
            # BiCGStab half step: direct is_diverged / is_converged test (max_iter / stagnation are not tested there)
            why = judge_run(cfg, seen[:-1], [1] * it, computed=comp) if it >= 1 else None
            if why:
                return tag + why
            dh = seen[-1]
            if st == 4 and not cfg.diverged(dh, seen[0]):
                return tag + "half-step 'diverged' but the defect is within the divergence limits"
            if st == 2 and (cfg.diverged(dh, seen[0]) or not cfg.converged(dh, seen[0])):
                return tag + "half-step 'success' but the defect does not meet the tolerances"
            if st == 2 and it < cfg.min_iter:
                return tag + "half-step 'success' after %d iteration(s) although min_iter = %d" % (it, cfg.min_iter)
        else:
            statuses = [1] * it + [st]
            why = judge_run(cfg, seen, statuses, exhausted_ok=False, computed=comp)
            if why and halfk and st in (2, 4) and it >= 1 and not comp(it):
                # a half-step exit whose defect happens to equal the stale stored one
                why = judge_run(cfg, seen[:-1], [1] * it, computed=comp)
                dh = r["d1"]
                if not why and st == 4 and not cfg.diverged(dh, seen[0]):
                    why = "half-step 'diverged' but the defect is within the divergence limits"
                if not why and st == 2 and (cfg.diverged(dh, seen[0]) or not cfg.converged(dh, seen[0])):
                    why = "half-step 'success' but the defect does not meet the tolerances"
                if not why:
                    half_exit = computed_last = True
                    if st == 2 and it < cfg.min_iter:
                        why = "half-step 'success' after %d iteration(s) although min_iter = %d" % (it, cfg.min_iter)
            if why:
                return tag + why
        # the true residual of the returned iterate
        if computed_last:
            STATS["true_residual_checks"] += 1
            if half_exit:
                # the iterate RETURNED by the half-step exit is the one whose residual was judged
                STATS["half_step_exits_checked"] += 1
            if r["d1"] != true_res and not (halfk and st == 3):
                return tag + "reported final defect %s but the true residual ||F(b - A x)|| of the returned iterate is %s" % (
                    r["d1"], true_res)
            if st == 2 and it > 0:
                if not (true_res <= cfg.tol_abs and (true_res <= cfg.tol_rel * d0_true or true_res <= cfg.tol_abs_low)):
                    return tag + "'success' but the true residual %s violates the tolerances" % true_res
                if cfg.tol_abs < cfg.tol_rel * d0_true:
                    bump(STATS["criteria"], sc.kind + ":tol_abs-binding")
                if true_res > cfg.tol_rel * d0_true:
                    bump(STATS["criteria"], sc.kind + ":tol_abs_low-escape")
            if it > 0 and cfg.min_iter > cfg.max_iter:
                bump(STATS["criteria"], sc.kind + ":min_iter>max_iter")
            if st == 4 and not (true_res > cfg.div_abs or true_res > cfg.div_rel * d0_true):
                return tag + "'diverged' but the true residual is within the divergence limits"
        else:
            # fixed-iteration mode with skipped defect computation: no claim about the residual is possible, and none
            # is made: 'success' is never returned without a computed defect (fix of finding c07-edge:F3)
            if st == 2:
                return tag + "'success' returned although the defect of the last iteration was not computed"
            bump(STATS["input_classes"], "skipped-defect-final")
        if st == 2 and it == 0 and r["x"] != xs:
            return tag + "iterate changed although no iteration was performed"
        # constrained dofs are never touched when the filter is respected by the preconditioner
        if sc.cons and (sc.m is None or all(sc.m[i][j] == 0 for i in sc.cons for j in range(sc.n))):
            for i in sc.cons:
                if r["x"][i] != xs[i]:
                    return tag + "constrained dof %d changed" % i
        # convergence to the dense reference solution
        xref = ref_solution(sc.a, sc.cons, r["x"], b)
        if xref is not None and st == 2 and computed_last:
            if true_res == 0:
                if r["x"] != xref:
                    return tag + "zero residual but the iterate differs from the dense reference solution"
                STATS["exact_reference_hits"] += 1
            elif free and sc.filter == "none":
                # ||x - x*|| <= ||A^-1||_F ||b - A x||  (norms squared, exact; qsqrt rounds down by < 2^-40)
                n = sc.n
                inv_cols = [solve_dense(sc.a, [Fr(1) if i == j else Fr(0) for i in range(n)]) for j in range(n)]
                inv_f2 = sum(v * v for col in inv_cols for v in col)
                err2 = sum((r["x"][i] - xref[i]) ** 2 for i in range(n))
                if err2 > inv_f2 * (true_res + Fr(1, 2 ** 40)) ** 2:
                    return tag + "error to the reference solution exceeds ||A^-1|| * residual"
        if exact_scope and xref is not None and r["x"] != xref:
            # exact arithmetic: CG-type methods terminate with the exact solution after at most n_free iterations
            return tag + "SPD system in exact arithmetic: the returned iterate is not the dense reference solution"
        bump(STATS["terminal_status"], sc.kind + ":" + ST_NAMES[st])
    # reproducibility / start-vector clauses across the solves of the session
    for i in range(len(res)):
        for j in range(i + 1, len(res)):
            mi, xi, bi, _ = sc.solves[i]
            mj, xj, bj, _ = sc.solves[j]
            if mi != mj or bi != bj:
                continue
            if mi == "c" and xi != xj:
                continue
            if sc.kind == "rgcr":
                continue  # RGCR recycles directions of earlier solves by design: equal systems, different paths
            STATS["pair_checks"] += 1
            if res[i]["raw"] != res[j]["raw"]:
                return "solves %d and %d (%s, same right-hand side%s) gave different results on the same solver object" % (
                    i, j, "apply" if mi == "a" else "correct", ", different start vectors" if xi != xj else "")
    return edge


# ---------------------------------------------------------------------------------------------
# stream 3 (T3, supporting evidence): PCG / PCR / PCGNR / BiCGStab / FGMRES(4) at double; true residual recomputed exactly from the doubles
# ---------------------------------------------------------------------------------------------

U = Fr(1, 2 ** 53)
T3_C = 1024         # constant of the a-priori bound  tol*(1+2^-20) + T3_C*(k+1)*n*u*(|A|_1 |x|_1 + |b|_1)


def dyad(rng, lo=-4, hi=5, den=(1, 1, 2, 4, 8)):
    return Fr(rng.randrange(lo, hi), rng.choice(den))


def gen_t3(rng):
    kind = rng.choice(["pcg", "pcg", "bicgstab", "bicgstab", "pcr", "pcgnr", "fgmres", "fgmres"])
    n = rng.choice([2, 3, 4, 6, 8, 12])
    if kind in ("pcg", "pcr"):
        a = gen_spd(rng, n)
    else:
        a = gen_nonsym(rng, n, True)
    cons = sorted(rng.sample(range(n), rng.randrange(0, n // 2 + 1))) if rng.random() < 0.4 else []
    ftoks = ["unit", str(len(cons))] + [str(i) for i in cons] if cons else ["none"]
    if rng.random() < 0.5:
        ptoks = ["none"]
    else:
        m = [[(1 / a[i][i] if i == j and i not in cons else Fr(0)) for j in range(n)] for i in range(n)]
        ptoks = ["mat", fmt_mat(m), "0"]
    cfg = Cfg(tol_rel=Fr(1, 10 ** rng.randrange(3, 11)), tol_abs=Fr(10 ** 9), tol_abs_low=rng.choice([Fr(0), Fr(1, 10 ** 9)]),
              div_rel=Fr(10 ** 9), div_abs=Fr(10 ** 12), stag_rate=Fr(19, 20), min_iter=rng.choice([0, 0, 2]),
              max_iter=rng.choice([3, 60, 60, 60]), min_stag=0, skip=True)
    ns = rng.choice([1, 2, 3])
    solves = []
    for _ in range(ns):
        mode = rng.choice(["a", "c"])
        b = [dyad(rng) for _ in range(n)]
        if mode == "a":
            b = [Fr(0) if i in cons else b[i] for i in range(n)]
        x0 = [dyad(rng) for _ in range(n)]
        solves.append((mode, x0, b, rng.choice([0, 0, 1, 2])))
    toks = ["solved", kind, str(n), fmt_mat(a)] + ftoks + ptoks + cfg.tokens(False) + ["1", str(ns)]
    for mode, x0, b, re in solves:
        toks += [mode, fmt_vec(x0), fmt_vec(b), str(re)]
    return " ".join(toks)


def oracle_t3(case, out):
    sc = SolveCase(case.replace("solved", "solve", 1))
    cfg = sc.cfg
    if is_abnormal(out):
        return "double-precision session ended with " + out
    parts = out.split(" | ")
    if len(parts) != len(sc.solves):
        return "number of result records differs from the number of solves"
    tol_rel, tol_abs, tol_low = (Fr(float(cfg.tol_rel)), Fr(float(cfg.tol_abs)), Fr(float(cfg.tol_abs_low)))
    a1 = sum(abs(v) for row in sc.a for v in row)
    for k, ((mode, x0, b, re), part) in enumerate(zip(sc.solves, parts)):
        t = part.split()
        st, it = int(t[1]), int(t[2])
        tag = "solve %d (double): " % k
        if "nonfinite" in t:
            if st == 3 and cfg.min_iter >= 2:
                # observation F-C07-4 at floating point: min_iter forces an iteration after exact convergence, 0/0 = NaN,
                # reported as 'aborted' (consistent with the property: the run does not claim success)
                bump(STATS["input_classes"], "double-breakdown-forced-by-min-iter")
                continue
            if sc.kind == "fgmres" and st in (3, 4):
                return F7_MSG % k
            if sc.kind == "bicgstab" and st == 3:
                bump(STATS["input_classes"], "double-bicgstab-breakdown")
                continue
            return tag + "non-finite value returned on a well-conditioned system"
        d0, d1 = vlib.parse_frac(t[3]), vlib.parse_frac(t[4])
        n = int(t[5])
        x = [vlib.parse_frac(z) for z in t[6:6 + n]]
        if t[6 + n] != "1":
            return tag + "the right-hand side was modified"
        if st in (0, 1) or int(t[7 + n]) != st:
            return tag + "returned status %s / get_status() %s" % (ST_NAMES.get(st), t[7 + n])
        xs = [Fr(0)] * n if mode == "a" else x0
        r0 = sc.resid(b, xs) if mode == "c" else b
        r = sc.resid(b, x)
        slack = T3_C * (it + 1) * n * U * (a1 * max(sum(abs(v) for v in x), sum(abs(v) for v in xs)) + sum(abs(v) for v in b))
        # initial defect: the start vector is honoured / ignored
        n0sq = sum(v * v for v in r0)
        lo, hi = d0 - slack - d0 * Fr(1, 2 ** 40), d0 + slack + d0 * Fr(1, 2 ** 40)
        if not ((lo <= 0 or lo * lo <= n0sq) and n0sq <= hi * hi):
            return tag + "initial defect %s is not ||F(b - A x0)|| = sqrt(%s) up to rounding" % (float(d0), float(n0sq))
        if st == 2 and it > 0:
            thr = min(tol_abs, max(tol_rel * d0, tol_low))
            bound = thr * (1 + Fr(1, 2 ** 20)) + slack
            if sum(v * v for v in r) > bound * bound:
                return tag + "'success' but the true residual %.3e of the returned doubles exceeds tol %.3e + rounding " \
                             "allowance %.3e" % (math.sqrt(float(sum(v * v for v in r))), float(thr), float(slack))
            STATS["t3_success_checks"] = STATS.get("t3_success_checks", 0) + 1
        if st == 5 and it < cfg.max_iter:
            return tag + "'max_iter' after %d < %d iterations" % (it, cfg.max_iter)
        if st == 3 and cfg.min_iter >= 2:
            # observation F-C07-4: min_iter forces iterations after exact convergence (0/0), reported as 'aborted'
            bump(STATS["input_classes"], "double-breakdown-forced-by-min-iter")
            continue
        if sc.kind == "fgmres" and st in (3, 4):
            return F7_MSG % k
        if sc.kind == "bicgstab" and st == 3:
            # BiCGStab breakdown (rho or omega vanish for this shadow residual): a property of the method, reported
            # truthfully as 'aborted'
            bump(STATS["input_classes"], "double-bicgstab-breakdown")
            continue
        if st in (3, 4, 6):
            return tag + "status %s on a well-conditioned system within the method's scope" % ST_NAMES[st]
        bump(STATS["terminal_status"], "double-" + sc.kind + ":" + ST_NAMES[st])
    return None


# ---------------------------------------------------------------------------------------------
# stream 4: life-cycle sessions at double for EVERY iterative solver class that instantiates on DenseVector /
# SparseMatrixCSR; differential oracle inside FEAT: the reused object against a brand-new object, bit for bit
# ---------------------------------------------------------------------------------------------

SESSIOND_KINDS = ["pcg", "pcr", "pmr", "pcgnr", "rich", "bicgstab", "bicgstabl", "fgmres", "gmres", "rgcr", "idrs", "cheb"]
# not instantiable on DenseVector (they need Global::Vector::dot_async / norm2_async): PipePCG, GroppPCG, RBiCGStab
RECYCLING_KINDS = ("rgcr",)   # RGCR keeps a quarter of its direction lists from one solve to the next (by design),
                              # but only as long as no init/done function is called in between


def gen_sessiond(rng):
    kind = rng.choice(SESSIOND_KINDS)
    n = rng.choice([3, 4, 6, 8, 10])
    nm = rng.choice([1, 2, 3])
    sym = kind in ("pcg", "pcr", "pmr", "cheb") or rng.random() < 0.4
    mats = [gen_spd(rng, n) if sym else gen_nonsym(rng, n, True) for _ in range(nm)]
    cons = sorted(rng.sample(range(n), rng.randrange(0, n // 2))) if rng.random() < 0.3 else []
    ftoks = ["unit", str(len(cons))] + [str(i) for i in cons] if cons else ["none"]
    ptoks = ["jac", "1"] if (rng.random() < 0.4 and kind != "cheb") else ["none"]
    cfg = Cfg(tol_rel=Fr(1, 10 ** rng.randrange(4, 10)), tol_abs=Fr(10 ** 9), tol_abs_low=Fr(0), div_rel=Fr(10 ** 9),
              div_abs=Fr(10 ** 12), stag_rate=Fr(19, 20), min_iter=0, max_iter=rng.choice([4, 80, 80, 80]),
              min_stag=0, skip=True)
    if kind == "rich":
        omega = 1 / max(sum(abs(x) for x in r) for m in mats for r in m)
        if ptoks[0] == "jac":
            omega = Fr(1, 2)
        omega = Fr(float(omega))
    elif kind == "cheb":
        omega = Fr(9, 8)
    else:
        omega = Fr(1)
    steps = ["S", "N"]
    solves = 0
    while solves < rng.choice([2, 3, 4, 5]):
        u = rng.random()
        if u < 0.55:
            mode = rng.choice(["a", "c"])
            b = [dyad(rng) for _ in range(n)]
            if mode == "a":
                b = [Fr(0) if i in cons else b[i] for i in range(n)]
            x0 = [dyad(rng) for _ in range(n)]
            steps.append("%s %s %s" % (mode, fmt_vec(x0), fmt_vec(b)))
            solves += 1
        elif u < 0.65:
            steps += ["E", "N"]
        elif u < 0.78:
            steps += ["E", "M %d" % rng.randrange(nm), "N"]
        elif u < 0.90:
            steps += ["E", "D", "S"] + (["M %d" % rng.randrange(nm)] if rng.random() < 0.5 else []) + ["N"]
        else:
            steps.append("R")
    toks = ["sessiond", kind, str(n), str(nm)] + [fmt_mat(m) for m in mats] + ftoks + ptoks + cfg.tokens(False) + \
           [fs(omega), str(len(steps))] + steps
    return " ".join(toks)


class SessionDCase:
    def __init__(self, case):
        t = case.split()
        p = [1]

        def tok():
            p[0] += 1
            return t[p[0] - 1]

        def frs(k):
            return [vlib.parse_frac(tok()) for _ in range(k)]

        self.kind = tok()
        n = self.n = int(tok())
        nm = int(tok())
        self.mats = [[frs(n) for _ in range(n)] for _ in range(nm)]
        self.cons = []
        if tok() == "unit":
            self.cons = [int(tok()) for _ in range(int(tok()))]
        self.pk = tok()
        if self.pk == "jac":
            tok()
        f = frs(6)
        self.cfg = Cfg(f[0], f[1], f[2], f[3], f[4], f[5], int(tok()), int(tok()), int(tok()), tok() != "0")
        tok()
        ns = int(tok())
        self.steps = []
        for _ in range(ns):
            st = tok()
            if st == "M":
                self.steps.append(("M", int(tok())))
            elif st in ("a", "c"):
                self.steps.append((st, frs(n), frs(n)))
            else:
                self.steps.append((st,))


def oracle_sessiond(case, out):
    sc = SessionDCase(case)
    cfg = sc.cfg
    if is_abnormal(out):
        return "life-cycle session ended with " + out
    parts = out.split(" | ") if out else []
    n = sc.n
    tol_rel, tol_abs, tol_low = (Fr(float(cfg.tol_rel)), Fr(float(cfg.tol_abs)), Fr(float(cfg.tol_abs_low)))
    cur = sc.mats[0]
    k = 0
    fresh_lists = True       # no solve since the last re-initialisation (relevant for the recycling solver RGCR)
    edge = None
    hist = []
    for st in sc.steps:
        hist.append(st[0])
        if st[0] == "M":
            cur = sc.mats[st[1]]
            continue
        if st[0] in ("S", "N", "E", "D", "R"):
            # any (numeric or symbolic) re-initialisation clears RGCR's recycled directions (fix of c07-edge:F9)
            fresh_lists = True
            continue
        if st[0] not in ("a", "c"):
            continue
        if k >= len(parts):
            return "fewer result records than solves"
        t = parts[k].split()
        tag = "solve %d of the session (%s after %s): " % (k, sc.kind, " ".join(hist[:-1][-6:]))
        k += 1
        if t[0] != "R" or t[8 + n] != "F":
            return tag + "unparsable record"
        reused = t[1:6 + n]
        fresh = t[9 + n:14 + 2 * n]
        if t[6 + n] != "1":
            return tag + "the right-hand side was modified"
        stt, it = int(t[1]), int(t[2])
        if stt in (0, 1) or int(t[7 + n]) != stt:
            return tag + "returned status %s / get_status() %s" % (ST_NAMES.get(stt), t[7 + n])
        # (1) history independence: same arithmetic in the same order => bit-identical results
        if reused != fresh and not (sc.kind in RECYCLING_KINDS and not fresh_lists):
            return tag + "the reused solver object returned (status %s, %s iterations) something different from a " \
                         "brand-new object on the same system (status %s, %s iterations): history dependence" % (
                             ST_NAMES.get(stt), it, ST_NAMES.get(int(fresh[0])), fresh[1])
        fresh_lists = False
        STATS["sessiond_pairs"] = STATS.get("sessiond_pairs", 0) + 1
        # (2) success => true residual of the returned doubles within the a-priori bound
        if "nonfinite" in reused:
            if stt == 2:
                return tag + "'success' with a non-finite value"
            continue
        mode, x0, b = st
        x = [vlib.parse_frac(z) for z in t[6:6 + n]]
        d0 = vlib.parse_frac(t[3])
        if stt == 2 and it > 0:
            ax = mat_vec(cur, x)
            r = [Fr(0) if i in sc.cons else b[i] - ax[i] for i in range(n)]
            a1 = sum(abs(v) for row in cur for v in row)
            xs = [Fr(0)] * n if mode == "a" else x0
            slack = T3_C * (it + 1) * n * U * (a1 * max(sum(abs(v) for v in x), sum(abs(v) for v in xs)) + sum(abs(v) for v in b))
            thr = min(tol_abs, max(tol_rel * d0, tol_low))
            bound = thr * (1 + Fr(1, 2 ** 20)) + slack
            if sum(v * v for v in r) > bound * bound:
                msg = "'success' but the true residual %.3e of the returned doubles exceeds tol %.3e + rounding " \
                      "allowance %.3e" % (math.sqrt(float(sum(v * v for v in r))), float(thr), float(slack))
                return tag + msg
            STATS["sessiond_success_checks"] = STATS.get("sessiond_success_checks", 0) + 1
        bump(STATS["terminal_status"], "sessiond-" + sc.kind + ":" + ST_NAMES[stt])
    if k != len(parts):
        return "more result records than solves"
    return edge


def oracle(case, out):
    if case.startswith("sessiond"):
        return oracle_sessiond(case, out)
    if case.startswith("solved"):
        return oracle_t3(case, out)
    if case.startswith("ctl"):
        return oracle_ctl(case, out)
    return oracle_solve(case, out)


def nontrivial(case):
    t = case.split()
    if t[0] == "ctl":
        return int(t[14]) >= 3
    return int(t[2]) >= 2  # solve / solved: system size


def describe(case):
    t = case.split()
    if t[0] == "ctl":
        return ["op:ctl", "ctl-variant:" + ("update_defect" if t[1] == "1" else "set_new_defect"), "ctl-len:" + t[14],
                "ctl-skip:" + t[11], "ctl-plot:" + t[12]]
    if t[0] == "sessiond":
        sd = SessionDCase(case)
        return ["op:sessiond", "sessiond-solver:" + t[1]] + ["sessiond-step:" + st[0] for st in sd.steps]
    if t[0] == "solved":
        return ["op:solved", "t3-solver:" + t[1], "t3-n:" + t[2]]
    sc = SolveCase(case)
    keys = ["op:solve", "solver:" + sc.kind, "n:%d" % sc.n, "filter:%s" % (sc.filter if not sc.cons else "unit+%d" % len(sc.cons)),
            "precond:" + (("feat-" + sc.fpre[0]) if sc.fpre else "none" if sc.m is None else ("failing" if sc.fail_at else "matrix")),
            "solves:%d" % len(sc.solves), "scope:" + ("in" if in_scope(sc) else "out")]
    if case in PROBE_SET:
        keys.append("probe:state-leak")
    keys += ["mode:" + ("apply" if m == "a" else "correct") for m, _, _, _ in sc.solves]
    keys += ["reinit:%d" % re for _, _, _, re in sc.solves]
    return keys


def canon(out):
    return "ABORT" if out.startswith("ABORT") else out


def signature(case, out, why):
    if why and why.startswith("[c07-edge:"):
        return why[1:why.index("]")]
    t = case.split()
    return "%s:%s" % (" ".join(t[:2]), (why or "")[:60])


F7_MSG = "[c07-edge:F7] solve %d (double): FGMRES does not handle the happy breakdown (Arnoldi vector of norm 0 when the " \
         "Krylov space is exhausted): division by (nearly) zero, 'aborted'/'diverged' with a non-finite or huge iterate on a " \
         "nonsingular system"
def leak_probes():
    """Deterministic sessions (every tier, every seed) on one Richardson object, A = diag(1/100, a2), omega = 1:
    a PREVIOUS solve that ends in each terminal status and leaves a non-zero stagnation counter / iteration count,
    followed by a solve whose fresh outcome differs from the outcome with a leaked `_num_stag_iter`/`_num_iter`:
    the slow component shrinks by 99/100 per step (stagnating for stag_rate 9/10), and the tolerances are set so
    that the fresh run converges one step before the counter would reach min_stag_iter."""
    out = []
    big = "1000000000"

    def line(a2, pre, tol_rel, div_rel, min_stag, max_iter, solves):
        toks = ["solve rich 2 1/100 0 0 %s none" % a2, pre, tol_rel, big, "0", div_rel, big + "000", "9/10", "0",
                str(max_iter), str(min_stag), "1", "1", str(len(solves))]
        for mode, x0, b, re in solves:
            toks += [mode, x0, b, str(re)]
        return " ".join(toks)

    slow, fast = "1 0", "0 1"
    for re in (0, 1, 2):
        for mode in ("a", "c"):
            nxt = (mode, "0 0", slow, re)
            # previous solve ends with success / stagnated / max_iter / diverged / aborted
            out.append(line("0", "none", "985/1000", big, 2, 10, [("a", "5 5", slow, 0), nxt, nxt]))
            out.append(line("0", "none", "985/1000", big, 2, 10, [("a", "5 5", fast, 0), nxt, ("c", "0 0", fast, re), nxt]))
            out.append(line("0", "none", "985/1000", big, 2, 2, [("a", "5 5", fast, 0), nxt]))
            out.append(line("-1/5", "none", "975/1000", "3/2", 3, 10, [("a", "5 5", fast, 0), nxt]))
            out.append(line("0", "mat 1 0 0 1 2", "985/1000", big, 2, 10, [("a", "5 5", fast, 0), nxt]))
    return out


CORPUS = [
    # each terminal status of the control machine
    "ctl 0 1/4 1024 0 1024 1048576 15/16 0 5 0 1 0 1 6 8 4 2 1 1/2 1/4",
    "ctl 0 1/4 1024 0 1024 1048576 15/16 0 3 2 1 0 1 6 8 8 8 8 1/2 1/4",
    "ctl 1 1/4 1024 0 4 1048576 15/16 0 3 2 1 1 1 4 8 nan 8 8",
    "ctl 0 1/1024 1024 0 4 1048576 15/16 0 9 0 1 0 1 4 8 16 64 8",
    "ctl 0 1/1024 1024 0 1024 1048576 15/16 0 2 0 1 0 1 5 8 8 8 8 8",
    # fixed iteration count, defect computation skipped (stale defect)
    "ctl 0 1/4 1024 0 4 1048576 15/16 2 2 0 1 0 1 4 8 128 8 8",
    "ctl 0 1 1024 0 4 1048576 15/16 2 2 0 1 0 1 4 8 128 8 8",
    # solvers
    "solve pcg 2 2 1 1 3 none none 0 1000000000 0 1000000000 1000000000000 19/20 0 10 0 1 1 3 a 5 5 1 2 0 c 1 1 1 2 1 a 0 0 1 2 2",
    "solve rich 2 2 1 1 3 unit 1 0 mat 0 0 0 1/3 0 1/1000 1000000000 0 1000000000 1000000000000 19/20 0 10 0 1 1/2 2 a 5 5 0 2 0 c 1 1 1 2 0",
    "solve pcr 3 2 -1 0 -1 2 -1 0 -1 2 none none 0 1000000000 0 1000000000 1000000000000 19/20 0 9 0 1 1 1 c 1 0 0 1 2 3 0",
    "solve bicgstab 2 3 1 -1 2 none none 0 1000000000 0 1000000000 1000000000000 19/20 0 9 0 1 1 2 a 1 1 1 2 0 c 0 0 1 2 0",
    "solve pcgnr 2 3 1 -1 2 none none 0 1000000000 0 1000000000 1000000000000 19/20 0 6 0 1 1 2 a 1 1 1 2 0 c 0 0 1 2 1",
    "solve pcgnr 3 2 1 0 -1 3 1 0 0 -2 unit 1 1 mat 1/3 0 0 0 0 0 0 0 1/2 0 1/100 1000000000 0 1000000000 1000000000000 19/20 0 6 2 1 1 2 a 1 1 1 1 0 2 0 c 0 5 1 1 2 3 2",
    "solve cheb 2 51 0 0 1 none none 1/1000 1000000000 0 1000000000 1000000000000 19/20 0 5 0 1 1 2 a 0 0 1 2 0 c 1 1 1 2 2",
    "solve cheb 3 11 10 0 10 12 1 0 1 2 unit 1 2 none 1/10 1000000000 0 1000000000 1000000000000 19/20 0 6 1 1 3/4 1 c 1 0 5 1 2 3 0",
    "solve pcg 3 4 -1 0 -1 4 -1 0 -1 4 none ssor 1 0 1000000000 0 1000000000 1000000000000 19/20 0 9 0 1 1 2 a 9 9 9 1 2 3 0 c 1 1 1 1 2 3 2",
    "solve bicgstab 3 4 -1 0 -2 4 -1 0 -2 4 unit 1 1 sor 3/4 1/1000 1000000000 0 1000000000 1000000000000 19/20 0 6 0 1 1 1 c 1 5 1 1 2 3 0",
    "solve rich 3 4 -1 0 -1 4 -1 0 -1 4 none jac 1/2 1/100 1000000000 0 1000000000 1000000000000 19/20 0 20 0 1 1 1 a 0 0 0 1 2 3 0",
    "solve rgcr 2 3 1 -1 2 none none 0 1000000000 0 1000000000 1000000000000 19/20 0 3 0 1 1 3 a 1 1 1 2 0 c 0 0 2 1 0 a 0 0 1 1 2",
    "solve rgcr 3 4 -1 0 -1 4 -1 0 -1 4 unit 1 1 jac 1 1/100 1000000000 0 1000000000 1000000000000 19/20 0 4 0 1 1 2 a 0 0 0 1 0 3 0 c 1 5 1 1 2 3 1",
    "solve pmr 2 2 1 1 3 none mat 1/2 0 0 1/3 0 1/100 1000000000 0 1000000000 1000000000000 19/20 0 5 0 1 1 2 a 9 9 1 2 0 c 1 1 1 2 2",
    # Richardson with a diverging damping parameter and a fixed iteration count: finding F3, fixed in /repo 8aa081eb5 (regression line, now max_iter)
    "solve rich 1 1 none none 1 1000000000 0 1000000000 1000000000000 19/20 2 2 0 1 3 1 a 0 1 0",
    # BiCGStab half-step success before min_iter: finding F2, fixed in /repo 784169477 (regression line)
    "solve bicgstab 1 2 none none 1/2 1000000000 0 1000000000 1000000000000 19/20 3 9 0 1 1 1 a 0 1 0",
    # F-C07-1 (fixed in /repo, c0d18e9d5): BiCGStab on an already converged initial defect -> success, 0 iterations
    "solve bicgstab 2 2 1 1 3 none none 1/1000000 1000000000 0 1000000000 1000000000000 19/20 0 10 0 1 1 2 "
    "c 1 1 3 4 0 a 7 7 0 0 0",
    # F-C07-6 (fixed in /repo 3d5803c40, regression line): preconditioner failure on the initial defect of the 2nd solve
    "solve bicgstab 2 2 1 1 3 none mat 1 0 0 1 0 1/1000000 1000000000 0 1000000000 1000000000000 19/20 0 6 0 1 1 3 "
    "a 0 0 1 2 0 a 0 0 7777 1 0 a 0 0 1 2 0",
    # observations F-C07-4 (0/0 forced by min_iter) and F-C07-5 (initial check ignores tol_abs)
    "solve pcg 1 2 none none 1/2 1000000000 0 1000000000 1000000000000 19/20 3 9 0 1 1 1 a 0 1 0",
    "solve pcg 1 2 none none 1/1000000 1/100 1/2 1000000000 1000000000000 19/20 0 9 0 1 1 1 a 0 1/4 0",
]


SD_CORPUS = [
    # F-C07-11 (fixed 624f5fec9, regression line): BiCGStabL, zero right-hand side
    'sessiond bicgstabl 2 1 2 1 1 3 none none 1/100000000 1000000000 0 1000000000 1000000000000 19/20 0 30 0 1 1 3 S N a 5 5 0 0',
    # F-C07-10 (fixed ab5d9bae1, regression line): BiCGStabL poisoned by an earlier breakdown
    'sessiond bicgstabl 3 1 3/1 0/1 0/1 1/1 13/4 3/4 -3/2 0/1 3/1 none jac 1 1/100000000 1000000000/1 0/1 1000000000/1 1000000000000/1 19/20 0 80 0 1 1/1 28 S N E M 0 N R E N E M 0 N a -1/1 -1/1 3/1 -1/2 0/1 -2/1 E M 0 N E M 0 N E N a 2/1 2/1 -2/1 1/1 -1/8 -2/1 E D S M 0 N R a -4/1 3/1 1/1 2/1 -4/1 -1/1',
    # F-C07-8 (fixed 685d21123, regression line): IDRS after done()+init()
    "sessiond idrs 4 1 4 -1 0 0 -1 4 -1 0 0 -1 4 -1 0 0 -1 4 none none 1/100000000 1000000000 0 1000000000 1000000000000 "
    "19/20 0 60 0 1 1 5 S N a 0 0 0 0 1 2 3 4 R a 0 0 0 0 1 2 3 4",
    # F-C07-9 (fixed 34b320bb6, regression line): RGCR after done_numeric / new matrix values / init_numeric
    "sessiond rgcr 6 2 4 -1 0 0 0 0 -1 4 -1 0 0 0 0 -1 4 -1 0 0 0 0 -1 4 -1 0 0 0 0 -1 4 -1 0 0 0 0 -1 4 9 1 0 0 0 2 1 9 1 0 0 0 0 1 9 1 0 0 0 0 1 9 1 0 0 0 0 1 9 1 2 0 0 0 1 9 none none 1/100000000 1000000000 0 1000000000 1000000000000 19/20 0 60 0 1 1 7 S N a 0 0 0 0 0 0 1 2 3 4 5 6 E M 1 N a 0 0 0 0 0 0 1 2 3 4 5 6",
]
T3_CORPUS = [
    # open finding c07-edge:F7: FGMRES(4) on the 2x2 identity: the Krylov space has dimension 1
    "solved fgmres 2 1 0 0 1 none none 1/10000000 1000000000 0 1000000000 1000000000000 19/20 0 60 0 1 1 1 a 0 0 1 2 0",
    "solved pcg 2 1 0 0 1 none none 1/10000000 1000000000 0 1000000000 1000000000000 19/20 0 60 0 1 1 1 a 0 0 1 2 0",
]
PROBE_SET = set(leak_probes())


def main(argv):
    args = vlib.std_args(argv)
    t0 = time.time()
    rng = random.Random(args.seed * 1000003 + 7)
    lean = None if args.no_lean else vlib.lean_check(PROP, leanchecker=(args.tier == "thorough"))
    binary, err = vlib.build_harness("c07", os.path.join(vlib.VERIF, "harness", "c07", "main.cpp"))
    if binary is None:
        v = [{"property": PROP, "kind": "harness-build-failure", "detail": err, "failing_input": None,
              "broken": "harness c07 does not compile against the current tree"}]
        return vlib.finish(PROP, args.tier, args.seed, t0, lean, [], [], v, [])
    quick = args.tier == "quick"
    if args.replay:
        case = json.load(open(args.replay))["input"]
        ctl_cases = [case] if case.startswith("ctl") else []
        solve_cases = [case] if case.startswith("solve ") else []
    if args.replay and case.startswith("sessiond"):
        pass
    else:
        ctl_cases = [c for c in CORPUS if c.startswith("ctl")] + [gen_ctl(rng) for _ in range(20000 if quick else 150000)]
        solve_cases = [c for c in CORPUS if c.startswith("solve")] + leak_probes() + \
                      [gen_solve(rng, args.tier) for _ in range(6000 if quick else 40000)]
    streams = []
    if ctl_cases:
        streams.append(vlib.Stream("control", ctl_cases, [binary], vlib.driver_cmd(PROP), oracle=oracle,
                                   nontrivial=nontrivial, describe=describe, signature=signature, canon=canon))
    if solve_cases:
        streams.append(vlib.Stream("solvers", solve_cases, [binary], vlib.driver_cmd(PROP), oracle=oracle,
                                   nontrivial=nontrivial, describe=describe, signature=signature, canon=canon))
    if not args.replay or case.startswith("solved"):
        t3_cases = [case] if args.replay else T3_CORPUS + [gen_t3(rng) for _ in range(1500 if quick else 15000)]
        streams.append(vlib.Stream("double-precision", t3_cases, [binary], None, oracle=oracle, nontrivial=nontrivial,
                                   describe=describe, signature=signature, canon=canon))
    if not args.replay or case.startswith("sessiond"):
        sd_cases = [case] if args.replay else SD_CORPUS + [gen_sessiond(rng) for _ in range(2500 if quick else 25000)]
        streams.append(vlib.Stream("life-cycle", sd_cases, [binary], None, oracle=oracle, nontrivial=nontrivial,
                                   describe=describe, signature=signature, canon=canon))
    extra = {"rule": "control: the real IterativeSolver state machine (via a test subclass) on dyadic/non-finite defect "
                     "sequences of length 1..14 with all min/max-iter, tolerance, divergence, stagnation, skip_defect_calc "
                     "and plot settings, values placed exactly on the thresholds; non-trivial = at least 3 defects. "
                     "solvers: sessions of 1..4 apply()/correct() calls with re-initialisation on one real PCG / Richardson / "
                     "PCR / BiCGStab object at the exact scalar, SPD / diagonally dominant nonsymmetric / indefinite matrices "
                     "of size 1..8, NoneFilter / UnitFilter, no / mock (Jacobi, SPD, arbitrary, failing) / FEAT's own Jacobi, SOR, SSOR preconditioner; "
                     "non-trivial = system size >= 2. double-precision (T3, supporting evidence): real PCG / PCR / PCGNR / BiCGStab / FGMRES(4) "
                     "at double on SPD / diagonally dominant systems of size 2..12 with exactly representable data; "
                     "'success' => true residual of the returned doubles (exact arithmetic) <= tol*(1+2^-20) + "
                     "1024*(k+1)*n*u*(|A|_1 |x|_1 + |b|_1) (heuristic constant: the residual gap of BiCGStab "
                     "depends on the largest intermediate iterate)",
             "measured": STATS}
    rc = vlib.run_pipeline(PROP, args.tier, args.seed, lean, streams, t0, assumptions=[
        "control stream: double comparisons are exact because all inputs are small dyadic numbers",
        "solver stream: Math::sqrt(Q) is the deterministic rational function q_sqrt (floor-sqrt at 40 fractional bits); "
        "a division by zero of the exact scalar (breakdown) corresponds to NaN/inf at floating point",
        "floating-point drift between recurrence residual and true residual is outside the exact model",
        "the preconditioner is an arbitrary (mock) linear map; FEAT's own preconditioners are property C08"],
        extra_cov=extra)
    return rc
