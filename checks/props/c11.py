"""C11 - mesh/config files round-trip; malformed input is rejected without crashing.

Streams (all cases are one line; texts are hex-encoded byte strings `x<hex>`):
  scan   <hex>                 Xml::Scanner with a recording parser -> event list | ERR class line
  mesh   <tag> <hex>           MeshFileReader -> dump via accessors, MeshFileWriter text, 2nd generation flags
  ini    <replace> <hex>       PropertyMap::read -> dump, PropertyMap::write text, 2nd generation flags
  graph / graphdef / gbytes    Graph::serialize / Graph(buffer)
The tag of a mesh case is `<E>[K<classes>]` (ignored by harness and model):
  E = A must be accepted, R must be rejected with a documented exception, U either (but never a crash) - E is what the
  generator KNOWS BY CONSTRUCTION (what it printed and which single change it made); it is the only part of the tag that
  can make the oracle report a failure.  K<classes> = defect classes of KNOWN_FINDINGS.json ("c11-edge:K<n>") recognised
  in the input text by `hazardous()` or attached by the mutator; they are used by `signature()` only, i.e. they can
  downgrade a failure to a known finding when the class explains the kind of failure, never create one.  Text
  re-readers (`hazardous`, `incomplete_input`) do not implement the scanner's lexical rules exactly and are therefore
  never used for verdicts; `incomplete_input` survives as a self-test statistic (`recogniser_divergence`).
"""
import binascii
import json
import os
import random
import re
import time
from fractions import Fraction

import vlib

PROP = "C11"
DOC_ERR = ("SyntaxError", "GrammarError", "ContentError", "LinkerError")


def hx(s):
    if isinstance(s, str):
        s = s.encode("latin-1")
    return "x" + binascii.hexlify(s).decode()


def unhx(t):
    return binascii.unhexlify(t[1:]).decode("latin-1")


# =================================================================================================
# mesh structures
# =================================================================================================

def nverts(shape, d):
    return (1 << d) if shape == "h" else d + 1


SHAPES = [("h", 1), ("h", 2), ("h", 3), ("s", 2), ("s", 3)]
# (shape, shape dimension, world dimension): the mesh types the harness instantiates, including the ones embedded in a
# higher-dimensional world (surfaces in 3D, curves in 2D / 3D)
MESH_TYPES = [(sh, d, d) for sh, d in SHAPES] + [("s", 2, 3), ("h", 2, 3), ("h", 1, 2), ("h", 1, 3)]
SHAPE_NAME = {"h": "hypercube", "s": "simplex"}


def rand_frac(rng):
    k = rng.random()
    if k < 0.4:
        return Fraction(rng.randrange(-5, 6))
    if k < 0.8:
        return Fraction(rng.randrange(-2000, 2000), 10 ** rng.randrange(0, 4))
    return Fraction(rng.randrange(-50, 50), rng.randrange(1, 12))


NAME_CHARS = "abcdefghijklmnopqrstuvwxyzABCDEFGHIJKLMNOPQRSTUVWXYZ0123456789_:.-+"


def rand_name(rng, allow_odd=True):
    n = rng.choice([1, 2, 3, 5, 8])
    s = "".join(rng.choice(NAME_CHARS) for _ in range(n))
    if allow_odd and rng.random() < 0.15:
        s = s + rng.choice([" x", "=y", "/z", "'q", " / w", "#h"])
    if allow_odd and rng.random() < 0.1:
        s = "_" + s
    return s


def gen_mesh_struct(rng, small=False):
    shape, dim, wdim = rng.choice(MESH_TYPES)
    nv = rng.choice([1, 2, 3, 4, 6, 9]) if not small else rng.choice([2, 3, 4])
    sizes = [nv] + [rng.choice([1, 1, 2, 3, 5]) for _ in range(dim)]
    has_mesh = rng.random() < 0.93
    m = {"shape": shape, "dim": dim, "sizes": sizes,
         "wdim": wdim, "verts": [[rand_frac(rng) for _ in range(wdim)] for _ in range(nv)],
         "topo": {d: [tuple(rng.randrange(nv) for _ in range(nverts(shape, d))) for _ in range(sizes[d])]
                  for d in range(1, dim + 1)}}
    # charts of the modelled kinds: Circle (2D), Sphere (3D)
    charts = []
    if wdim in (2, 3):         # the chart kinds depend on the WORLD dimension
        cnames = set()
        for _ in range(rng.choice([0, 0, 1, 2])):
            cn = rand_name(rng, allow_odd=False)
            if cn in cnames:
                continue
            cnames.add(cn)
            radius = Fraction(rng.randrange(1, 5000), rng.choice([1, 10, 1000]))
            mid = [rand_frac(rng) for _ in range(wdim)]
            dom = None
            if wdim == 2 and rng.random() < 0.5:
                l = rand_frac(rng)
                dom = (l, l + Fraction(rng.randrange(1, 50), rng.choice([1, 4, 10])))
            if wdim == 2 and rng.random() < 0.4:
                # Bezier chart: >= 2 vertex points, each (but the first) with 0..2 control points, optional params
                nvp = rng.choice([2, 3, 5])
                segs = [([[rand_frac(rng), rand_frac(rng)] for _ in range(0 if i == 0 else rng.choice([0, 0, 1, 2]))],
                         [rand_frac(rng), rand_frac(rng)]) for i in range(nvp)]
                charts.append({"name": cn, "bezier": {"closed": rng.random() < 0.5, "orient": rng.choice([None, None, "-1", "1"]),
                                                    "segs": segs, "params": [Fraction(i) for i in range(nvp)] if rng.random() < 0.6 else []}})
                continue
            charts.append({"name": cn, "radius": radius, "mid": mid, "dom": dom})
    parts = []
    names = set()
    for _ in range(rng.choice([0, 0, 1, 1, 2, 3])):
        nm = rand_name(rng)
        if nm in names:
            continue
        names.add(nm)
        if has_mesh and rng.random() < (0.1 if small else 0.25):
            parts.append(gen_parent_part(rng, nm, m, shape, dim, charts))
            continue
        topo_type = rng.choice(["none", "none", "full"])
        nsz = rng.randrange(1, dim + 2)          # how many size entries are given in the file
        psz = [rng.choice([0, 1, 2, 3]) for _ in range(nsz)] + [0] * (dim + 1 - nsz)
        p = {"name": nm, "topo_type": topo_type, "nsz": nsz, "sizes": psz,
             # target indices must be entity indices of the root mesh (MeshNodeLinker validates them); without a
             # root mesh in the file nothing can be validated
             "maps": {d: [rng.randrange(0, sizes[d] if has_mesh else 12) for _ in range(psz[d])] for d in range(dim + 1)},
             "topo": {}, "attrs": [], "chart": rng.choice(charts)["name"] if charts and rng.random() < 0.4 else None}
        if topo_type == "full":
            # no interior zero count below a non-zero one (defect class 6)
            for d in range(1, dim):
                if psz[d] == 0:
                    for d2 in range(d + 1, dim + 1):
                        psz[d2] = 0
                        p["maps"][d2] = []
            for d in range(1, dim + 1):
                # index bound of a mesh-part topology is its own vertex count
                if psz[d] > 0 and psz[0] == 0:
                    psz[d] = 0
                    p["maps"][d] = []
                p["topo"][d] = [tuple(rng.randrange(psz[0]) for _ in range(nverts(shape, d))) for _ in range(psz[d])]
        anames = set()
        for _ in range(rng.choice([0, 0, 1, 2])):
            an = rand_name(rng)
            if an in anames:
                continue
            anames.add(an)
            ad = rng.choice([1, 1, 2, 3])
            p["attrs"].append({"name": an, "dim": ad, "vals": [[rand_frac(rng) for _ in range(ad)] for _ in range(psz[0])]})
        parts.append(p)
    partitions = []
    for _ in range(rng.choice([0, 0, 1, 2])):
        nr = rng.choice([1, 2, 3, 4])
        ne = rng.choice([1, 2, 4, 7])
        ranks = list(range(nr))      # exactly one Patch block per declared rank ...
        rng.shuffle(ranks)
        elems = list(range(ne))      # ... which together contain the declared number of elements
        rng.shuffle(elems)
        cuts = sorted(rng.randrange(0, ne + 1) for _ in range(nr - 1))
        patches = {r: elems[a:b] for r, a, b in zip(ranks, [0] + cuts, cuts + [ne])}
        partitions.append({"name": rng.choice(["", rand_name(rng)]), "prio": rng.choice([None, 0, 1, -3, 17]),
                           "level": rng.choice([None, 0, 1, 4]), "nr": nr, "ne": ne, "ranks": ranks, "patches": patches})
    return {"mesh": m if has_mesh else None, "shape": shape, "dim": dim, "wdim": wdim, "parts": parts,
            "partitions": partitions, "charts": charts}


def gen_parent_part(rng, nm, m, shape, dim, charts):
    """a `topology="parent"` mesh part: cells of dimensions 1..k of the root mesh and ALL their vertices (in any order);
    the topology the reader must deduct is the parent's index tuples renumbered by the position in the vertex mapping"""
    k = rng.randrange(0, dim + 1)
    maps = {d: [] for d in range(dim + 1)}
    used = set()
    for d in range(1, k + 1):
        maps[d] = [rng.randrange(m["sizes"][d]) for _ in range(rng.choice([1, 1, 2, 3]))]
        for c in maps[d]:
            used |= set(m["topo"][d][c])
    extra = [v for v in range(m["sizes"][0]) if v not in used and rng.random() < 0.3]
    vmap = list(used) + extra
    if not vmap:
        vmap = [rng.randrange(m["sizes"][0])]
    rng.shuffle(vmap)
    maps[0] = vmap
    pos = {v: i for i, v in enumerate(vmap)}
    topo = {d: [tuple(pos[v] for v in m["topo"][d][c]) for c in maps[d]] for d in range(1, dim + 1)}
    psz = [len(maps[d]) for d in range(dim + 1)]
    return {"name": nm, "topo_type": "parent", "nsz": dim + 1, "sizes": psz, "maps": maps, "topo": topo, "attrs": [],
            "chart": rng.choice(charts)["name"] if charts and rng.random() < 0.4 else None}


def show_frac_file(rng, fr):
    """one of the textual forms accepted for a coordinate (exactly representing fr)"""
    k = rng.random()
    if fr.denominator == 1:
        if k < 0.5:
            return str(fr.numerator)
        if k < 0.65:
            return "%d." % fr.numerator
        if k < 0.8:
            return "%d.0" % fr.numerator
        if k < 0.9:
            return "%de0" % fr.numerator
    # decimal if the denominator is a power of ten (2^a 5^b)
    d = fr.denominator
    e = 0
    while d % 10 == 0:
        d //= 10
        e += 1
    if fr.denominator in (1, 10, 100, 1000, 10000) and k < 0.7:
        e = len(str(fr.denominator)) - 1
        n = abs(fr.numerator)
        s = str(n).rjust(e + 1, "0")
        txt = s[:-e] + "." + s[-e:] if e > 0 else s
        if k < 0.2:
            txt = "%dE-%d" % (n, e)
        return ("-" if fr.numerator < 0 else ("+" if k > 0.65 else "")) + txt
    return "%d/%d" % (fr.numerator, fr.denominator)


class Lines:
    """file under construction: list of (role, text)"""

    def __init__(self, rng, fancy):
        self.rng = rng
        self.fancy = fancy
        self.l = []
        self.ind = 0

    def add(self, role, text):
        rng = self.rng
        if self.fancy:
            if rng.random() < 0.06:
                self.l.append(("blank", rng.choice(["", "   ", "\t"])))
            if rng.random() < 0.05 and any(r not in ("blank", "comment") for r, _ in self.l):
                self.l.append(("comment", " " * self.ind + rng.choice(["<!-- a comment -->", "<!---->", "<!-- <x y=\"1\"> -->"])))
            pre = rng.choice([" " * self.ind, " " * self.ind, "", "\t", "  \t "])
            post = rng.choice(["", "", "", " ", "\t", "\r"])
        else:
            pre, post = " " * self.ind, ""
        self.l.append((role, pre + text + post))

    def text(self):
        return "\n".join(t for _, t in self.l) + "\n"


def markup(rng, fancy, name, attrs, closed=False):
    attrs = list(attrs)
    if fancy and rng.random() < 0.5:
        rng.shuffle(attrs)
    s = "<" + name
    for k, v in attrs:
        if fancy:
            s += rng.choice([" ", " ", "  ", "\t"]) + k + rng.choice(["=", "=", " = ", "= "]) + '"' + \
                rng.choice(["", "", " "]) + v + rng.choice(["", "", " "]) + '"'
        else:
            s += ' %s="%s"' % (k, v)
    if closed:
        s += " /" if not fancy or rng.random() < 0.7 else "/"
    elif fancy and rng.random() < 0.15:
        s += " "
    return s + ">"


def sep(rng, fancy):
    return rng.choice([" ", " ", "  ", "\t"]) if fancy else " "


def print_mesh_file(rng, st, fancy=True):
    L = Lines(rng, fancy)
    shape, dim = st["shape"], st["dim"]
    wdim = st.get("wdim", dim)
    mtype = "conformal:%s:%d:%d" % (SHAPE_NAME[shape], dim, wdim)
    L.add("root", markup(rng, fancy, "FeatMeshFile", [("version", "1"), ("mesh", mtype)]))
    L.ind += 2
    if fancy and rng.random() < 0.3:
        L.add("info-open", "<Info>")
        L.add("info", "some text about this file = nothing")
        if rng.random() < 0.5:
            L.add("info", "<b>")
            L.add("info", "nested</b")
            L.add("info", "</b>")
        L.add("info-close", "</Info>")
    st["ps_order"] = []
    order = ["chart%d" % i for i in range(len(st.get("charts", [])))] + ["mesh"] + \
        ["part%d" % i for i in range(len(st["parts"]))] + ["ps%d" % i for i in range(len(st["partitions"]))]
    if fancy and rng.random() < 0.3:
        rng.shuffle(order)

    def topo_block(bound_tag, topo, d):
        L.add("topo-open", markup(rng, fancy, "Topology", [("dim", str(d))]))
        L.ind += 2
        for t in topo[d]:
            L.add("topo-line", sep(rng, fancy).join(map(str, t)))
        L.ind -= 2
        L.add("topo-close", "</Topology>")

    for what in order:
        if what.startswith("chart"):
            c = st["charts"][int(what[5:])]
            num = lambda x: show_frac_file(rng, x) if fancy else vlib.frac_str(x)
            L.add("chart-open", markup(rng, fancy, "Chart", [("name", c["name"])]))
            L.ind += 2
            if "bezier" in c:
                b = c["bezier"]
                battrs = [("dim", "2"), ("size", str(len(b["segs"])))]
                if b["closed"] or (fancy and rng.random() < 0.5):
                    battrs.append(("type", "closed" if b["closed"] else "open"))
                if b["orient"] is not None:
                    battrs.append(("orientation", b["orient"]))
                L.add("bezier-open", markup(rng, fancy, "Bezier", battrs))
                L.ind += 2
                blocks = ["p"] + (["q"] if b["params"] else [])
                if fancy and rng.random() < 0.3:
                    blocks.reverse()
                for blk in blocks:
                    if blk == "p":
                        L.add("bpoints-open", "<Points>")
                        L.ind += 2
                        for ctrl, vtx in b["segs"]:
                            L.add("bpoint-line", sep(rng, fancy).join([str(len(ctrl))] + [num(x) for pt in ctrl + [vtx] for x in pt]))
                        L.ind -= 2
                        L.add("bpoints-close", "</Points>")
                    else:
                        L.add("bparams-open", "<Params>")
                        L.ind += 2
                        for x in b["params"]:
                            L.add("bparam-line", num(x))
                        L.ind -= 2
                        L.add("bparams-close", "</Params>")
                L.ind -= 2
                L.add("bezier-close", "</Bezier>")
                L.ind -= 2
                L.add("chart-close", "</Chart>")
                continue
            attrs = [("radius", num(c["radius"])), ("midpoint", sep(rng, fancy).join(num(x) for x in c["mid"]))]
            if c["dom"] is not None:
                attrs.append(("domain", sep(rng, fancy).join(num(x) for x in c["dom"])))
            kind = "Circle" if wdim == 2 else "Sphere"
            if fancy and rng.random() < 0.3:
                L.add("chart-item-open", markup(rng, fancy, kind, attrs))
                L.add("chart-item-close", "</%s>" % kind)
            else:
                L.add("chart-item", markup(rng, fancy, kind, attrs, closed=True))
            L.ind -= 2
            L.add("chart-close", "</Chart>")
        elif what == "mesh":
            m = st["mesh"]
            if m is None:
                continue
            L.add("mesh-open", markup(rng, fancy, "Mesh", [("type", mtype), ("size", " ".join(map(str, m["sizes"])))]))
            L.ind += 2
            blocks = ["v"] + list(range(1, dim + 1))
            if fancy and rng.random() < 0.3:
                rng.shuffle(blocks)
            for b in blocks:
                if b == "v":
                    L.add("verts-open", "<Vertices>")
                    L.ind += 2
                    for v in m["verts"]:
                        L.add("vert-line", sep(rng, fancy).join(show_frac_file(rng, x) if fancy else vlib.frac_str(x) for x in v))
                    L.ind -= 2
                    L.add("verts-close", "</Vertices>")
                else:
                    topo_block("mesh", m["topo"], b)
            L.ind -= 2
            L.add("mesh-close", "</Mesh>")
        elif what.startswith("part"):
            p = st["parts"][int(what[4:])]
            attrs = [("name", p["name"]), ("parent", "root"), ("topology", p["topo_type"]),
                     ("size", " ".join(map(str, p["sizes"][:p["nsz"]])))]
            if p.get("chart"):
                attrs.append(("chart", p["chart"]))
            L.add("part-open", markup(rng, fancy, "MeshPart", attrs))
            L.ind += 2
            blocks = [("m", d) for d in range(dim + 1) if p["sizes"][d] > 0 or (fancy and rng.random() < 0.3)]
            if p["topo_type"] == "full":
                blocks += [("t", d) for d in range(1, dim + 1) if p["sizes"][d] > 0 or (fancy and rng.random() < 0.3)]
            ablocks = [("a", i) for i in range(len(p["attrs"]))]
            if fancy and rng.random() < 0.4:
                rng.shuffle(blocks)
            # attributes need the vertex count only (known from the size attribute), any position is fine
            blocks = blocks + ablocks
            if fancy and rng.random() < 0.3:
                rng.shuffle(blocks)
            for kind, d in blocks:
                if kind == "m":
                    L.add("map-open", markup(rng, fancy, "Mapping", [("dim", str(d))]))
                    L.ind += 2
                    for i in p["maps"][d]:
                        L.add("map-line", str(i))
                    L.ind -= 2
                    L.add("map-close", "</Mapping>")
                elif kind == "t":
                    topo_block("part", p["topo"], d)
                else:
                    a = p["attrs"][d]
                    L.add("attr-open", markup(rng, fancy, "Attribute", [("name", a["name"]), ("dim", str(a["dim"]))]))
                    L.ind += 2
                    for v in a["vals"]:
                        L.add("attr-line", sep(rng, fancy).join(show_frac_file(rng, x) if fancy else vlib.frac_str(x) for x in v))
                    L.ind -= 2
                    L.add("attr-close", "</Attribute>")
            L.ind -= 2
            L.add("part-close", "</MeshPart>")
        else:
            q = st["partitions"][int(what[2:])]
            st["ps_order"].append(int(what[2:]))
            attrs = [("size", "%d %d" % (q["nr"], q["ne"]))]
            if q["name"]:
                attrs.append(("name", q["name"]))
            if q["prio"] is not None:
                attrs.append(("priority", str(q["prio"])))
            if q["level"] is not None:
                attrs.append(("level", str(q["level"])))
            if not q["ranks"] and fancy and rng.random() < 0.5:
                L.add("ps-closed", markup(rng, fancy, "Partition", attrs, closed=True))
                continue
            L.add("ps-open", markup(rng, fancy, "Partition", attrs))
            L.ind += 2
            for r in q["ranks"]:
                el = q["patches"][r]
                if not el and fancy and rng.random() < 0.5:
                    L.add("patch-closed", markup(rng, fancy, "Patch", [("rank", str(r)), ("size", "0")], closed=True))
                    continue
                L.add("patch-open", markup(rng, fancy, "Patch", [("rank", str(r)), ("size", str(len(el)))]))
                L.ind += 2
                for e in el:
                    L.add("patch-line", str(e))
                L.ind -= 2
                L.add("patch-close", "</Patch>")
            L.ind -= 2
            L.add("ps-close", "</Partition>")
    L.ind -= 2
    L.add("root-close", "</FeatMeshFile>")
    if fancy and rng.random() < 0.2:
        L.l.append(("trailer", rng.choice(["", "garbage after the end <<<", "<Mesh>"])))
    return L


def expected_dump(st):
    """the accessor dump (harness format) that the parsed node must have"""
    o = []
    m = st["mesh"]
    dim, shape = st["dim"], st["shape"]
    if m is None:
        o.append("M 0")
    else:
        o.append("M 1 " + " ".join(map(str, m["sizes"])))
        o.append("V %d" % len(m["verts"]))
        o += [vlib.frac_str(x) for v in m["verts"] for x in v]
        for d in range(1, dim + 1):
            o.append("T %d %d %d" % (d, len(m["topo"][d]), nverts(shape, d)))
            o += [str(i) for t in m["topo"][d] for i in t]
    parts = sorted(st["parts"], key=lambda p: p["name"].encode("latin-1"))
    o.append("NP %d" % len(parts))
    for p in parts:
        o.append("P %s %s %d %s MAP" % (hx(p["name"]), hx(p.get("chart") or ""), 1 if p["topo_type"] != "none" else 0, " ".join(map(str, p["sizes"]))))
        for d in range(dim + 1):
            o.append(" ".join(map(str, [len(p["maps"][d])] + p["maps"][d])))
        if p["topo_type"] != "none":
            for d in range(1, dim + 1):
                tt = p["topo"].get(d, [])
                o.append("T %d %d %d" % (d, len(tt), nverts(shape, d)))
                o += [str(i) for t in tt for i in t]
        attrs = sorted(p["attrs"], key=lambda a: a["name"].encode("latin-1"))
        o.append("NA %d" % len(attrs))
        for a in attrs:
            o.append("A %s %d %d" % (hx(a["name"]), a["dim"], len(a["vals"])))
            o += [vlib.frac_str(x) for v in a["vals"] for x in v]
    o.append("NPS %d" % len(st["partitions"]))
    for q in [st["partitions"][i] for i in st.get("ps_order", range(len(st["partitions"])))]:
        o.append("PS %s %d %d %d %d" % (hx(q["name"]), q["prio"] or 0, q["level"] or 0, q["nr"], q["ne"]))
        for r in range(q["nr"]):
            el = sorted(set(q["patches"].get(r, [])))
            o.append(" ".join(map(str, [len(el)] + el)))
    cs = sorted(st.get("charts", []), key=lambda c: c["name"].encode("latin-1"))
    o.append("NC %d" % len(cs))
    o += [hx(c["name"]) for c in cs]
    return " ".join(" ".join(o).split())


# -------------------------------------------------------------------------------------------------
# malformed stream: grammar-aware mutations of a valid file
# -------------------------------------------------------------------------------------------------

def split_tag(tag):
    """case tag = <E>[K<classes>]: E in A/R/U is the expectation the generator KNOWS BY CONSTRUCTION (what it printed
    and what it changed); the classes are defect classes recognised in the input text.  Soundness rule: only E can
    make the oracle report a failure; recognised classes can only downgrade a failure to a known finding.
    A bare K<classes> tag means E = U."""
    if tag[:1] in "ARU":
        return tag[0], (tag[2:] if tag[1:2] == "K" else "")
    if tag[:1] == "K":
        return "U", tag[1:]
    return "U", ""


def join_tag(e, classes):
    classes = "".join(sorted(set(classes)))
    return e + ("K" + classes if classes else "")


def add_recognised(tag, text, valid=False):
    e, cl = split_tag(tag)
    hz = hazardous(text)
    cl = cl + (hz[1:] if hz else "")
    return join_tag(e, cl)


CONTENT_ROLES = ("vert-line", "topo-line", "map-line", "attr-line", "patch-line")
HAZ_NUM = re.compile(r'(?:size|dim|rank|level)\s*=\s*"([^"]*)"')


def hazardous(text):
    """input-only recogniser of the remaining open defect class of the mesh reader (K1: a huge declared count or
    dimension is allocated unchecked); returns a K tag or None.  Downgrade-only (see `split_tag`)."""
    text = text.translate({7: 32, 8: 32})      # FEAT's white-space set also contains \a and \b
    ks = ""
    for m in HAZ_NUM.finditer(text):
        for tok in m.group(1).split():
            mm = re.match(r"^[+]?(\d+)", tok)
            if mm and int(mm.group(1)) > 100000:
                ks = "1"
    return ("K" + ks) if ks else None


def has_parent_topology(text):
    """`topology="parent"` mesh parts are not modelled in Lean (model comparison filter only, never a verdict)"""
    return re.search(r'topology\s*=\s*"\s*parent', text.translate({7: 32, 8: 32})) is not None


BLOCK_OPEN = {"verts-open": "verts-close", "topo-open": "topo-close", "map-open": "map-close",
              "attr-open": "attr-close", "patch-open": "patch-close"}


def block_ranges(lines):
    """all child blocks of a printed file: (kind, first, last, tag) where tag is the expectation for the file with the
    whole block removed: R = the declared size of that dimension is non-zero (or the block is mandatory),
    A = the reader allows the omission (declared size 0), U = legitimate different file (attribute),
    (a Partition needs exactly one Patch block per declared rank)"""
    out = []
    for i, (role, t) in enumerate(lines):
        if role == "patch-closed":
            out.append(("patch", i, i, "R"))
            continue
        if role not in BLOCK_OPEN:
            continue
        j = i
        while lines[j][0] != BLOCK_OPEN[role]:
            j += 1
        # enclosing element
        k = i
        while lines[k][0] not in ("mesh-open", "part-open", "ps-open"):
            k -= 1
        prole, ptxt = lines[k]
        tag = "R"
        if role in ("map-open", "topo-open") and prole == "part-open":
            d = int(re.search(r'dim\s*=\s*"\s*(\d+)', t).group(1))
            sizes = [int(x) for x in re.search(r'size\s*=\s*"\s*([^"]*?)\s*"', ptxt).group(1).split()]
            tag = "R" if (d < len(sizes) and sizes[d] > 0) else "A"
        elif role == "attr-open":
            tag = "U"
        elif role == "patch-open":
            tag = "R"
        out.append((role[:-5], i, j, tag))
    return out


def mutate(rng, L, st):
    """returns (tag, text, kind)"""
    lines = list(L.l)
    idx_of = lambda roles: [i for i, (r, _) in enumerate(lines) if r in roles]
    kinds = ["truncate", "del-line", "dup-line", "count", "index-bound", "dim", "tokens", "number", "xml", "bytes",
             "bytes", "tokmut", "attr", "swap-lines", "closed", "del-block", "del-block", "huge-count", "chart", "parent-vertex"]
    kind = rng.choice(kinds)
    tag = "U"
    text = None
    if kind == "truncate":
        full = "\n".join(t for _, t in lines) + "\n"
        cut = rng.randrange(0, len(full))
        text = full[:cut]
        rc = [i for i, (r, _) in enumerate(lines) if r == "root-close"][0]
        endpos = len("\n".join(t for _, t in lines[:rc + 1]))
        # complete up to and including '>' of the root terminator (trailing blanks are irrelevant)
        closing_gt = "\n".join(t for _, t in lines[:rc + 1]).rstrip(" \t\r")
        tag = "R" if cut < len(closing_gt) else "A"
    elif kind == "chart":
        # malformed chart input (by construction): wrong number of coordinates, bad radius, empty chart, duplicate
        # name, dangling chart reference of a mesh part
        co = idx_of(("chart-open",))
        if co:
            i = rng.choice(co)
            j = i
            while lines[j][0] != "chart-close":
                j += 1
            items = [k for k in range(i, j) if lines[k][0] in ("chart-item", "chart-item-open")]
            which = rng.choice(["midpoint", "radius", "empty", "dup", "rename", "content", "domain"])
            if not items:
                # Bezier chart: declared size off by one / a point line with a wrong number of coordinates
                bo = [k for k in range(i, j) if lines[k][0] == "bezier-open"][0]
                pl = [k for k in range(i, j) if lines[k][0] == "bpoint-line"]
                if which in ("midpoint", "radius", "domain") and pl:
                    if which == "radius":
                        m = re.search(r'(size\s*=\s*"\s*)(\d+)(\s*")', lines[bo][1])
                        lines[bo] = (lines[bo][0], lines[bo][1][:m.start(2)] + str(int(m.group(2)) + rng.choice([1, -1])) + lines[bo][1][m.end(2):])
                    else:
                        k = rng.choice(pl)
                        lines[k] = (lines[k][0], lines[k][1].rstrip() + " 1")
                    tag = "R"
                    which = "done"
                items = [bo]
            k = items[0]
            role, t = lines[k]
            if which == "midpoint":
                m = re.search(r'(midpoint\s*=\s*"\s*)([^"]*?)(\s*")', t)
                toks = m.group(2).split()
                toks = toks[:-1] if rng.random() < 0.5 else toks + ["1"]
                lines[k] = (role, t[:m.start(2)] + " ".join(toks) + t[m.end(2):]); tag = "R"
            elif which == "radius":
                m = re.search(r'(radius\s*=\s*"\s*)([^"]*?)(\s*")', t)
                lines[k] = (role, t[:m.start(2)] + rng.choice(["abc", "1x", "0", "-1", "0.000001", "1 2", ""]) + t[m.end(2):]); tag = "R"
            elif which == "domain" and "domain" in t:
                m = re.search(r'(domain\s*=\s*"\s*)([^"]*?)(\s*")', t)
                lines[k] = (role, t[:m.start(2)] + rng.choice(["1", "1 2 3", "a b", ""]) + t[m.end(2):]); tag = "R"
            elif which == "empty":
                del lines[i + 1:j]; tag = "R"
            elif which == "dup":
                lines[j + 1:j + 1] = lines[i:j + 1]; tag = "R"
            elif which == "content":
                lines.insert(j, ("chart-content", "0 1")); tag = "R"
            elif which == "rename":
                m = re.search(r'(name\s*=\s*"\s*)([^"]*?)(\s*")', lines[i][1])
                old = m.group(2)
                used = any(r2 == "part-open" and re.search(r'chart\s*=\s*"\s*' + re.escape(old) + r'\s*"', t2) for r2, t2 in lines)
                others = [re.search(r'name\s*=\s*"\s*([^"]*?)\s*"', lines[c][1]).group(1) for c in co if c != i]
                if (old + "Z") not in others:
                    lines[i] = (lines[i][0], lines[i][1][:m.start(2)] + old + "Z" + lines[i][1][m.end(2):])
                    tag = "R" if used else "U"       # a mesh part now refers to a chart that does not exist
    elif kind == "parent-vertex":
        # K11 by construction: replace a vertex that a cell of a topology="parent" part needs by one it does not have
        cand = [q for q in st["parts"] if q["topo_type"] == "parent" and any(q["maps"][d] for d in range(1, st["dim"] + 1))]
        if cand and st["mesh"] is not None:
            q = rng.choice(cand)
            m = st["mesh"]
            used = sorted({v for d in range(1, st["dim"] + 1) for c in q["maps"][d] for v in m["topo"][d][c]})
            free = [v for v in range(m["sizes"][0]) if v not in q["maps"][0]]
            po = [i for i, (r2, t2) in enumerate(lines) if r2 == "part-open" and
                  re.search(r'name\s*=\s*"\s*' + re.escape(q["name"]) + r'\s*"', t2)]
            if used and free and po:
                v = rng.choice(used)
                pos = q["maps"][0].index(v)
                i = po[0]
                while not (lines[i][0] == "map-open" and re.search(r'dim\s*=\s*"\s*0\s*"', lines[i][1])):
                    i += 1
                ml = [k for k in range(i + 1, len(lines)) if lines[k][0] in ("map-line", "map-close")]
                ml = ml[:[lines[k][0] for k in ml].index("map-close")]
                lines[ml[pos]] = ("map-line", str(rng.choice(free)))
                tag = "R"        # former K11: MeshNodeLinkerError
    elif kind == "huge-count":
        c = idx_of(("mesh-open", "part-open", "topo-open", "map-open", "attr-open", "ps-open", "patch-open"))
        i = rng.choice(c) if c else 0
        role, t = lines[i]
        ms = [m for m in re.finditer(r'\b(size|dim|rank)(\s*=\s*"\s*)([^"]*?)(\s*")', t)] if c else []
        if ms:
            m = rng.choice(ms)
            toks = m.group(3).split()
            k = rng.randrange(len(toks))
            # (an Attribute dimension of 99999999999 makes the real code allocate until the watchdog fires: corpus only)
            # 2^31 / 2^32 as a *size* make the real code really allocate tens of GB (watchdog): dim / rank only
            vals = ["-1", "2147483648", "4294967296"] if role == "attr-open" else \
                ["-1", "-7", "99999999999999", "18446744073709551615"] + \
                (["4294967296", "2147483648"] if m.group(1) != "size" else [])
            toks[k] = rng.choice(vals)
            lines[i] = (role, t[:m.start(3)] + " ".join(toks) + t[m.end(3):])
            tag = "RKB"
    elif kind == "del-block":
        br = block_ranges(lines)
        if br:
            bk, i, j, btag = rng.choice(br)
            del lines[i:j + 1]
            tag = btag
            kind = "del-block:" + bk
    elif kind in ("del-line", "dup-line"):
        c = idx_of(CONTENT_ROLES)
        if c:
            i = rng.choice(c)
            if kind == "del-line":
                del lines[i]
            else:
                lines.insert(i, lines[i])
            tag = "R"
    elif kind == "count":
        c = idx_of(("mesh-open", "part-open", "patch-open"))
        if c:
            i = rng.choice(c)
            role, t = lines[i]
            m = re.search(r'size\s*=\s*"\s*([^"]*?)\s*"', t)
            nums = m.group(1).split()
            k = rng.randrange(len(nums))
            delta = rng.choice([1, -1])
            if int(nums[k]) + delta >= 0:
                nums[k] = str(int(nums[k]) + delta)
                lines[i] = (role, t[:m.start(1)] + " ".join(nums) + t[m.end(1):])
                # a changed count is inconsistent with the number of lines of the corresponding block;
                # exception: a mesh-part count whose blocks are absent/empty is decided by the oracle as U
                tag = "R" if role != "part-open" else "U"
                if role == "part-open" and delta == 1:
                    tag = "R"        # missing / too short mapping for that dimension
                if role == "mesh-open" and k == 0 and delta == 1:
                    tag = "R"
    elif kind == "index-bound":
        c = idx_of(("topo-line", "patch-line", "map-line"))
        if c:
            i = rng.choice(c)
            role, t = lines[i]
            toks = t.split()
            # the bound of the enclosing block
            bound = None
            if role == "map-line":
                # the parent's entity count of that dimension, if the file has a root mesh
                mo = [t2 for r2, t2 in lines if r2 == "mesh-open"]
                d = None
                for j in range(i, -1, -1):
                    if lines[j][0] == "map-open":
                        d = int(re.search(r'dim\s*=\s*"\s*(\d+)', lines[j][1]).group(1))
                        break
                if mo and d is not None:
                    bound = int(re.search(r'size\s*=\s*"\s*([^"]*?)\s*"', mo[0]).group(1).split()[d])
            for j in range(i, -1, -1):
                r2, t2 = lines[j]
                if role == "patch-line" and r2 == "ps-open":
                    bound = int(re.search(r'size\s*=\s*"\s*(\d+)\s+(\d+)', t2).group(2))
                    break
                if role == "topo-line" and r2 in ("mesh-open", "part-open"):
                    bound = int(re.search(r'size\s*=\s*"\s*(\d+)', t2).group(1))
                    break
            if bound is not None and toks:
                k = rng.randrange(len(toks))
                toks[k] = str(bound + rng.choice([0, 0, 1, 7]))
                lines[i] = (role, " ".join(toks))
                tag = "R"
    elif kind == "dim":
        c = idx_of(("topo-open", "map-open", "attr-open", "mesh-open", "root"))
        i = rng.choice(c)
        role, t = lines[i]
        dim = st["dim"]
        if role in ("topo-open", "map-open", "attr-open"):
            new = {"topo-open": rng.choice([0, dim + 1, dim + 2]), "map-open": rng.choice([dim + 1, dim + 2, dim + 1]),
                   "attr-open": 0}[role]
            t2 = re.sub(r'dim(\s*=\s*")\s*\d+', lambda m: "dim" + m.group(1) + str(new), t)
            lines[i] = (role, t2)
            tag = "R"
        else:
            # change a dimension in the mesh type string
            pos = [m.start() for m in re.finditer(r":\d", t)]
            if pos:
                p = rng.choice(pos) + 1
                lines[i] = (role, t[:p] + str((int(t[p]) % 3) + 1 if rng.random() < 0.7 else 0) + t[p + 1:])
                tag = "U" if role == "root" else "R"
    elif kind == "tokens":
        c = idx_of(("vert-line", "topo-line", "attr-line"))
        if c:
            i = rng.choice(c)
            role, t = lines[i]
            toks = t.split()
            if rng.random() < 0.5 and len(toks) >= 1:
                del toks[rng.randrange(len(toks))]
            else:
                toks.insert(rng.randrange(len(toks) + 1), rng.choice(["0", "1", "7"]))
            if toks:
                lines[i] = (role, " ".join(toks))
                tag = "R"
            else:
                lines[i] = (role, "")
                tag = "R"
    elif kind == "number":
        c = idx_of(CONTENT_ROLES)
        if c:
            i = rng.choice(c)
            role, t = lines[i]
            toks = t.split()
            if toks:
                k = rng.randrange(len(toks))
                integer = role in ("topo-line", "map-line", "patch-line")
                choice = rng.choice(["neg", "long", "garbage", "alpha", "plus", "float", "hex", "empty-sign"])
                new = {"neg": "-1", "long": "9" * 30, "garbage": toks[k] + "x", "alpha": "abc", "plus": "+" + toks[k].lstrip("+-"),
                       "float": "1.5", "hex": "0x10", "empty-sign": "-"}[choice]
                toks[k] = new
                lines[i] = (role, " ".join(toks))
                if choice in ("alpha", "empty-sign", "garbage", "hex"):
                    tag = "R"        # not a number / trailing characters (String::parse is strict)
                elif integer and choice in ("long", "neg", "float"):
                    tag = "R"        # does not fit Index / negative index / not an integer
                else:
                    tag = "U"
    elif kind == "xml":
        i = rng.randrange(len(lines))
        role, t = lines[i]
        which = rng.choice(["no-gt", "no-lt", "no-close", "wrong-close", "no-quote", "extra-lt", "empty", "bad-name", "both-slash"])
        if role in ("blank", "comment", "trailer", "info", "info-open", "info-close") + CONTENT_ROLES:
            which = "no-close"
        ts = t.rstrip(" \t\r")
        if which == "no-gt" and ts.endswith(">"):
            lines[i] = (role, ts[:-1]); tag = "R"
        elif which == "no-lt" and t.lstrip(" \t").startswith("<"):
            lines[i] = (role, t.lstrip(" \t")[1:]); tag = "R"
        elif which == "no-close":
            c = idx_of(("verts-close", "topo-close", "map-close", "attr-close", "mesh-close", "part-close", "ps-close",
                        "patch-close", "root-close"))
            j = rng.choice(c)
            del lines[j]
            tag = "R"
        elif which == "wrong-close" and role.endswith("-close"):
            lines[i] = (role, "</Wrong>"); tag = "R"
        elif which == "no-quote" and '"' in t:
            p = rng.choice([m.start() for m in re.finditer('"', t)])
            lines[i] = (role, t[:p] + t[p + 1:]); tag = "R"
        elif which == "extra-lt" and ts.endswith(">") and len(ts) > 3:
            p = rng.randrange(1, len(ts) - 1)
            lines[i] = (role, ts[:p] + rng.choice("<>") + ts[p:]); tag = "U"
        elif which == "empty" and ts.endswith(">"):
            lines[i] = (role, rng.choice(["<>", "< >", "</>", "< / >", "</ >"])); tag = "R"
        elif which == "bad-name" and role.endswith("-open"):
            lines[i] = (role, re.sub(r"<(\w)", lambda m: "<" + rng.choice(["1", "_", "-", "!"]) + m.group(1), t, 1)); tag = "R"
        elif which == "both-slash" and role.endswith("-open"):
            lines[i] = (role, "</" + ts.lstrip(" \t")[1:-1] + "/>"); tag = "R"
    elif kind == "attr":
        c = idx_of(("root", "mesh-open", "part-open", "topo-open", "map-open", "attr-open", "ps-open", "patch-open"))
        i = rng.choice(c)
        role, t = lines[i]
        which = rng.choice(["unknown", "missing", "dup", "elem"])
        if which == "unknown":
            ts = t.rstrip(" \t\r")
            lines[i] = (role, ts[:-1] + ' bogus="1">'); tag = "R"
        elif which == "missing":
            m = list(re.finditer(r'\s(\w+)\s*=\s*"[^"]*"', t))
            if m:
                mm = rng.choice(m)
                optional = (mm.group(1) in ("mesh", "name", "priority", "level") and role in ("root", "ps-open")) or \
                    (mm.group(1) == "chart" and role == "part-open") or (mm.group(1) == "domain")
                lines[i] = (role, t[:mm.start()] + t[mm.end():])
                tag = "U" if optional else "R"
        elif which == "dup":
            m = list(re.finditer(r'\s(\w+)\s*=\s*"[^"]*"', t))
            if m:
                mm = rng.choice(m)
                ts = t.rstrip(" \t\r")
                # a repeated attribute key: the first occurrence wins (std::map::emplace)
                lines[i] = (role, ts[:-1] + mm.group(0) + ">"); tag = "U"
        else:
            lines[i] = (role, re.sub(r"<(\w+)", lambda m: "<" + rng.choice(["Mesh", "Foo", "Patch", "Vertices", "Topology"]), t, 1))
            tag = "U"
    elif kind == "swap-lines":
        if len(lines) > 3:
            i = rng.randrange(1, len(lines) - 2)
            lines[i], lines[i + 1] = lines[i + 1], lines[i]
    elif kind == "closed":
        c = idx_of(("mesh-open", "part-open", "verts-open", "topo-open", "map-open", "attr-open"))
        if c:
            i = rng.choice(c)
            role, t = lines[i]
            ts = t.rstrip(" \t\r")
            lines[i] = (role, ts[:-1] + "/>"); tag = "R"
    elif kind == "tokmut":
        i = rng.randrange(len(lines))
        role, t = lines[i]
        toks = re.split(r"(\s+)", t)
        if toks:
            k = rng.randrange(len(toks))
            if rng.random() < 0.5:
                del toks[k]
            else:
                toks.insert(k, toks[k])
            lines[i] = (role, "".join(toks))
    if text is None:
        text = "\n".join(t for _, t in lines) + "\n"
    if kind == "bytes":
        b = bytearray(text.encode("latin-1"))
        for _ in range(rng.choice([1, 1, 2, 4])):
            if not b:
                break
            p = rng.randrange(len(b))
            w = rng.random()
            if w < 0.35:
                b[p] ^= 1 << rng.randrange(8)
            elif w < 0.6:
                b[p] = rng.choice([0, 7, 8, 9, 10, 11, 12, 13, 32, 34, 45, 47, 60, 61, 62, 255, rng.randrange(256)])
            elif w < 0.8:
                b.insert(p, rng.choice([10, 32, 34, 47, 60, 62, 48 + rng.randrange(10), rng.randrange(256)]))
            else:
                del b[p]
        text = b.decode("latin-1")
        tag = "U"
    return add_recognised(tag, text), text, kind


# =================================================================================================
# property maps
# =================================================================================================

def gen_ini_tree(rng, depth=0):
    keychars = "abcdefgABCDEFG0123_-.:/"
    ents = {}
    for _ in range(rng.choice([0, 1, 2, 3, 5])):
        k = "".join(rng.choice(keychars) for _ in range(rng.choice([1, 2, 4])))
        if rng.random() < 0.15:
            k += " " + rng.choice(keychars)
        v = rng.choice(["", "1", "true", "a b  c", "x=y", "[v]", "{", "}", "3.5e-2", "path/to/file.txt", "a&b", "&x", "it's \"q\""])
        ents[k] = v
    secs = {}
    if depth < 3:
        for _ in range(rng.choice([0, 0, 1, 2, 3]) if depth else rng.choice([0, 1, 2, 3])):
            nm = "".join(rng.choice(keychars) for _ in range(rng.choice([1, 3, 5])))
            if rng.random() < 0.15:
                nm += rng.choice([" x", "]y", "[z", "=w", " = {"])
            secs[nm] = gen_ini_tree(rng, depth + 1)
    return {"e": ents, "s": secs}


def ini_insert_entry(node, k, v, replace):
    for kk in node["e"]:
        if kk.lower() == k.lower():
            if replace:
                node["e"][kk] = v
            return
    node["e"][k] = v


def print_ini(rng, tree, fancy=True):
    """prints the tree in a random admissible surface form; returns (lines, expected_tree)"""
    out = []
    exp = {"e": {}, "s": {}}

    def ws():
        return rng.choice(["", "", " ", "  ", "\t"]) if fancy else ""

    def emit(s):
        if fancy and rng.random() < 0.08:
            out.append(rng.choice(["", "   ", "# full comment line", "\t# x = y"]))
        out.append(s)

    def entry(k, v, ind):
        line = ind + ws() + k + ws() + "=" + ws()
        if fancy and len(v) >= 2 and rng.random() < 0.25 and "#" not in v:
            p = rng.randrange(1, len(v))
            # continuation: the pieces are trimmed, so do not split next to a blank
            if v[p - 1] not in " \t" and v[p] not in " \t":
                emit(line + v[:p] + "&" + rng.choice(["", " ", " # cont"]))
                if rng.random() < 0.3:
                    out.append("  ")
                emit(ind + ws() + v[p:] + ws())
                return
        emit(line + v + (ws() + "# " + rng.choice(["c", "k = v", "[s]"]) if fancy and rng.random() < 0.15 else ws()))

    def rec(node, enode, depth):
        ind = "  " * depth if not fancy else rng.choice(["", "  " * depth, "\t"])
        items = list(node["e"].items())
        if fancy:
            rng.shuffle(items)
        for k, v in items:
            entry(k, v, ind)
            ini_insert_entry(enode, k, v, True)
        secs = list(node["s"].items())
        if fancy:
            rng.shuffle(secs)
        for nm, sub in secs:
            key = None
            for kk in enode["s"]:
                if kk.lower() == nm.lower():
                    key = kk
            if key is None:
                key = nm
                enode["s"][key] = {"e": {}, "s": {}}
            emit(ind + "[" + ws() + nm + ws() + "]" + ws())
            flat = fancy and not sub["s"] and rng.random() < 0.3
            if flat:
                # brace-less section: entries up to the next section marker belong to it
                for k, v in sub["e"].items():
                    entry(k, v, ind)
                    ini_insert_entry(enode["s"][key], k, v, True)
                # must be followed by a section marker or EOF - ensured by emitting the remaining
                # sections afterwards (entries of this level were emitted before)
            else:
                emit(ind + "{" + ws())
                rec(sub, enode["s"][key], depth + 1)
                emit(ind + "}" + (ws() + "# end" if fancy and rng.random() < 0.3 else ws()))

    rec(tree, exp, 0)
    return out, exp


def expected_ini_dump(t):
    o = []

    def rec(n):
        ks = sorted(n["e"].items(), key=lambda kv: kv[0].lower())
        o.append("E %d" % len(ks))
        for k, v in ks:
            o.append(hx(k) + " " + hx(v))
        ss = sorted(n["s"].items(), key=lambda kv: kv[0].lower())
        o.append("S %d" % len(ss))
        for k, v in ss:
            o.append(hx(k))
            rec(v)

    rec(t)
    return " ".join(o)


def mutate_ini(rng, lines):
    lines = list(lines)
    k = rng.choice(["del", "dup", "brace", "unbrace", "noeq", "bytes", "bytes", "trunc", "swap"])
    if not lines:
        return "\n"
    i = rng.randrange(len(lines))
    if k == "del":
        del lines[i]
    elif k == "dup":
        lines.insert(i, lines[i])
    elif k == "brace":
        lines.insert(i, rng.choice(["{", "}", "[]", "[ ]", "[x", "x]", "{}", "&", "= 5", "@include f"]))
    elif k == "unbrace":
        c = [j for j, l in enumerate(lines) if l.strip().split("#")[0].strip() in ("{", "}")]
        if c:
            del lines[rng.choice(c)]
    elif k == "noeq":
        lines[i] = lines[i].replace("=", " ", 1)
    elif k == "swap" and len(lines) > 1:
        j = rng.randrange(len(lines) - 1)
        lines[j], lines[j + 1] = lines[j + 1], lines[j]
    text = "\n".join(lines) + "\n"
    if k == "trunc":
        text = text[:rng.randrange(len(text))]
    if k == "bytes":
        b = bytearray(text.encode("latin-1"))
        for _ in range(rng.choice([1, 2, 3])):
            if not b:
                break
            p = rng.randrange(len(b))
            w = rng.random()
            if w < 0.4:
                b[p] = rng.choice([10, 32, 35, 38, 61, 91, 93, 123, 125, 9, 13, rng.randrange(256)])
            elif w < 0.7:
                b.insert(p, rng.choice([10, 32, 35, 38, 61, 91, 93, 123, 125]))
            else:
                del b[p]
        text = b.decode("latin-1")
    return text


# =================================================================================================
# XML soup for the scanner stream
# =================================================================================================

def gen_xml_tree(rng):
    """random well-formed document in the scanner's dialect + the expected event list"""
    lines = []
    events = []
    wsp = [" ", " ", "\t", "  "]

    def name():
        return rng.choice("abcXYZq") + "".join(rng.choice("abc019XZ") for _ in range(rng.choice([0, 1, 3])))

    def push(s):
        if rng.random() < 0.1:
            lines.append(rng.choice(["", "  ", "\t\r", "\x07", "\x0b\x0c"]))
        if rng.random() < 0.08:
            lines.append("<!-- c -->")
        lines.append(rng.choice(["", " ", "\t", "\x08 "]) + s + rng.choice(["", " ", "\r", "\x0b"]))
        return len(lines)

    def elem(depth, root=False):
        nm = name()
        attrs = {}
        for _ in range(rng.choice([0, 0, 1, 2, 3])):
            k = name()
            v = rng.choice(["", "1", "a b", "x=y", "p/q", "/", "it's", "  padded  ", "a\tb"])
            if k not in attrs:
                attrs[k] = v
        closed = (not root) and rng.random() < 0.3
        s = "<" + rng.choice(["", " "]) + nm
        for k, v in attrs.items():
            s += rng.choice(wsp) + k + rng.choice(["=", " =", "= ", " = "]) + '"' + v + '"'
        s += (rng.choice(["/", " /", " / "]) if closed else rng.choice(["", " "])) + ">"
        ln = push(s)
        ev = "C:%d:%s:%d:%d" % (ln, hx(nm), 1 if closed else 0, len(attrs))
        for k in sorted(attrs, key=lambda z: z.encode("latin-1")):
            ev += ":%s=%s" % (hx(k), hx(attrs[k].strip(" \x07\x08\x0c\n\r\t\x0b")))
        events.append(ev)
        if closed:
            events.append("X:%d" % ln)
            return
        for _ in range(rng.choice([0, 1, 2, 3]) if depth < 3 else 0):
            if rng.random() < 0.5:
                elem(depth + 1)
            else:
                t = rng.choice(["1 2 3", "text", "a = b", "x / y", "\"q\"", "0.5 1e3", "&amp;"])
                ln = push(t)
                events.append("T:%d:%s" % (ln, hx(t)))
        ln = push("</" + rng.choice(["", " "]) + nm + rng.choice(["", " "]) + ">")
        events.append("X:%d" % ln)

    elem(0, root=True)
    # the first line must be the root markup (read_root does not skip comments, but skips blank lines)
    while lines and lines[0].strip(" \x07\x08\x0c\n\r\t\x0b") == "":
        break
    return lines, events


def gen_scan_cases(rng, n, mesh_texts):
    cases = []
    for _ in range(n):
        k = rng.random()
        if k < 0.35:
            lines, events = gen_xml_tree(rng)
            nonblank = [l for l in lines if l.strip(" \x07\x08\x0c\n\r\t\x0b")]
            # read_root does not skip comments: a document whose first non-blank line is a comment is a SyntaxError
            exp = None if nonblank[0].startswith("<!--") else "OK " + " ".join(events)
            cases.append(("scan " + hx("\n".join(lines) + "\n"), exp))
        elif k < 0.7:
            lines, _ = gen_xml_tree(rng)
            b = bytearray(("\n".join(lines) + "\n").encode("latin-1"))
            for _ in range(rng.choice([1, 2, 3])):
                p = rng.randrange(len(b))
                w = rng.random()
                if w < 0.4:
                    b[p] = rng.choice([10, 32, 34, 47, 60, 61, 62, 33, 45, 7, 9, rng.randrange(256)])
                elif w < 0.7:
                    b.insert(p, rng.choice([10, 32, 34, 47, 60, 61, 62, 33, 45]))
                else:
                    del b[p]
            cases.append(("scan " + hx(bytes(b)), None))
        else:
            cases.append(("scan " + hx(rng.choice(mesh_texts)), None))
    return cases


# =================================================================================================
# graphs
# =================================================================================================
MAGIC = 0x5052474A44413346


def gen_graph_cases(rng, n):
    cases = []
    for _ in range(n):
        k = rng.random()
        n_dom = rng.choice([1, 1, 2, 3, 5, 8])
        n_img = rng.choice([0, 1, 2, 3, 7])
        adj = [[rng.randrange(n_img) for _ in range(rng.choice([0, 0, 1, 2, 4]))] if n_img else [] for _ in range(n_dom)]
        if k < 0.6:
            cases.append("graph %d %d %s" % (n_img, n_dom, " ".join(" ".join(map(str, [len(l)] + l)) for l in adj)))
        else:
            ptr = [0]
            idx = []
            for l in adj:
                idx += l
                ptr.append(len(idx))
            if rng.random() < 0.15:
                w = [MAGIC, 40, 0, n_img, 0]
            else:
                w = [MAGIC, 8 * (5 + len(ptr) + len(idx)), n_dom, n_img, len(idx)] + ptr + idx
            cases.append("gbytes %d %s" % (len(w), " ".join(map(str, w))))
    return cases


# =================================================================================================
# oracle
# =================================================================================================
STATS = {"malformed_total": 0, "malformed_past_scanner": 0, "malformed_reached_content": 0, "runtime_decided": 0,
         "known_defect_inputs": {}, "mutation_kinds": {}, "must_reject": 0, "must_accept": 0}
EXPECT = {}        # case line -> expected dump / events (valid streams)
KIND = {}          # case line -> mutation kind
EXPECT_CLASS = {}  # case line -> the documented exception class a (formerly defective) corpus input must end with


def outcome_class(out):
    if out.startswith("OK"):
        return "ok"
    if out.startswith("ERR "):
        return out.split()[1]
    if out.startswith("NOTYPE") or out.startswith("QTRANS") or out.startswith("NA"):
        return "notype"
    h = out.split(":")[0]
    if h == "SANITIZER":
        return "sanitizer-asan" if out.startswith("SANITIZER:asan") else "sanitizer-ubsan"
    if h == "TIMEOUT":
        return "timeout"
    if h in ("ABORT", "SIGNAL", "EXIT"):
        return "abort"
    if h == "EXC":
        return "other-exception"
    return "garbled"


CRASH = ("abort", "timeout", "other-exception", "sanitizer-asan", "sanitizer-ubsan", "garbled")

# defect class (FINDINGS_C11.md / KNOWN_FINDINGS.json "c11-edge:K<n>") -> the failure kinds that class explains.
# Used by `signature` only: the oracle judges every case against the property text; a failure whose kind is not
# explained by a class recognised in the *input* gets a "c11-new:" signature and is a VIOLATION.
K_KINDS = {
    # recognised in arbitrary text: explains crashes only
    "1": ("abort", "timeout", "other-exception", "sanitizer-asan", "sanitizer-ubsan"),
    # class 1 attached BY CONSTRUCTION (the mutator replaced a count / dimension / rank token by a huge number):
    # besides crashing, the value may simply be stored
    "B": ("abort", "timeout", "other-exception", "sanitizer-asan", "sanitizer-ubsan", "accepted", "rterr", "rtdiff"),
    # K14: BezierChartParser::close checks nothing (no <Points> block: the writer reads an empty deque; several
    #      <Points> blocks: more points than the declared size are accepted)
    "F": ("sanitizer-ubsan", "sanitizer-asan", "abort", "accepted"),
    # K15: SurfaceMesh triangle vertex indices are not checked against the declared number of vertices
    "G": ("accepted", "sanitizer-asan"),
    # K16: BezierPointsParser: (num_ctrl+1)*2+1 wraps around for a huge control point count -> std::out_of_range
    "H": ("other-exception",),
    # K17: a <SurfaceMesh> chart in a file whose mesh type has shape dimension <= 2 (surface / curve in a 3D world)
    #      reaches the disabled SurfaceMeshChartParser: XABORTM("Thou shall not arrive here")
    "I": ("abort",),
}
K_ORDER = "B1FGHI"
K_NAME = {"B": "1", "F": "14", "G": "15", "H": "16", "I": "17"}


def first_content_line(text):
    ls = text.split("\n")
    for i, l in enumerate(ls):
        if re.match(r"\s*<(Vertices|Topology|Mapping|Attribute|Patch)\b", l):
            return i + 2      # 1-based number of the line after the opening markup
    return None


def oracle_mesh(case, out):
    _, tag, h = case.split(" ", 2)
    exp, classes = split_tag(tag)      # only `exp` (known by construction) may create a failure below
    cls = outcome_class(out)
    malformed = case in KIND
    if malformed:
        STATS["malformed_total"] += 1
        text = unhx(h)
        fc = first_content_line(text)
        toks = out.split()
        if cls == "ok" or cls in ("GrammarError", "ContentError", "LinkerError") or \
                (cls == "SyntaxError" and int(toks[2]) > 2):
            STATS["malformed_past_scanner"] += 1
        if cls == "ok" or (cls in DOC_ERR and fc is not None and len(toks) > 2 and int(toks[2]) >= fc):
            STATS["malformed_reached_content"] += 1
    if classes:
        STATS["known_defect_inputs"]["K" + classes] = STATS["known_defect_inputs"].get("K" + classes, 0) + 1
    if cls in CRASH:
        return "memory error / hang / undocumented termination: " + out[:120]
    if cls == "notype":
        return None
    if case in EXPECT_CLASS and cls != EXPECT_CLASS[case]:
        return "expected the documented %s, got %s" % (EXPECT_CLASS[case], out[:80])
    if exp == "R":
        STATS["must_reject"] += 1
        if cls == "ok":
            return "input violating its declared counts/dimensions/index ranges/syntax was accepted"
        return None
    if cls != "ok":
        if exp == "A":
            return "valid mesh file rejected: " + out[:120]
        return None
    # accepted: the dump must be internally consistent and the two generations must agree
    body, _, rt = out.partition(" RT")
    if not rt:
        return "no round-trip verdict in output"
    if rt.startswith("ERR"):
        return "the writer's output of an accepted file is rejected by the reader:" + rt
    flags = rt.split()
    if exp == "A":
        STATS["must_accept"] += 1
    if flags != ["1", "1"]:
        return "second generation differs (structure equal=%s, bytes equal=%s)" % tuple(flags[:2])
    dump = body[3:].split(" W ")[0].strip()
    why = check_dump_wf(dump)
    if why:
        return why
    # recogniser self-test (statistics only, never a verdict): an accepted file in which the text re-reader misses a
    # block means the re-reader, not FEAT, is wrong (it does not implement the scanner's lexical rules exactly)
    if incomplete_input(unhx(h)):
        STATS["recogniser_divergence"] = STATS.get("recogniser_divergence", 0) + 1
    if case in EXPECT and dump != EXPECT[case]:
        return "parsed structure differs from the generated one: got %s expected %s" % (dump[:300], EXPECT[case][:300])
    return None


def incomplete_input(text):
    """independent reading of the *input*: a compound element that lacks a whole child block for a dimension it declares
    with non-zero size (or a mandatory block).  Returns a description or None.  Only meaningful for accepted files."""
    text = text.translate({7: 32, 8: 32})      # FEAT's white-space set also contains \a and \b
    m = re.search(r"<Mesh\b([^>]*)>(.*?)</Mesh\s*>", text, re.S)
    if m:
        mm = re.search(r'size\s*=\s*"\s*([^"]*?)\s*"', m.group(1))
        if mm:
            dim = len(mm.group(1).split()) - 1
            if not re.search(r"<Vertices\b", m.group(2)):
                return "Mesh without Vertices block"
            dims = set(int(x) for x in re.findall(r'<Topology\b[^>]*?dim\s*=\s*"\s*[+]?(\d+)', m.group(2)))
            for d in range(1, dim + 1):
                if d not in dims:
                    return "Mesh without Topology block of dimension %d" % d
    for m in re.finditer(r"<MeshPart\b([^>]*)>(.*?)</MeshPart\s*>", text, re.S):
        mm = re.search(r'size\s*=\s*"\s*([^"]*?)\s*"', m.group(1))
        if not mm:
            continue
        sizes = []
        for tk in mm.group(1).split():
            x = re.match(r"[+]?(\d+)", tk)
            sizes.append(int(x.group(1)) if x else 0)
        mdims = set(int(x) for x in re.findall(r'<Mapping\b[^>]*?dim\s*=\s*"\s*[+]?(\d+)', m.group(2)))
        tdims = set(int(x) for x in re.findall(r'<Topology\b[^>]*?dim\s*=\s*"\s*[+]?(\d+)', m.group(2)))
        full = re.search(r'topology\s*=\s*"\s*full', m.group(1)) is not None
        for d, n in enumerate(sizes):
            if n > 0 and d not in mdims:
                return "MeshPart declares %d entities of dimension %d but has no Mapping block for it" % (n, d)
            if full and d >= 1 and n > 0 and d not in tdims:
                return "MeshPart with full topology declares %d entities of dimension %d but has no Topology block" % (n, d)
    return None


def check_dump_wf(dump):
    """declared counts = actual counts, topology indices < vertex count (independent reading of the dump)"""
    t = dump.split()
    p = 0

    def nxt():
        nonlocal p
        p += 1
        return t[p - 1]

    try:
        assert nxt() == "M"
        have = nxt() == "1"
        sizes = None
        if have:
            # sizes up to the V token
            sizes = []
            while t[p] != "V":
                sizes.append(int(nxt()))
            nxt()
            nv = int(nxt())
            if nv != sizes[0]:
                return "vertex count %d differs from declared %d" % (nv, sizes[0])
            dim = len(sizes) - 1
            # the coordinates (world dimension x vertex count rationals "a/b") run up to the first T / NP token
            q0 = p
            while t[p] not in ("T", "NP"):
                p += 1
            if nv > 0 and (p - q0) % nv != 0:
                return "vertex coordinates are not a multiple of the vertex count"
            for d in range(1, dim + 1):
                assert nxt() == "T"
                dd, cnt, ni = int(nxt()), int(nxt()), int(nxt())
                if dd != d or cnt != sizes[d]:
                    return "topology %d has %d entities, declared %d" % (d, cnt, sizes[d])
                for _ in range(cnt * ni):
                    if int(nxt()) >= nv:
                        return "topology index out of the vertex range"
        assert nxt() == "NP"
        for _ in range(int(nxt())):
            assert nxt() == "P"
            nxt(); nxt()
            has_topo = nxt() == "1"
            psz = []
            while t[p] != "MAP":
                psz.append(int(nxt()))
            nxt()
            for d in range(len(psz)):
                cnt = int(nxt())
                if cnt != psz[d]:
                    return "mesh part mapping of dimension %d has %d entries, declared %d" % (d, cnt, psz[d])
                for _ in range(cnt):
                    i = int(nxt())
                    if sizes is not None and i >= sizes[d]:
                        return "mesh part mapping index %d of dimension %d is not an entity of the root mesh (%d)" % (i, d, sizes[d])
            if has_topo:
                for d in range(1, len(psz)):
                    assert nxt() == "T"
                    dd, cnt, ni = int(nxt()), int(nxt()), int(nxt())
                    if cnt != psz[d]:
                        return "mesh part topology %d has %d entities, declared %d" % (d, cnt, psz[d])
                    for _ in range(cnt * ni):
                        if int(nxt()) >= psz[0]:
                            return "mesh part topology index out of the part's vertex range"
            assert nxt() == "NA"
            for _ in range(int(nxt())):
                assert nxt() == "A"
                nxt()
                ad, nvals = int(nxt()), int(nxt())
                if nvals != psz[0]:
                    return "attribute has %d values, the mesh part has %d vertices" % (nvals, psz[0])
                p += ad * nvals
        assert nxt() == "NPS"
        for _ in range(int(nxt())):
            assert nxt() == "PS"
            nxt(); nxt(); nxt()
            nr, ne = int(nxt()), int(nxt())
            tot = 0
            for _ in range(nr):
                deg = int(nxt())
                tot += deg
                for _ in range(deg):
                    if int(nxt()) >= ne:
                        return "patch element index out of range"
            if tot != ne:
                return "partition declares %d elements but its patches contain %d" % (ne, tot)
        return None
    except (IndexError, ValueError, AssertionError) as e:
        return "unparsable dump (%s)" % e


def oracle_scan(case, out):
    cls = outcome_class(out)
    if cls in CRASH or cls == "notype":
        return "scanner: memory error / hang / undocumented termination: " + out[:120]
    if case in EXPECT and out != EXPECT[case]:
        return "scanner events differ from the generated document: got %s expected %s" % (out[:300], EXPECT[case][:300])
    return None


def oracle_ini(case, out):
    cls = outcome_class(out)
    if cls in CRASH or cls == "notype":
        return "property map: memory error / hang / undocumented termination: " + out[:120]
    if cls != "ok":
        if case in EXPECT:
            return "valid property file rejected"
        return None
    body, _, rt = out.partition(" RT")
    dump = body[3:].split(" W ")[0].strip()
    # known inadmissible class: a key starting with '[' whose value ends with ']' (only reachable through '&')
    toks = dump.split()
    inadm = False
    for i, tk in enumerate(toks[:-1]):
        if tk.startswith("x") and toks[i + 1].startswith("x") and len(tk) > 1:
            try:
                k, v = unhx(tk), unhx(toks[i + 1])
            except Exception:
                continue
            if k.startswith("[") and v.endswith("]"):
                inadm = True
    if rt.split() != ["1", "1"]:
        if inadm:
            STATS["known_defect_inputs"]["K7"] = STATS["known_defect_inputs"].get("K7", 0) + 1
        return "property map second generation differs%s:%s" % (" [key '[..' with value '..]']" if inadm else "", rt)
    if case in EXPECT and dump != EXPECT[case]:
        return "parsed property tree differs: got %s expected %s" % (dump[:300], EXPECT[case][:300])
    return None


def oracle_graph(case, out):
    if not (out.startswith("B ") or out.startswith("G ")):
        return "graph serialisation ended with " + out[:100]
    t = case.split()
    o = out.split()
    try:
        if t[0] in ("graph", "graphdef"):
            if t[0] == "graph":
                n_img, n_dom = int(t[1]), int(t[2])
                p = 3
                adj = []
                for _ in range(n_dom):
                    k = int(t[p]); adj.append([int(x) for x in t[p + 1:p + 1 + k]]); p += 1 + k
            else:
                n_img, n_dom, adj = 0, 0, []
            idx = [x for l in adj for x in l]
            ptr = [0]
            for l in adj:
                ptr.append(ptr[-1] + len(l))
            assert o[0] == "B"
            nb, nw = int(o[1]), int(o[2])
            words = [int(x) for x in o[3:3 + nw]]
            if nb != 8 * nw or words[0] != MAGIC or words[1] != nb or words[2:5] != [n_dom, n_img, len(idx)]:
                return "serialised header wrong: %s" % words[:5]
            if n_dom > 0 and words[5:] != ptr + idx:
                return "serialised payload wrong"
            q = 3 + nw
            assert o[q] == "G"
            g = [int(x) for x in o[q + 1:q + 4]]
            if g != [n_dom, n_img, len(idx)]:
                return "deserialised sizes %s" % g
            q += 4
            k = int(o[q]); gptr = [int(x) for x in o[q + 1:q + 1 + k]]; q += 1 + k
            k = int(o[q]); gidx = [int(x) for x in o[q + 1:q + 1 + k]]; q += 1 + k
            if n_dom > 0 and (gptr != ptr or gidx != idx):
                return "deserialised graph differs"
            assert o[q] == "RT"
            if o[q + 1] != "1":
                return "re-serialising the deserialised graph does not reproduce the bytes"
            return None
        if t[0] == "gbytes":
            w = [int(x) for x in t[2:]]
            n_dom, n_img, ni = w[2], w[3], w[4]
            assert o[0] == "G"
            if [int(x) for x in o[1:4]] != [n_dom, n_img, ni]:
                return "deserialised sizes wrong"
            q = 4
            k = int(o[q]); gptr = [int(x) for x in o[q + 1:q + 1 + k]]; q += 1 + k
            k = int(o[q]); gidx = [int(x) for x in o[q + 1:q + 1 + k]]; q += 1 + k
            if n_dom > 0 and (gptr != w[5:5 + n_dom + 1] or gidx != w[5 + n_dom + 1:]):
                return "deserialised arrays wrong"
            assert o[q] == "B"
            nw = int(o[q + 2])
            if [int(x) for x in o[q + 3:q + 3 + nw]] != w:
                return "serialise(deserialise(buffer)) differs from the buffer"
            return None
    except (IndexError, ValueError, AssertionError) as e:
        return "unparsable output (%s): %s" % (e, out[:200])
    return None


def gen_double_case(rng):
    """hypercube:2:2 mesh with long decimal coordinates; returns (case, expected '%g' strings of the coordinates)"""
    nv = rng.choice([1, 2, 4, 7])
    coords = []
    for _ in range(2 * nv):
        k = rng.random()
        if k < 0.3:
            coords.append("%d" % rng.randrange(-1000, 1000))
        elif k < 0.7:
            coords.append("%s%d.%s" % (rng.choice(["", "-"]), rng.randrange(0, 2000), "".join(rng.choice("0123456789") for _ in range(rng.randrange(1, 14)))))
        else:
            coords.append("%d.%de%+d" % (rng.randrange(1, 10), rng.randrange(0, 10 ** 9), rng.randrange(-30, 30)))
    ne, nq = rng.choice([1, 2, 3]), rng.choice([1, 2])
    lines = ['<FeatMeshFile version="1" mesh="conformal:hypercube:2:2">',
             '<Mesh type="conformal:hypercube:2:2" size="%d %d %d">' % (nv, ne, nq), "<Vertices>"]
    lines += ["%s %s" % (coords[2 * i], coords[2 * i + 1]) for i in range(nv)]
    lines += ["</Vertices>", '<Topology dim="1">'] + ["%d %d" % (rng.randrange(nv), rng.randrange(nv)) for _ in range(ne)]
    lines += ["</Topology>", '<Topology dim="2">'] + [" ".join(str(rng.randrange(nv)) for _ in range(4)) for _ in range(nq)]
    lines += ["</Topology>", "</Mesh>", "</FeatMeshFile>"]
    case = "meshd A " + hx("\n".join(lines) + "\n")
    return case, ["%g" % float(c) for c in coords]


def oracle_meshd(case, out):
    cls = outcome_class(out)
    if case not in EXPECT:
        # chart sweep at double: crash / hang / undocumented exception, and the construction verdict
        exp, _ = split_tag(case.split(" ", 2)[1])
        if cls in CRASH:
            return "memory error / hang / undocumented termination: " + out[:120]
        if exp == "R" and cls == "ok":
            return "input violating its declared counts/dimensions/index ranges/syntax was accepted"
        if exp == "A" and cls not in ("ok", "notype"):
            return "valid mesh file rejected: " + out[:120]
        if cls == "ok" and " RTERR" in out:
            return "the writer's output of an accepted file is rejected by the reader:" + out.split(" RTERR", 1)[1][:60]
        return None
    if cls != "ok":
        return "double-precision round trip of a valid file ended with " + out[:100]
    body, _, rt = out.partition(" RT")
    if rt.split() != ["1", "1"]:
        return "double precision: second generation differs:" + rt
    w1 = unhx(body.split(" W ")[1].strip())
    m = re.search(r"<Vertices>\n(.*?)</Vertices>", w1, re.S)
    got = m.group(1).split() if m else None
    if got != EXPECT[case]:
        return "written coordinates %s are not the 6-significant-digit forms %s" % (got, EXPECT[case])
    return None


def oracle(case, out):
    op = case.split(" ", 1)[0]
    if op == "meshd":
        return oracle_meshd(case, out)
    if op == "mesh":
        return oracle_mesh(case, out)
    if op == "scan":
        return oracle_scan(case, out)
    if op == "ini":
        return oracle_ini(case, out)
    return oracle_graph(case, out)


def canon(out):
    # abnormal terminations: compare on the class only
    h = out.split(":")[0]
    if out.startswith("UNMODELLED") or out.startswith("ABORT:Q:_division_by_zero"):
        return "NA"          # not modelled chart kind / degenerate circle domain in exact arithmetic
    if out.startswith("ABORT:Q:_transcendental"):
        return "QTRANS"      # harness limitation: the chart needs sin/cos at parse time, not available in exact arithmetic
    if h == "SANITIZER":
        return "SANITIZER:asan" if out.startswith("SANITIZER:asan") else "SANITIZER:ubsan"
    if h in ("ABORT", "EXC", "SIGNAL", "EXIT"):
        return h
    return out


def nontrivial(case):
    op = case.split(" ", 1)[0]
    if op == "mesh":
        text = unhx(case.split(" ", 2)[2])
        return first_content_line(text) is not None
    if op in ("scan", "ini"):
        return len(case) > 60
    return len(case.split()) > 4


def describe(case):
    t = case.split(" ", 2)
    keys = ["op:" + t[0]]
    if t[0] == "mesh":
        keys.append("tag:" + t[1])
        if case in KIND:
            keys.append("mut:" + KIND[case])
        m = re.search(r"conformal:(\w+):(\d)", unhx(t[2])[:200])
        if m:
            keys.append("shape:%s%s" % (m.group(1)[0], m.group(2)))
    return keys


def failure_kind(out, why):
    cls = outcome_class(out)
    if cls in CRASH:
        return cls
    if why and why.startswith("the writer's output"):
        return "rterr"
    if why and why.startswith("input violating"):
        return "accepted"
    if why and why.startswith("second generation differs"):
        return "rtdiff"
    return "other"


def signature(case, out, why):
    """stable id of the defect class (KNOWN_FINDINGS.json): the class must be recognised in the input *and* explain the
    kind of failure; anything else is new"""
    t = case.split(" ", 2)
    op = t[0]
    if op in ("mesh", "meshd") and split_tag(t[1])[1]:
        kind = failure_kind(out, why)
        for d in K_ORDER:
            if d in split_tag(t[1])[1] and kind in K_KINDS[d]:
                return "c11-edge:K" + K_NAME.get(d, d)
    if op == "ini" and why and why.startswith("property map second generation differs [key"):
        return "c11-edge:K7"
    return "c11-new:%s:%s" % (op, (why or "")[:40])


def model_filter(case):
    t = case.split(" ", 2)
    if t[0] == "mesh":
        # known-defect classes end in crashes / runtime-decided behaviour on the implementation side; charts are
        # not modelled (tier B)
        if split_tag(t[1])[1]:
            return False        # huge declared counts: allocation failures are not modelled

        if re.search(r"<\s*(SurfaceMesh|Extrude)\b", unhx(t[2]).translate({7: 32, 8: 32})):
            return False        # chart kinds that are not modelled
    return True


# regression inputs of earlier findings (F10, F11) and of the defect classes of FINDINGS_C11.md
def corpus_cases():
    H = '<FeatMeshFile version="1" mesh="conformal:hypercube:2:2">\n'
    M = ('<Mesh type="conformal:hypercube:2:2" size="4 4 1">\n<Vertices>\n0 0\n1 0\n0 1\n1 1\n</Vertices>\n'
         '<Topology dim="1">\n0 1\n2 3\n0 2\n1 3\n</Topology>\n<Topology dim="2">\n0 1 2 3\n</Topology>\n</Mesh>\n')
    E = '</FeatMeshFile>\n'

    def part(body, attrs='topology="none" size="2"'):
        return '<MeshPart name="b" parent="root" %s>\n%s</MeshPart>\n' % (attrs, body)

    mp0 = '<Mapping dim="0">\n0\n3\n</Mapping>\n'
    CE, GE, LE = "ContentError", "GrammarError", "LinkerError"
    # (expectation, text, documented exception class the input must end with | None)
    c = [
        ("R", H + M + part('<Mapping dim="3">\n0\n3\n</Mapping>\n') + E, CE),                  # F11: dim == size
        ("R", H + M + part('<Mapping dim="2">\n0\n</Mapping>\n' + mp0, 'topology="none" size="2 0 0"') + E, CE),
        ("A", H + M + part(mp0) + E, None),
        # former K1 (fixed parts): attribute dimension beyond int, negative partition / mesh sizes
        ("R", H + M + part(mp0 + '<Attribute name="p" dim="2147483648">\n1\n1\n</Attribute>\n') + E, CE),
        ("R", H + M + part(mp0 + '<Attribute name="p" dim="99999999999">\n1\n1\n</Attribute>\n') + E, CE),
        ("R", H + M + '<Partition size="-1 4">\n</Partition>\n' + E, CE),
        ("R", H + M + '<Partition size="2 -1">\n</Partition>\n' + E, CE),
        ("R", H + '<Mesh type="conformal:hypercube:2:2" size="-1 4 1">\n</Mesh>\n' + E, CE),
        # K1 (open): a huge declared count is allocated before a single line is read
        ("RKB", H + '<Mesh type="conformal:hypercube:2:2" size="99999999999999 4 1">\n</Mesh>\n' + E, None),
        # former K2: duplicate chart name
        ("R", H + '<Chart name="c">\n<Circle radius="1" midpoint="0 0" />\n</Chart>\n<Chart name="c">\n'
              '<Circle radius="1" midpoint="0 0" />\n</Chart>\n' + M + E, CE),
        # former K3 / K4: mapping indices are validated against the root mesh (before the topology is deducted)
        ("R", H + M + part(mp0.replace("3", "1") + '<Mapping dim="1">\n7\n</Mapping>\n', 'topology="parent" size="2 1"') + E, LE),
        ("R", H + M + part('<Mapping dim="0">\n0\n4\n</Mapping>\n') + E, LE),
        ("R", H + M + part(mp0 + '<Mapping dim="2">\n1\n</Mapping>\n', 'topology="none" size="2 0 1"') + E, LE),
        ("A", H + M + part(mp0 + '<Mapping dim="2">\n0\n</Mapping>\n', 'topology="none" size="2 0 1"') + E, None),
        ("A", H + part('<Mapping dim="0">\n0\n400\n</Mapping>\n') + E, None),     # no root mesh: nothing to validate
        # topology="parent": complete vertex set (valid) / former K11: an entity whose vertices are not in the part
        ("A", H + M + part('<Mapping dim="0">\n1\n0\n</Mapping>\n<Mapping dim="1">\n0\n</Mapping>\n', 'topology="parent" size="2 1"') + E, None),
        ("R", H + M + part('<Mapping dim="0">\n0\n1\n</Mapping>\n<Mapping dim="1">\n1\n</Mapping>\n', 'topology="parent" size="2 1"') + E, LE),
        ("R", H + M + part('<Mapping dim="0">\n0\n1\n</Mapping>\n<Mapping dim="1">\n0\n</Mapping>\n<Mapping dim="2">\n0\n</Mapping>\n',
                             'topology="parent" size="2 1 1"') + E, LE),
        # former K12: parent part without edges but with a cell (the zero-below check now covers topology="parent")
        ("R", H + M + part('<Mapping dim="0">\n0\n1\n2\n3\n</Mapping>\n<Mapping dim="2">\n0\n</Mapping>\n',
                             'topology="parent" size="4 0 1"') + E, CE),
        ("A", H + M + part('<Mapping dim="0">\n0\n1\n2\n3\n</Mapping>\n<Mapping dim="1">\n0\n1\n2\n3\n</Mapping>\n'
                           '<Mapping dim="2">\n0\n</Mapping>\n', 'topology="parent" size="4 4 1"') + E, None),
        # Bezier charts: valid, malformed, and the open findings K14 / K16
        ("A", H + '<Chart name="c">\n<Bezier dim="2" size="3" type="closed" orientation="-1">\n<Points>\n0 0 0\n1 0.5 0.25 1 0\n0 0 0\n'
              '</Points>\n<Params>\n0\n1\n2\n</Params>\n</Bezier>\n</Chart>\n' + M + E, None),
        ("R", H + '<Chart name="c">\n<Bezier dim="3" size="2">\n<Points>\n0 0 0\n0 1 1\n</Points>\n</Bezier>\n</Chart>\n' + M + E, GE),
        ("R", H + '<Chart name="c">\n<Bezier dim="2" size="1">\n<Points>\n0 0 0\n</Points>\n</Bezier>\n</Chart>\n' + M + E, GE),
        ("R", H + '<Chart name="c">\n<Bezier dim="2" size="2" type="round">\n<Points>\n0 0 0\n0 1 1\n</Points>\n</Bezier>\n</Chart>\n' + M + E, CE),
        ("R", H + '<Chart name="c">\n<Bezier dim="2" size="2">\n<Points>\n0 0 0\n</Points>\n</Bezier>\n</Chart>\n' + M + E, GE),
        ("R", H + '<Chart name="c">\n<Bezier dim="2" size="2">\n<Points>\n1 0 0 1 1\n0 1 1\n</Points>\n</Bezier>\n</Chart>\n' + M + E, CE),
        ("R", H + '<Chart name="c">\n<Bezier dim="2" size="2">\n<Points>\n0 0 0\n0 1 1 1\n</Points>\n</Bezier>\n</Chart>\n' + M + E, CE),
        ("R", H + '<Chart name="c">\n<Bezier dim="2" size="2">\n<Points>\n0 0 0\n0 1 1\n</Points>\n<Params>\n0\n</Params>\n</Bezier>\n</Chart>\n' + M + E, GE),
        ("RKF", H + '<Chart name="c">\n<Bezier dim="2" size="2">\n</Bezier>\n</Chart>\n' + M + E, None),
        ("RKF", H + '<Chart name="c">\n<Bezier dim="2" size="2">\n<Points>\n0 0 0\n0 1 1\n</Points>\n<Points>\n0 2 2\n0 3 3\n</Points>\n'
                '</Bezier>\n</Chart>\n' + M + E, None),
        ("RKH", H + '<Chart name="c">\n<Bezier dim="2" size="2">\n<Points>\n0 0 0\n18446744073709551615\n</Points>\n</Bezier>\n</Chart>\n' + M + E, None),
        # charts: Circle with / without domain (2D), wrong kinds and malformed attributes
        ("A", H + '<Chart name="c">\n<Circle radius="0.5" midpoint="1 2" domain="0 4" >\n</Circle>\n</Chart>\n' + M + E, None),
        ("R", H + '<Chart name="c">\n<Sphere radius="0.5" midpoint="1 2 3" />\n</Chart>\n' + M + E, GE),
        ("R", H + '<Chart name="c">\n<Circle radius="0.000001" midpoint="1 2" />\n</Chart>\n' + M + E, GE),
        ("R", H + '<Chart name="c">\n<Circle radius="1" midpoint="1 2 3" />\n</Chart>\n' + M + E, GE),
        ("R", H + '<Chart name="c">\n<Circle radius="1" midpoint="1 2" domain="0" />\n</Chart>\n' + M + E, GE),
        ("R", H + '<Chart name="c">\n<Circle radius="1x" midpoint="1 2" />\n</Chart>\n' + M + E, GE),
        ("R", H + '<Chart name="c">\n</Chart>\n' + M + E, GE),
        ("R", H + '<Chart name="">\n<Circle radius="1" midpoint="1 2" />\n</Chart>\n' + M + E, GE),
        ("R", H + '<Chart name="c">\n<Circle radius="1" midpoint="1 2" />\n0 1\n</Chart>\n' + M + E, GE),
        ("R", H + M + part('<Mapping dim="0">\n-1\n</Mapping>\n', 'topology="none" size="1"') + E, CE),
        # former K5: numbers with trailing characters
        ("R", H + M.replace("0 1 2 3\n", "0 1 2 3x\n") + E, CE),
        ("R", H + M.replace('size="4 4 1"', 'size="4x 4 1"') + E, CE),
        ("R", H + M.replace("1 0\n", "1.5x 0\n", 1) + E, CE),
        ("R", H + M.replace('<Topology dim="1">', '<Topology dim="1.0">') + E, CE),
        # former K6: no entities of a dimension below the highest one
        ("R", H + '<Mesh type="conformal:hypercube:2:2" size="4 0 1">\n<Vertices>\n0 0\n1 0\n0 1\n1 1\n</Vertices>\n'
              '<Topology dim="1">\n</Topology>\n<Topology dim="2">\n0 1 2 3\n</Topology>\n</Mesh>\n' + E, CE),
        ("R", H + M + part('<Mapping dim="0">\n0\n</Mapping>\n<Mapping dim="2">\n0\n</Mapping>\n'
                           '<Topology dim="2">\n0 0 0 0\n</Topology>\n', 'topology="full" size="1 0 1"') + E, CE),
        # former K9: element-free partition (valid)
        ("A", H + M + '<Partition size="3 0">\n<Patch rank="0" size="0">\n</Patch>\n<Patch rank="1" size="0" />\n'
              '<Patch rank="2" size="0">\n</Patch>\n</Partition>\n' + E, None),
        # former K10: one patch per rank, declared number of elements
        ("R", H + M + '<Partition size="3 1">\n<Patch rank="0" size="1">\n0\n</Patch>\n</Partition>\n' + E, GE),
        ("R", H + M + '<Partition size="2 4" />\n' + E, GE),
        ("R", H + M + '<Partition size="2 2">\n<Patch rank="0" size="1">\n0\n</Patch>\n<Patch rank="0" size="1">\n1\n</Patch>\n'
              '</Partition>\n' + E, CE),
        ("R", H + M + '<Partition size="2 3">\n<Patch rank="0" size="1">\n0\n</Patch>\n<Patch rank="1" size="1">\n1\n</Patch>\n'
              '</Partition>\n' + E, GE),
        ("A", H + M + '<Partition size="2 2">\n<Patch rank="1" size="1">\n0\n</Patch>\n<Patch rank="0" size="1">\n1\n</Patch>\n'
              '</Partition>\n' + E, None),
        ("A", H + '<Chart name="c">\n<Circle radius="1" midpoint="0 0" domain="0 1" />\n</Chart>\n' + M +
              part(mp0, 'chart="c" topology="none" size="2"') + E, None),
        ("R", H + M + part(mp0, 'chart="nochart" topology="none" size="2"') + E, LE),
        ("A", '<FeatMeshFile version="1" mesh="conformal:hypercube:2:2">\n' + E, None),
        ("R", "", None),
        ("R", "\n\n", None),
        ("R", "<FeatMeshFile version=\"1\" mesh=\"conformal:hypercube:2:2\">", None),
    ]
    H3 = '<FeatMeshFile version="1" mesh="conformal:hypercube:3:3">\n'
    M3 = ('<Mesh type="conformal:hypercube:3:3" size="8 1 1 1">\n<Vertices>\n0 0 0\n1 0 0\n0 1 0\n1 1 0\n0 0 1\n1 0 1\n0 1 1\n1 1 1\n'
          '</Vertices>\n<Topology dim="1">\n0 1\n</Topology>\n<Topology dim="2">\n0 1 2 3\n</Topology>\n'
          '<Topology dim="3">\n0 1 2 3 4 5 6 7\n</Topology>\n</Mesh>\n')
    surf = lambda tri: ('<Chart name="c">\n<SurfaceMesh verts="3" trias="1">\n<Vertices>\n0 0 0\n1 0 0\n0 1 0.5\n</Vertices>\n<Triangles>\n'
                        + tri + '\n</Triangles>\n</SurfaceMesh>\n</Chart>\n')
    # mesh types embedded in a higher-dimensional world: a triangle surface in 3D, a line mesh in 2D
    S23 = '<FeatMeshFile version="1" mesh="conformal:simplex:2:3">\n'
    MS23 = ('<Mesh type="conformal:simplex:2:3" size="4 5 2">\n<Vertices>\n0 0 0\n1 0 0.5\n0 1 0.5\n1 1 0\n</Vertices>\n'
            '<Topology dim="1">\n0 1\n1 2\n2 0\n1 3\n3 2\n</Topology>\n<Topology dim="2">\n0 1 2\n1 3 2\n</Topology>\n</Mesh>\n')
    L12 = '<FeatMeshFile version="1" mesh="conformal:hypercube:1:2">\n'
    ML12 = ('<Mesh type="conformal:hypercube:1:2" size="3 2">\n<Vertices>\n0 0\n1 0.5\n2 0\n</Vertices>\n<Topology dim="1">\n0 1\n1 2\n'
            '</Topology>\n</Mesh>\n')
    prt = ('<MeshPart name="b" parent="root" topology="parent" size="2 1">\n<Mapping dim="0">\n1\n0\n</Mapping>\n<Mapping dim="1">\n0\n'
           '</Mapping>\n<Attribute name="n" dim="3">\n0 0 1\n1/3 0 2\n</Attribute>\n</MeshPart>\n')
    c += [("A", S23 + '<Chart name="s">\n<Sphere radius="1" midpoint="0 0 0.5" />\n</Chart>\n' + MS23 + prt + E, None),
          ("A", L12 + '<Chart name="c">\n<Circle radius="2" midpoint="1 0" />\n</Chart>\n' + ML12 + prt + E, None),
          ("R", S23 + MS23.replace("simplex:2:3", "simplex:2:2") + E, CE),          # header: world dimension differs
          ("R", S23 + MS23.replace("1 0 0.5\n", "1 0\n") + E, CE),               # 2 coordinates in a 3D world
          ("R", L12 + ML12.replace("1 0.5\n", "1 0.5 0\n") + E, CE),             # 3 coordinates in a 2D world
          ("R", L12 + '<Chart name="s">\n<Sphere radius="1" midpoint="0 0 0" />\n</Chart>\n' + ML12 + E, GE),   # 3D chart, 2D world
          ("RKI", S23 + surf("0 1 2") + MS23 + E, None)]                            # K17 (open): abort
    c += [("A", H3 + surf("0 1 2") + M3 + E, None),        # former K13: must round-trip
          ("RKG", H3 + surf("0 1 7") + M3 + E, None)]      # K15 (open): vertex index 7 of 3 vertices
    cases = []
    for tag, txt, cls in c:
        case = "mesh %s %s" % (tag, hx(txt))
        cases.append(case)
        if cls is not None:
            EXPECT_CLASS[case] = cls
    cases += ["graphdef", "graph 3 0", "graph 0 0", "graph 3 2 1 0 2 1 2",
              "ini 1 " + hx("[a = x&\nb]\n"), "ini 1 " + hx("k = v&\n"), "ini 1 " + hx("}\n"), "ini 1 " + hx("")]
    return cases




def sweep_struct(shape, dim, zero_dim=None, small=False, wdim=None):
    wdim = dim if wdim is None else wdim
    """fixed mesh node: root mesh, part `pf` with full topology, part `pn` without, one attribute each, one partition;
    every declared size is non-zero except (optionally) dimension `zero_dim` of both parts"""
    nv = 4
    sizes = [nv] + [1 if small else 2] * dim
    tup = lambda d, k: tuple((k + j) % nv for j in range(nverts(shape, d)))
    mesh = {"shape": shape, "dim": dim, "sizes": sizes, "wdim": wdim,
            "verts": [[Fraction(i + j, 2) for j in range(wdim)] for i in range(nv)],
            "topo": {d: [tup(d, k) for k in range(sizes[d])] for d in range(1, dim + 1)}}
    parts = []
    for nm, tt in (("pf", "full"), ("pn", "none")):
        psz = [1] * (dim + 1) if small else [3] + [2] * dim
        if zero_dim is not None:
            psz[zero_dim] = 0
            if tt == "full":
                # keep the full-topology part free of defect class 6 (interior zero below a non-zero count)
                for d in range(max(zero_dim, 1) + 1, dim + 1):
                    psz[d] = 0
                if zero_dim == 0:
                    psz = [0] * (dim + 1)
        p = {"name": nm, "topo_type": tt, "nsz": dim + 1, "sizes": psz,
             "maps": {d: [(d + i) % sizes[d] for i in range(psz[d])] for d in range(dim + 1)}, "topo": {},
             "attrs": [{"name": "a", "dim": 2, "vals": [[Fraction(i), Fraction(1, 3)] for i in range(psz[0])]}]}
        if tt == "full":
            p["topo"] = {d: [tuple((k + j) % psz[0] for j in range(nverts(shape, d))) for k in range(psz[d])]
                         for d in range(1, dim + 1)}
        parts.append(p)
    ps = [{"name": "p", "prio": 1, "level": 0, "nr": 3, "ne": 4, "ranks": [0, 1, 2], "patches": {0: [0, 1], 1: [2], 2: [3]}}]
    return {"mesh": mesh, "shape": shape, "dim": dim, "wdim": wdim, "parts": parts, "partitions": ps}


def sweep_cases():
    """deterministic sweep: for every shape, every child block (Vertices | Topology d | Mapping d | Attribute | Patch r) of
    every compound element is removed as a whole, once with all declared sizes non-zero (must reject) and once with the
    size of that dimension declared zero and the block absent (the reader allows the omission: must accept)"""
    rng = random.Random(0)
    cases = []
    for shape, dim, wdim, small in [(sh, d, w, sm) for sh, d, w in MESH_TYPES for sm in (False, True)]:
        st = sweep_struct(shape, dim, small=small, wdim=wdim)
        L = print_mesh_file(rng, st, fancy=False)
        base = "mesh A " + hx(L.text())
        EXPECT[base] = expected_dump(st)
        cases.append(base)
        for bk, i, j, tag in block_ranges(L.l):
            lines = L.l[:i] + L.l[j + 1:]
            text = "\n".join(t for _, t in lines) + "\n"
            case = "mesh %s %s" % (add_recognised(tag, text), hx(text))
            KIND[case] = "sweep:" + bk
            cases.append(case)
        for zd in range(dim + 1):
            st0 = sweep_struct(shape, dim, zero_dim=zd, small=small, wdim=wdim)
            L0 = print_mesh_file(rng, st0, fancy=False)     # the printer omits Mapping/Topology blocks of size 0
            c0 = "mesh %s %s" % (add_recognised("A", L0.text()), hx(L0.text()))
            EXPECT[c0] = expected_dump(st0)
            cases.append(c0)
    return cases


NUM_RE = re.compile(r"(?<![\w.])[-+]?\d+(?:\.\d*)?(?:[eE][-+]?\d+)?(?![\w.])")


def number_variants(num):
    """by-construction replacements of one number: (variant name, new token)"""
    v = [("zero", "0"), ("tiny", "1e-7"), ("huge", "1e30"), ("nan", "nan"), ("inf", "inf"),
         ("lead-minus", "-" + num[1:]), ("lead-dot", "." + num[1:]), ("lead-x", "x" + num[1:])]
    v.append(("flip", num[1:] if num[0] == "-" else "-" + num.lstrip("+")))
    return v


def chart_number_cases(prefix, chart, suffix, ops, label):
    """every number of the chart block `chart` replaced by every variant, one at a time.  Verdict by construction:
    a token that is not a number (nan, inf, x...) must be rejected; a radius outside the chart constructor's domain
    (radius > 0: sign flip, zero; the readers additionally reject |radius| < 1E-5) must be rejected with the
    documented exception; everything else is undetermined - but an abort / signal / sanitizer report is a failure for
    every input of every stream."""
    cases = []
    for m in NUM_RE.finditer(chart):
        ctx = chart[max(0, m.start() - 12):m.start()]
        is_radius = re.search(r'radius\s*=\s*"\s*$', ctx) is not None
        in_name = re.search(r'name\s*=\s*"[^"]*$', chart[:m.start()].split("\n")[-1]) is not None
        if in_name:
            continue
        for vname, tok in number_variants(m.group(0)):
            if tok == m.group(0):
                continue
            text = prefix + chart[:m.start()] + tok + chart[m.end():] + suffix
            if vname in ("nan", "inf", "lead-x"):
                tag = "R"
            elif is_radius and vname in ("flip", "zero", "tiny", "lead-minus"):
                tag = "R"
            else:
                tag = "U"
            tag = add_recognised(tag, text, valid=True)
            for op in ops:
                case = "%s %s %s" % (op, tag, hx(text))
                KIND[case] = "chart-sweep:%s:%s" % (label, vname)
                cases.append(case)
    return cases


def chart_sweep_cases(limit_bytes):
    """deterministic sweep over every numeric attribute / content number of every chart type the reader accepts"""
    H2 = '<FeatMeshFile version="1" mesh="conformal:hypercube:2:2">\n'
    M2 = ('<Mesh type="conformal:hypercube:2:2" size="4 4 1">\n<Vertices>\n0 0\n1 0\n0 1\n1 1\n</Vertices>\n'
          '<Topology dim="1">\n0 1\n2 3\n0 2\n1 3\n</Topology>\n<Topology dim="2">\n0 1 2 3\n</Topology>\n</Mesh>\n')
    H3 = '<FeatMeshFile version="1" mesh="conformal:hypercube:3:3">\n'
    M3 = ('<Mesh type="conformal:hypercube:3:3" size="8 1 1 1">\n<Vertices>\n0 0 0\n1 0 0\n0 1 0\n1 1 0\n0 0 1\n1 0 1\n0 1 1\n1 1 1\n'
          '</Vertices>\n<Topology dim="1">\n0 1\n</Topology>\n<Topology dim="2">\n0 1 2 3\n</Topology>\n'
          '<Topology dim="3">\n0 1 2 3 4 5 6 7\n</Topology>\n</Mesh>\n')
    E = '</FeatMeshFile>\n'
    co, cc = '<Chart name="c">\n', '</Chart>\n'
    circle = '<Circle radius="0.25" midpoint="0.5 1.5" domain="0 4" />\n'
    bezier = ('<Bezier dim="2" size="3" type="closed">\n<Points>\n0 0 0\n1 0.5 0.25 1 0\n0 0 0\n</Points>\n'
              '<Params>\n0\n1\n2\n</Params>\n</Bezier>\n')
    sphere = '<Sphere radius="0.25" midpoint="0.5 1.5 2.5" />\n'
    surf = ('<SurfaceMesh verts="3" trias="1">\n<Vertices>\n0 0 0\n1 0 0\n0 1 0.5\n</Vertices>\n<Triangles>\n0 1 2\n'
            '</Triangles>\n</SurfaceMesh>\n')
    ext_c = '<Extrude origin="0.5 0.25" offset="1 2 3" angles="0.125 0.25 0.5">\n' + circle + '</Extrude>\n'
    ext_b = '<Extrude>\n' + bezier + '</Extrude>\n'
    q, d = [], []
    for label, pre, chart, suf, qops, dops in [
            ("circle", H2 + co, circle, cc + M2 + E, ["mesh"], ["meshd"]),
            ("bezier", H2 + co, bezier, cc + M2 + E, ["mesh"], ["meshd"]),
            ("sphere", H3 + co, sphere, cc + M3 + E, ["mesh"], ["meshd"]),
            ("surfacemesh", H3 + co, surf, cc + M3 + E, ["mesh"], ["meshd"]),
            ("extrude-circle", H3 + co, ext_c, cc + M3 + E, [], ["meshd"]),
            ("extrude-bezier", H3 + co, ext_b, cc + M3 + E, [], ["meshd"])]:
        # the unmodified template must be accepted
        for op in qops:
            q.append("%s %s %s" % (op, add_recognised("A", pre + chart + suf, valid=True), hx(pre + chart + suf)))
        for op in dops:
            d.append("%s %s %s" % (op, add_recognised("A", pre + chart + suf, valid=True), hx(pre + chart + suf)))
        q += chart_number_cases(pre, chart, suf, qops, label)
        d += chart_number_cases(pre, chart, suf, dops, label)
    # shipped files: one-byte substitution of the leading character of the numbers of their chart blocks
    droot = os.path.join(vlib.REPO, "data", "meshes")
    if os.path.isdir(droot):
        for f in sorted(os.listdir(droot)):
            p = os.path.join(droot, f)
            if not f.endswith(".xml") or os.path.getsize(p) > limit_bytes:
                continue
            raw = open(p, "rb").read().decode("latin-1")
            if "<Chart" not in raw:
                continue
            mt = re.search(r'mesh="conformal:(\w+):(\d):(\d)"', raw[:300])
            dbl = mt is not None and mt.group(1) == "hypercube" and mt.group(2) == mt.group(3) and mt.group(2) in "23"
            k = 0
            for blk in re.finditer(r"<Chart\b.*?</Chart>", raw, re.S):
                for m in NUM_RE.finditer(blk.group(0)):
                    line = blk.group(0)[:m.start()].split("\n")[-1]
                    if re.search(r'name\s*=\s*"[^"]*$', line) or k >= 12:
                        continue
                    k += 1
                    pos = blk.start() + m.start()
                    is_radius = re.search(r'radius\s*=\s*"\s*$', raw[max(0, pos - 12):pos]) is not None
                    text = raw[:pos] + "-" + raw[pos + 1:]
                    tag = "R" if (is_radius and m.group(0)[0] not in "-") else "U"
                    case = "%s %s %s" % ("meshd" if dbl else "mesh", add_recognised(tag, text, valid=True), hx(text))
                    KIND[case] = "chart-sweep:shipped:lead-minus"
                    (d if dbl else q).append(case)
    return q, d


def shipped_cases(limit_bytes):
    d = os.path.join(vlib.REPO, "data", "meshes")
    cases = []
    if not os.path.isdir(d):
        return cases
    for f in sorted(os.listdir(d)):
        p = os.path.join(d, f)
        if f.endswith(".xml") and os.path.getsize(p) <= limit_bytes:
            raw = open(p, "rb").read()
            # files whose mesh parts refer to charts kept in a separate chart file are not self-contained
            # (MeshNodeLinkerError when parsed alone is the documented outcome)
            tag = "U" if (b"chart=" in raw and b"<Chart" not in raw) else "A"
            cases.append("mesh %s %s" % (tag, hx(raw)))
    return cases


def build(args):
    srcdir = os.path.join(vlib.VERIF, "harness", "c11")
    return vlib.build_harness("c11", os.path.join(srcdir, "main.cpp"),
                              extra_srcs=[os.path.join(srcdir, "mesh_%s.cpp" % k) for k in ("h1", "h2", "h3", "s2", "s3", "h2d", "h3d", "s2w3", "h2w3", "h1w2", "h1w3")],
                              extra_flags=["-fsanitize=address,undefined", "-fno-sanitize-recover=all", "-g"])


def main(argv):
    args = vlib.std_args(argv)
    t0 = time.time()
    rng = random.Random(args.seed * 1000003 + 11)
    lean = None if args.no_lean else vlib.lean_check(PROP, leanchecker=(args.tier == "thorough"))
    binary, err = build(args)
    if binary is None:
        v = [{"property": PROP, "kind": "harness-build-failure", "detail": err, "failing_input": None,
              "broken": "harness c11 does not compile against the current tree"}]
        return vlib.finish(PROP, args.tier, args.seed, t0, lean, [], [], v, [])
    quick = args.tier == "quick"
    drv = None if os.environ.get("C11_NOMODEL") else vlib.driver_cmd(PROP)
    env = {"VERIF_CASE_TIMEOUT": "10"}
    if args.replay:
        case = json.load(open(args.replay))["input"]
        streams = [vlib.Stream("replay", [case], [binary], drv, oracle=oracle, canon=canon, env=env,
                               model_filter=model_filter, signature=signature, describe=describe)]
        return vlib.run_pipeline(PROP, args.tier, args.seed, lean, streams, t0, replay_mode=True)

    n_valid = 350 if quick else 20000
    n_mal = 1500 if quick else 120000
    n_ini = 500 if quick else 40000
    n_scan = 500 if quick else 30000
    n_graph = 200 if quick else 10000

    valid, malformed, texts = [], [], []
    for i in range(n_valid):
        st = gen_mesh_struct(rng)
        L = print_mesh_file(rng, st, fancy=(i % 4 != 0))
        text = L.text()
        case = "mesh %s %s" % (add_recognised("A", text, valid=True), hx(text))
        EXPECT[case] = expected_dump(st)
        valid.append(case)
        texts.append(text)
    for i in range(n_mal):
        st = gen_mesh_struct(rng, small=True)
        L = print_mesh_file(rng, st, fancy=(rng.random() < 0.3))
        tag, text, kind = mutate(rng, L, st)
        case = "mesh %s %s" % (tag, hx(text))
        KIND[case] = kind
        STATS["mutation_kinds"][kind] = STATS["mutation_kinds"].get(kind, 0) + 1
        malformed.append(case)
    ini = []
    for i in range(n_ini):
        tree = gen_ini_tree(rng)
        lines, exp = print_ini(rng, tree, fancy=(i % 3 != 0))
        if rng.random() < 0.5:
            case = "ini 1 " + hx("\n".join(lines) + ("\n" if rng.random() < 0.8 else ""))
            EXPECT[case] = expected_ini_dump(exp)
        else:
            case = "ini %d %s" % (rng.randrange(2), hx(mutate_ini(rng, lines)))
        ini.append(case)
    scan = []
    for case, exp in gen_scan_cases(rng, n_scan, texts):
        if exp is not None:
            EXPECT[case] = exp
        scan.append(case)
    graphs = gen_graph_cases(rng, n_graph)
    dbl = []
    for _ in range(n_graph):
        case, exp = gen_double_case(rng)
        EXPECT[case] = exp
        dbl.append(case)
    shipped = shipped_cases(40000 if quick else 400000)
    chart_q, chart_d = chart_sweep_cases(40000 if quick else 400000)

    mk = lambda name, cases, model=True: vlib.Stream(
        name, cases, [binary], drv if model else None, oracle=oracle, nontrivial=nontrivial, canon=canon, env=env,
        describe=describe, signature=signature, model_filter=model_filter)
    streams = [mk("corpus", corpus_cases()), mk("block-sweep", sweep_cases()), mk("mesh-valid", valid), mk("mesh-malformed", malformed),
               mk("ini", ini), mk("xml-scan", scan), mk("graph-bytes", graphs), mk("shipped-meshes", shipped),
               mk("mesh-double-precision", dbl, model=False),
               mk("chart-sweep", chart_q), mk("chart-sweep-double", chart_d, model=False)]
    rule = ("mesh files printed from random mesh nodes (5 shape types, 0-3 mesh parts with mappings/topology/attributes, "
            "0-2 partitions, surface variations: order, whitespace, comments, number formats) - non-trivial = has a "
            "Vertices/Topology/Mapping/Attribute/Patch block; malformed stream = 15 grammar-aware mutation kinds with "
            "R(eject)/A(ccept)/U tags; ini trees depth<=3; xml documents depth<=3; graphs <= 8 nodes")
    rc = vlib.run_pipeline(PROP, args.tier, args.seed, lean, streams, t0, assumptions=[
        "Index modelled as 64-bit unsigned via explicit wrap in the number reader; int as 32-bit",
        "coordinate I/O is the exact scalar's (harness/c11/q_io.hpp) - libc double formatting is not exercised",
        "Bezier / SurfaceMesh / Extrude charts are not modelled: such files are judged by the oracle only",
        "memory safety / termination are observed (ASan+UBSan, 10 s watchdog), not proved"],
        extra_cov={"rule": rule, "c11_stats": STATS})
    tot = max(1, STATS["malformed_total"])
    ratio = STATS["malformed_reached_content"] / tot
    vlib.log("[c11] malformed: %d, past scanner %.1f%%, reached a content parser %.1f%%" % (
        tot, 100.0 * STATS["malformed_past_scanner"] / tot, 100.0 * ratio))
    if rc == 0 and not args.replay and ratio < 0.4:
        print("VIOLATION property=C11 replay=- no-failing-input-found (malformed stream too shallow: %.2f)" % ratio)
        return 1
    return rc
