"""C20 - container lifetimes are memory-safe: arrays freed exactly once, no leaks.

One case = one history of lifetime operations over 8 container slots and 4 layout slots.  The harness executes
it on the real FEAT containers and prints the whole MemoryPool / container / layout state after every operation;
the Lean model (FeatModel.Model.Pool, `step`) does the same; the outputs are compared for equality.

The oracle below is independent of the Lean model: it is a reference semantics WITHOUT reference counts - arrays
are plain Python objects that stay alive exactly as long as some owning container/layout refers to them (garbage
collection), sharing is created only by the documented table (shallow clone: everything, layout/weak clone: index
arrays, same-type convert: arrays of equal type, adopt-data constructor, DenseVector<->Blocked convert, layouts,
range views).  From it the oracle derives what the property demands of every observed state: the pool holds
exactly the referenced arrays (no leak, nothing freed early), each with counter == number of owners and
bytes == padded size, every container shows exactly the expected contents (bystanders unchanged), documented
aborts are reported as aborts, and `MemoryPool::finalize()` passes at the end.
"""
import copy
import json
import os
import random
import time
from concurrent.futures import ThreadPoolExecutor

import vlib

PROP = "C20"
NSLOT, NLAY = 8, 4
SHALLOW, LAYOUT, WEAK, DEEP, ALLOCATE = 0, 1, 2, 3, 4


def esz(dt):
    return 8 if dt == 0 else 4


def isz(it):
    return 4 if it == 0 else 8


def padded(n):
    return n if n % 4 == 0 else n + (4 - n % 4)


def iota(v, n):
    return [v + i for i in range(n)]


# ---------------------------------------------------------------------------------------------
# reference semantics (garbage-collected arrays, no counters)
# ---------------------------------------------------------------------------------------------

class Arr:
    __slots__ = ("v", "esz")

    def __init__(self, vals, es):
        self.v = list(vals)
        self.esz = es


class Cont:
    def __init__(self, kind, dt, it, sidx):
        self.kind, self.dt, self.it = kind, dt, it
        self.elems, self.inds = [], []      # entries [arr|None, off, n]
        self.sidx = list(sidx)
        self.foreign = False

    def size(self):
        return self.sidx[0] if self.sidx else 0

    def emptied(self):
        self.elems, self.inds, self.sidx = [], [], []


class Lay:
    def __init__(self, lk, it, inds, sidx):
        self.lk, self.it, self.inds, self.sidx = lk, it, inds, list(sidx)


class Abort(Exception):
    """the operation violates a documented precondition: it must end in an abort (XASSERT / XABORT)"""
    outcome = "ABORT"


class Throws(Abort):
    """the operation is an error that the code reports by a C++ exception (never silently)"""
    outcome = "EXC"


class Invalid(Exception):
    """the op is outside the op language at this state (generator must not emit it)"""
    pass


DEFAULT_SIDX = {0: [0], 1: [0], 2: [0, 0, 0, 0], 3: [0, 0, 0, 0], 4: [0, 0, 0, 0, 0], 5: [0, 0, 0], 6: [0, 0, 0, 0, 0],
                7: [0, 0, 0, 0, 1], 8: [0, 0, 0, 0, 1]}


def fresh(vals, es):
    return [Arr(vals, es), 0, len(vals)] if len(vals) > 0 else [None, 0, 0]


def read(e):
    a, off, n = e
    return [] if a is None else a.v[off:off + n]


class Ref:
    def __init__(self):
        self.slots = [None] * NSLOT
        self.lays = [None] * NLAY
        self.flags = set()       # edge behaviours met in this history

    # ---- ownership -------------------------------------------------------------------------
    def owners(self):
        cnt = {}
        for c in self.slots:
            if c is not None and not c.foreign:
                for e in c.elems + c.inds:
                    if e[0] is not None:
                        cnt[id(e[0])] = cnt.get(id(e[0]), 0) + 1
        for L in self.lays:
            if L is not None:
                for e in L.inds:
                    if e[0] is not None:
                        cnt[id(e[0])] = cnt.get(id(e[0]), 0) + 1
        return cnt

    def live_arrays(self):
        seen = {}
        for c in self.slots:
            if c is not None and not c.foreign:
                for e in c.elems + c.inds:
                    if e[0] is not None:
                        seen[id(e[0])] = e[0]
        for L in self.lays:
            if L is not None:
                for e in L.inds:
                    if e[0] is not None:
                        seen[id(e[0])] = e[0]
        return seen

    def dangling(self):
        live = self.live_arrays()
        for c in self.slots:
            if c is not None and c.foreign:
                for e in c.elems:
                    if e[0] is not None and id(e[0]) not in live:
                        return True
        return False

    def has_null(self):
        for c in self.slots:
            if c is not None and any(e[0] is None for e in c.elems + c.inds):
                return True
        for L in self.lays:
            if L is not None and any(e[0] is None for e in L.inds):
                return True
        return False

    # ---- operations ------------------------------------------------------------------------
    def need_dead(self, a):
        if not (0 <= a < len(self.slots)) or self.slots[a] is not None:
            raise Invalid("slot %d not free" % a)

    def need_alive(self, a):
        if not (0 <= a < len(self.slots)) or self.slots[a] is None:
            raise Invalid("slot %d not alive" % a)
        return self.slots[a]

    def share(self, e):
        """become a co-owner of an array: only possible through a pointer to the start of an allocation"""
        if e[0] is None:
            return [None, 0, e[2]]       # the null pointer of a zero-sized array: nothing to own
        if e[1] != 0:
            raise Abort("address inside an allocation is not a pool key")
        return [e[0], 0, e[2]]

    def apply(self, t):
        op = t[0]
        if op == "SLOTS":
            if any(c is not None for c in self.slots):
                raise Invalid("SLOTS must come first")
            self.slots = [None] * int(t[1])
            return
        if op == "T2":
            # the tuple operation must be equivalent to its two component operations, in order
            self.apply(t[2])
            self.apply(t[3])
            return
        a = [int(x) for x in t[1:]]
        if op == "new":
            s, k, dt, it, n, v = a
            self.need_dead(s)
            if k not in (0, 1):
                raise Invalid("kind")
            c = Cont(k, dt, it, [n])
            ln = n if k == 0 else 2 * n
            if n > 0:
                c.elems = [fresh(iota(v, ln), esz(dt))]
            self.slots[s] = c
        elif op == "mat":
            s, k, dt, it, r, cc, p, v, variant = a
            self.need_dead(s)
            if k not in (2, 3) or r == 0 or cc == 0:
                raise Invalid("mat")
            bs = 1 if k == 2 else 4
            nnz = r * p
            c = Cont(k, dt, it, [r * cc, r, cc, nnz])
            if not (variant == 0 and nnz == 0):
                c.inds = [fresh([i % max(p, 1) for i in range(nnz)], isz(it)), fresh([i * p for i in range(r + 1)], isz(it))]
                c.elems = [fresh(iota(v, nnz * bs), esz(dt))]
            self.slots[s] = c
        elif op == "band":
            s, dt, it, r, noff, v = a
            self.need_dead(s)
            if r == 0:
                raise Invalid("band")
            if noff == 0:
                c = Cont(4, dt, it, DEFAULT_SIDX[4])
            else:
                # diagonal number j above the main diagonal of an r x r matrix has r - j entries
                c = Cont(4, dt, it, [r * r, r, r, sum(r - j for j in range(noff)), noff])
                c.elems = [fresh(iota(v, r * noff), esz(dt))]
                c.inds = [fresh(iota(r - 1, noff), isz(it))]
            self.slots[s] = c
        elif op == "mk":
            s, k, dt, it, n, v = a
            self.need_dead(s)
            if k not in (5, 6, 7, 8) or (n == 0 and k < 7):
                raise Invalid("mk")
            if k == 5:       # DenseMatrix n x 2
                c = Cont(5, dt, it, [2 * n, n, 2])
                c.elems = [fresh(iota(v, 2 * n), esz(dt))]
            elif k == 6:     # CSCR 3 x 2, n entries in one used row
                c = Cont(6, dt, it, [6, 3, 2, n, 1])
                c.elems = [fresh(iota(v, n), esz(dt))]
                c.inds = [fresh([i % 2 for i in range(n)], isz(it)), fresh([0, n], isz(it)), fresh([0], isz(it))]
            else:            # SparseVector / SparseVectorBlocked<2> of size n+3 with n entries
                ln = n if k == 7 else 2 * n
                c = Cont(k, dt, it, [n + 3, n, n, n + 3, 1])
                c.elems = [fresh(iota(v, ln), esz(dt))]
                c.inds = [fresh(iota(0, n), isz(it))]
            self.slots[s] = c
        elif op == "adopt":
            s, b = a
            self.need_dead(s)
            cb = self.need_alive(b)
            if cb.kind > 1:
                raise Invalid("adopt kind")
            n = cb.size()
            c = Cont(cb.kind, cb.dt, cb.it, [n])
            if n > 0:
                e = self.share(cb.elems[0])
                e[2] = n if cb.kind == 0 else 2 * n
                c.elems = [e]
            self.slots[s] = c
        elif op == "range":
            s, b, n, off = a
            self.need_dead(s)
            cb = self.need_alive(b)
            if cb.kind > 1:
                raise Invalid("range kind")
            if n == 0 or n + off > cb.size():
                if cb.kind == 0:
                    raise Abort("range exceeds the vector")
                raise Invalid("blocked range constructor has no checks")
            e = cb.elems[0]
            c = Cont(cb.kind, cb.dt, cb.it, [n])
            m = 1 if cb.kind == 0 else 2
            c.elems = [[e[0], e[1] + m * off, m * n]]
            c.foreign = True
            self.slots[s] = c
        elif op == "clone":
            s, b, mode, fill = a
            cb = self.need_alive(b)
            ca = self.slots[s]
            if ca is not None and ca.kind != cb.kind:
                raise Invalid("clone kind")
            if s == b:
                raise Abort("self clone")
            dt, it = (cb.dt, cb.it) if ca is None else (ca.dt, ca.it)
            cross = (dt, it) != (cb.dt, cb.it)
            if cb.foreign and (mode != DEEP or cross):
                raise Abort("range views can only be deep-cloned (and never converted)")
            c = Cont(cb.kind, dt, it, cb.sidx)
            for e in cb.inds:
                if mode == ALLOCATE:
                    c.inds.append(fresh(iota(fill, e[2]), isz(it)))
                elif mode == DEEP or it != cb.it:
                    c.inds.append(fresh(read(e), isz(it)))
                else:
                    c.inds.append(self.share(e))
            for e in cb.elems:
                if mode in (ALLOCATE, LAYOUT):
                    c.elems.append(fresh(iota(fill, e[2]), esz(dt)))
                elif mode in (DEEP, WEAK) or dt != cb.dt:
                    c.elems.append(fresh(read(e), esz(dt)))
                else:
                    c.elems.append(self.share(e))
            self.slots[s] = c
        elif op == "conv":
            s, b, dt, it = a
            cb = self.need_alive(b)
            ca = self.slots[s]
            if ca is not None and ca.kind != cb.kind:
                raise Invalid("conv kind")
            if cb.kind >= 7:
                # SparseVector(Blocked)::convert is documented as "a deep copy in any case" (sort(); clone(other))
                if s == b:
                    raise Abort("sparse vector convert is a clone: self-clone aborts")
                tdt, tit = (dt, it) if ca is None else (ca.dt, ca.it)
                c = Cont(cb.kind, tdt, tit, cb.sidx)
                c.elems = [fresh(read(e), esz(tdt)) for e in cb.elems]
                c.inds = [fresh(read(e), isz(tit)) for e in cb.inds]
                self.slots[s] = c
                return
            if s == b:
                return            # x.convert(x) is a no-op (checked before anything else, also for a range view)
            if cb.foreign:
                raise Abort("convert from a range view is forbidden")
            if ca is not None:
                dt, it = ca.dt, ca.it
            c = Cont(cb.kind, dt, it, cb.sidx)
            c.elems = [self.share(e) if dt == cb.dt else fresh(read(e), esz(dt)) for e in cb.elems]
            c.inds = [self.share(e) if it == cb.it else fresh(read(e), isz(it)) for e in cb.inds]
            self.slots[s] = c
        elif op == "xconv":
            s, b = a
            cb = self.need_alive(b)
            ca = self.slots[s]
            if cb.kind > 1:
                raise Invalid("xconv kind")
            if ca is not None and (ca.kind != 1 - cb.kind or ca.dt != cb.dt or ca.it != cb.it):
                raise Invalid("xconv types")
            if cb.kind == 0 and cb.size() % 2 != 0:
                raise Abort("odd size cannot be blocked")
            if ca is not None and cb.foreign:
                # the target is cleared before the source is read: if that drops the last owner of the viewed
                # array the view dangles while it is used - outside the guard of the property (DESIGN F14)
                self.slots[s] = None
                dang = self.dangling()
                self.slots[s] = ca
                if dang:
                    raise Invalid("range view would dangle during the operation")
            n = cb.size() // 2 if cb.kind == 0 else cb.size() * 2
            c = Cont(1 - cb.kind, cb.dt, cb.it, [n])
            if cb.elems:
                e = self.share(cb.elems[0])
                e[2] = cb.size() // 2 * 2 if cb.kind == 0 else cb.size() * 2
                c.elems = [e]
            # an empty source owns no array: the result is the empty vector of the converted size
            self.slots[s] = c
        elif op == "move":
            s, b = a
            cb = self.need_alive(b)
            ca = self.slots[s]
            if ca is not None and (ca.kind, ca.dt, ca.it) != (cb.kind, cb.dt, cb.it):
                raise Invalid("move types")
            if s == b:
                return
            c = Cont(cb.kind, cb.dt, cb.it, cb.sidx)
            c.elems, c.inds, c.foreign = cb.elems, cb.inds, cb.foreign
            cb.emptied()          # the moved-from object keeps its flag, owns nothing
            self.slots[s] = c
        elif op == "copy":
            s, b, full = a
            ca = self.need_alive(s)
            cb = self.need_alive(b)
            if (ca.kind, ca.dt, ca.it) != (cb.kind, cb.dt, cb.it) or ca.kind >= 7:
                raise Invalid("copy types")
            if s == b:
                return
            if len(ca.elems) != len(cb.elems) or len(ca.inds) != len(cb.inds) or len(ca.sidx) != len(cb.sidx):
                raise Abort("container size mismatch")
            if [e[2] for e in ca.elems] != [e[2] for e in cb.elems] or \
                    (full and [e[2] for e in ca.inds] != [e[2] for e in cb.inds]):
                raise Abort("container size mismatch")
            # copy() writes INTO the target's existing arrays (memcpy): visible to every sharing relative
            pairs = (list(zip(ca.inds, cb.inds)) if full else []) + list(zip(ca.elems, cb.elems))
            for d, q in pairs:
                if d[0] is None or (d[0] is q[0] and d[1] == q[1]):
                    continue
                vals = read(q)
                d[0].v[d[1]:d[1] + d[2]] = vals
            if full:
                ca.sidx = list(cb.sidx)
        elif op == "clear":
            ca = self.need_alive(a[0])
            ca.emptied()
            ca.foreign = False
        elif op == "destroy":
            self.need_alive(a[0])
            self.slots[a[0]] = None
        elif op == "format":
            ca = self.need_alive(a[0])
            for e in ca.elems:
                if e[0] is not None:
                    e[0].v[e[1]:e[1] + e[2]] = [a[1]] * e[2]
        elif op == "write":
            s, w, j, i, v = a
            ca = self.need_alive(s)
            arrs = ca.elems if w == 0 else ca.inds
            if j >= len(arrs) or i >= arrs[j][2] or arrs[j][0] is None:
                raise Invalid("write position")
            arrs[j][0].v[arrs[j][1] + i] = v
        elif op == "lay":
            l, s = a
            ca = self.need_alive(s)
            if not (0 <= l < NLAY) or ca.kind not in (2, 3, 4, 6):
                raise Invalid("lay")
            lk = 1 if ca.kind == 4 else 2 if ca.kind == 6 else 0
            old = self.lays[l]
            if old is not None and (old.lk != lk or old.it != ca.it):
                raise Invalid("lay types")
            self.lays[l] = Lay(lk, ca.it, [self.share(e) for e in ca.inds], ca.sidx)
        elif op == "mlay":
            s, l, k, dt, fill = a
            if not (0 <= l < NLAY) or self.lays[l] is None:
                raise Invalid("mlay layout")
            L = self.lays[l]
            ca = self.slots[s]
            if ca is not None:
                k, dt = ca.kind, ca.dt
                if ca.it != L.it:
                    raise Invalid("mlay index type")
            if k not in (2, 3, 4, 6) or (1 if k == 4 else 2 if k == 6 else 0) != L.lk:
                raise Invalid("mlay kind")
            need = 5 if k == 4 else 4
            if len(L.sidx) < need:
                # the layout of a moved-from / cleared matrix, or a moved-from layout object, has no scalars: the
                # constructor / assignment reads `_scalar_index.at(..)` and reports std::out_of_range (a reported
                # error, not a silent one; nothing was acquired before, so nothing leaks)
                raise Throws("matrix from a layout without scalars")
            ne = L.sidx[3] if k in (2, 6) else L.sidx[3] * 4 if k == 3 else L.sidx[1] * L.sidx[4]
            c = Cont(k, dt, L.it, L.sidx)
            c.inds = [self.share(e) for e in L.inds]
            c.elems = [fresh(iota(fill, ne), esz(dt))]
            self.slots[s] = c
        elif op == "lmove":
            d, src = a
            if not (0 <= d < NLAY and 0 <= src < NLAY) or self.lays[src] is None:
                raise Invalid("lmove")
            Ls, Ld = self.lays[src], self.lays[d]
            if d == src:
                return                      # self-move: nothing happens
            if Ld is not None and (Ld.lk != Ls.lk or Ld.it != Ls.it):
                raise Invalid("lmove types")
            # move construction (free slot) / move assignment: the target now holds the source's arrays (what it held
            # before is dropped), the source holds nothing; no array gains or loses a holder on the way
            self.lays[d] = Lay(Ls.lk, Ls.it, Ls.inds, Ls.sidx)
            self.lays[src] = Lay(Ls.lk, Ls.it, [], [])
        elif op == "lvec":
            pass                            # round trip through std::vector / a by-value member: nothing changes
        elif op == "ldrop":
            l = a[0]
            if not (0 <= l < NLAY) or self.lays[l] is None:
                raise Invalid("ldrop")
            self.lays[l] = None
        else:
            raise Invalid("unknown op " + op)

    # ---- rendering (the harness format) -------------------------------------------------------
    def render(self):
        cnt = self.owners()
        live = self.live_arrays()
        names = {}
        out = [";", "S", str(len(live)), str(sum(padded(len(x.v)) * x.esz for x in live.values()))]

        def arr(e):
            a, off, n = e
            if a is None:
                return ["-", str(n), "0"]
            if id(a) not in live:
                return ["?", str(n), "0"]
            if id(a) not in names:
                names[id(a)] = len(names)
            return ["#%d+%d:%d:%d" % (names[id(a)], off, cnt[id(a)], padded(len(a.v)) * a.esz), str(n), str(n)] + \
                [str(x) for x in a.v[off:off + n]]

        for s, c in enumerate(self.slots):
            if c is None:
                continue
            out += ["C", str(s), str(c.kind), str(c.dt), str(c.it), "1" if c.foreign else "0", str(len(c.sidx))]
            out += [str(x) for x in c.sidx]
            out += ["E", str(len(c.elems))]
            for e in c.elems:
                out += arr(e)
            out += ["I", str(len(c.inds))]
            for e in c.inds:
                out += arr(e)
        for l, L in enumerate(self.lays):
            if L is None:
                continue
            out += ["L", str(l), str(L.lk), str(L.it), str(len(L.sidx))] + [str(x) for x in L.sidx]
            out += ["I", str(len(L.inds))]
            for e in L.inds:
                out += arr(e)
        out += ["O", "0"]
        return out


OP_ARITY = {"SLOTS": 1, "lmove": 2, "lvec": 1, "copy": 3, "mk": 6, "new": 6, "mat": 9, "band": 6, "adopt": 2, "range": 4, "clone": 4, "conv": 4, "xconv": 2, "move": 2,
            "clear": 1, "destroy": 1, "format": 2, "write": 5, "lay": 2, "mlay": 5, "ldrop": 1, "end": 0}


def split_ops(case):
    t = case.split()
    ops, i = [], 0
    while i < len(t):
        if t[i] == "T2":
            # one TupleVector operation = two component operations executed as one step
            if i + 2 >= len(t):
                return None
            n1 = OP_ARITY.get(t[i + 2])
            if n1 is None or i + 3 + n1 >= len(t):
                return None
            j = i + 3 + n1
            n2 = OP_ARITY.get(t[j])
            if n2 is None:
                return None
            ops.append(["T2", t[i + 1], t[i + 2:i + 3 + n1], t[j:j + 1 + n2]])
            i = j + 1 + n2
            continue
        n = OP_ARITY.get(t[i])
        if n is None:
            return None
        ops.append(t[i:i + 1 + n])
        i += 1 + n
    return ops


def flat(t):
    """token list of one (possibly composite) op"""
    return t if t[0] != "T2" else ["T2", t[1]] + t[2] + t[3]


# ---------------------------------------------------------------------------------------------
# oracle
# ---------------------------------------------------------------------------------------------

def canon(out):
    if out.startswith("ABORT"):
        return "ABORT"
    if out.startswith("EXC"):
        return "EXC"
    return out


def oracle(case, out):
    ops = split_ops(case)
    if ops is None:
        return None
    ref = Ref()
    exp_steps = []
    expect_abort = None
    for k, t in enumerate(ops):
        if t[0] == "end":
            live = ref.live_arrays()
            if live:
                exp_steps.append(None)   # never the case for generated histories (everything destroyed)
            else:
                exp_steps.append([";", "END", "0", "0", "FIN"])
            break
        try:
            ref.apply(t)
        except Abort as e:
            expect_abort = (k, t, str(e), e.outcome)
            break
        except Invalid as e:
            return None          # not a history of the op language; nothing to judge
        if t[0] != "SLOTS":
            exp_steps.append(ref.render())
    if expect_abort is not None:
        if out == expect_abort[3]:
            return None
        return "step %d (%s): a documented precondition violation (%s) must be reported by %s, got: %s" % (
            expect_abort[0], " ".join(flat(expect_abort[1])), expect_abort[2], expect_abort[3], out[:120])
    if out.split(":")[0] in ("ABORT", "EXC", "TIMEOUT", "SIGNAL", "SANITIZER", "EXIT") or out.startswith("BAD-OP"):
        if out == "EXIT:1":
            return "MemoryPool::finalize() found leaked chunks after all containers were destroyed (exit 1)"
        return "a valid lifetime history ended abnormally: %s" % out[:160]
    parts = out.split(" ; ")
    if parts[0] != "H" or len(parts) - 1 != len(exp_steps):
        return "output has %d steps, expected %d" % (len(parts) - 1, len(exp_steps))
    if ops and ops[0][0] == "SLOTS":
        ops = ops[1:]
    for k, (got, exp) in enumerate(zip(parts[1:], exp_steps)):
        g = [";"] + got.split()
        if exp is None:
            return "history does not destroy everything"
        if g != exp:
            # find the first differing token for the message
            j = 0
            while j < min(len(g), len(exp)) and g[j] == exp[j]:
                j += 1
            what = classify_diff(g, exp, j)
            return "after step %d (%s): %s; observed '%s' expected '%s'" % (
                k, " ".join(flat(ops[k])), what, " ".join(g[max(0, j - 3):j + 6]), " ".join(exp[max(0, j - 3):j + 6]))
    return None


def classify_diff(g, exp, j):
    if g[1] == "S" and exp[1] == "S" and j in (2, 3):
        if int(g[2]) > int(exp[2]):
            return "the pool holds more chunks than are referenced (leak)"
        if int(g[2]) < int(exp[2]):
            return "a chunk that is still referenced is gone (freed early)"
        return "allocated bytes differ"
    tok = g[j] if j < len(g) else ""
    if tok.startswith("#") or tok in ("?", "-"):
        return "array identity / reference counter / allocation size differs"
    if j >= 1 and g[j - 1] == "O":
        return "chunks without owner in the pool (leak)"
    return "observable container state differs (contents, sizes or flags)"


# ---------------------------------------------------------------------------------------------
# generator
# ---------------------------------------------------------------------------------------------

def gen_history(rng, length, selfbias=0.0):
    """random valid history (zero-sized arrays included); `selfbias`: extra probability of x.convert(x) / x = move(x)"""
    ref = Ref()
    ops = []
    tries = 0
    while len(ops) < length and tries < length * 30:
        tries += 1
        t = propose(rng, ref, selfbias)
        if t is None:
            continue
        trial = copy.deepcopy(ref)
        try:
            trial.apply(t)
        except (Abort, Invalid, IndexError):
            continue
        if trial.dangling() or trial.flags:
            continue
        ref = trial
        ops.append(t)
    # tear down in random order (containers and layouts interleaved), never leaving a view dangling
    pending = [("destroy", s) for s in range(NSLOT) if ref.slots[s] is not None] + \
              [("ldrop", l) for l in range(NLAY) if ref.lays[l] is not None]
    rng.shuffle(pending)
    guard = 0
    while pending and guard < 200:
        guard += 1
        name, k = pending.pop(0)
        trial = copy.deepcopy(ref)
        trial.apply([name, str(k)])
        if trial.dangling():
            pending.append((name, k))
            continue
        ref = trial
        ops.append([name, str(k)])
    ops.append(["end"])
    return " ".join(" ".join(t) for t in ops)


def propose(rng, ref, selfbias=0.0):
    alive = [s for s in range(NSLOT) if ref.slots[s] is not None]
    dead = [s for s in range(NSLOT) if ref.slots[s] is None]
    lal = [l for l in range(NLAY) if ref.lays[l] is not None]
    S = str
    if alive and selfbias > 0 and rng.random() < selfbias:
        b = rng.choice(alive)
        if rng.random() < 0.7:
            return ["conv", S(b), S(b), S(rng.randrange(2)), S(rng.randrange(2))]
        return ["move", S(b), S(b)]
    r = rng.random()
    if not alive or (dead and r < 0.16):
        if not dead:
            return None
        a = rng.choice(dead)
        k = rng.choice([0, 0, 1, 2, 2, 3, 4, 5, 6, 7, 8])
        dt, it = rng.randrange(2), rng.randrange(2)
        v = rng.randrange(1, 90)
        if k >= 5:
            return ["mk", S(a), S(k), S(dt), S(it), S(rng.choice([1, 2, 3, 4] if k < 7 else [0, 1, 2, 3])), S(v)]
        if k <= 1:
            return ["new", S(a), S(k), S(dt), S(it), S(rng.choice([0, 1, 2, 3, 4, 5, 6, 8])), S(v)]
        if k == 4:
            rr = rng.choice([1, 2, 3, 4])
            return ["band", S(a), S(dt), S(it), S(rr), S(rng.randrange(0, rr + 1)), S(v)]
        rr, cc = rng.choice([1, 2, 3]), rng.choice([1, 2, 3])
        return ["mat", S(a), S(k), S(dt), S(it), S(rr), S(cc), S(rng.randrange(0, cc + 1)), S(v), S(rng.randrange(2))]
    b = rng.choice(alive)
    cb = ref.slots[b]
    anyslot = rng.randrange(NSLOT)
    samekind = [s for s in alive if ref.slots[s].kind == cb.kind]
    tgt = rng.choice(dead) if dead and rng.random() < 0.5 else (rng.choice(samekind) if samekind else anyslot)
    if r < 0.34:
        return ["clone", S(tgt), S(b), S(rng.randrange(5)), S(rng.randrange(100, 190))]
    if r < 0.44:
        return ["conv", S(tgt), S(b), S(rng.randrange(2)), S(rng.randrange(2))]
    if r < 0.48:
        return ["move", S(tgt), S(b)]
    if r < 0.50:
        same = [s for s in alive if (ref.slots[s].kind, ref.slots[s].dt, ref.slots[s].it) == (cb.kind, cb.dt, cb.it)]
        return ["copy", S(rng.choice(same)), S(b), S(rng.randrange(2))]
    if r < 0.56 and cb.kind <= 1:
        if dead and rng.random() < 0.6:
            n = cb.size()
            if n == 0:
                return None
            m = rng.randrange(1, n + 1)
            return ["range", S(rng.choice(dead)), S(b), S(m), S(rng.randrange(0, n - m + 1))]
        if dead:
            return ["adopt", S(rng.choice(dead)), S(b)]
        return None
    if r < 0.61 and cb.kind <= 1:
        other = [s for s in alive if ref.slots[s].kind == 1 - cb.kind and (ref.slots[s].dt, ref.slots[s].it) == (cb.dt, cb.it)]
        if other and rng.random() < 0.5:
            return ["xconv", S(rng.choice(other)), S(b)]
        if dead:
            return ["xconv", S(rng.choice(dead)), S(b)]
        return None
    if r < 0.67 and cb.kind in (2, 3, 4, 6):
        return ["lay", S(rng.randrange(NLAY)), S(b)]
    if r < 0.74 and lal:
        l = rng.choice(lal)
        L = ref.lays[l]
        kinds = [4] if L.lk == 1 else [6] if L.lk == 2 else [2, 3]
        cand = [s for s in alive if ref.slots[s].kind in kinds and ref.slots[s].it == L.it]
        if cand and rng.random() < 0.4:
            return ["mlay", S(rng.choice(cand)), S(l), "0", "0", S(rng.randrange(200, 290))]
        if dead:
            return ["mlay", S(rng.choice(dead)), S(l), S(rng.choice(kinds)), S(rng.randrange(2)), S(rng.randrange(200, 290))]
        return None
    if r < 0.755 and lal:
        return ["lmove", S(rng.randrange(NLAY)), S(rng.choice(lal))]
    if r < 0.76 and lal:
        return ["lvec", S(rng.randrange(2))]
    if r < 0.77 and lal:
        return ["ldrop", S(rng.choice(lal))]
    if r < 0.84:
        if rng.random() < 0.4:
            return ["format", S(b), S(rng.randrange(300, 390))]
        w = 0 if rng.random() < 0.7 else 1
        arrs = cb.elems if w == 0 else cb.inds
        if not arrs:
            return None
        j = rng.randrange(len(arrs))
        if arrs[j][2] == 0:
            return None
        return ["write", S(b), S(w), S(j), S(rng.randrange(arrs[j][2])), S(rng.randrange(400, 490))]
    if r < 0.89:
        return ["clear", S(b)]
    return ["destroy", S(b)]


def gen_abort_case(rng):
    """a valid prefix followed by one documented precondition violation"""
    for _ in range(50):
        pre = gen_history(rng, rng.randrange(2, 14))
        ops = split_ops(pre)
        # cut the teardown
        body = [t for t in ops if t[0] not in ("end",)]
        cut = rng.randrange(1, len(body) + 1)
        body = body[:cut]
        ref = Ref()
        try:
            for t in body:
                ref.apply(t)
        except (Abort, Invalid):
            continue
        alive = [s for s in range(NSLOT) if ref.slots[s] is not None]
        dead = [s for s in range(NSLOT) if ref.slots[s] is None]
        if not alive or not dead:
            continue
        b = rng.choice(alive)
        cb = ref.slots[b]
        cands = [["clone", str(b), str(b), str(rng.randrange(5)), "1"]]
        if cb.foreign:
            cands.append(["clone", str(dead[0]), str(b), str(rng.choice([0, 1, 2, 4])), "1"])
            cands.append(["conv", str(dead[0]), str(b), str(rng.randrange(2)), str(rng.randrange(2))])
            if cb.elems and cb.elems[0][1] != 0:
                cands.append(["adopt", str(dead[0]), str(b)])
        if cb.kind == 0:
            cands.append(["range", str(dead[0]), str(b), str(cb.size() + 1), "0"])
            cands.append(["range", str(dead[0]), str(b), "0", "0"])
            if cb.size() % 2 == 1:
                cands.append(["xconv", str(dead[0]), str(b)])
        t = rng.choice(cands)
        trial = copy.deepcopy(ref)
        try:
            trial.apply(t)
        except Abort:
            return " ".join(" ".join(x) for x in body + [t])
        except Invalid:
            continue
    return "new 0 0 0 0 3 1 clone 0 0 3 1"


# past failures / hand-written regression histories, replayed first
CORPUS = [
    # out-of-order destruction of shallow clones, range view, deep clone
    "new 0 0 0 0 5 10 clone 1 0 0 0 clone 2 0 4 7 range 3 0 2 1 destroy 3 destroy 0 destroy 1 destroy 2 end",
    # layout shared between CSR and BCSR, weak clone, convert to other types
    "mat 0 2 0 0 2 3 2 1 0 lay 0 0 mlay 1 0 3 1 5 clone 2 0 2 0 conv 3 0 1 1 destroy 0 ldrop 0 destroy 1 destroy 2 destroy 3 end",
    # banded: layout clone, move construction, move assignment
    "band 0 1 1 3 2 4 clone 1 0 1 9 move 2 0 move 1 2 destroy 0 destroy 2 destroy 1 end",
    # dense <-> blocked sharing, self move
    "new 0 0 1 0 4 1 xconv 1 0 move 0 0 adopt 2 1 destroy 0 destroy 1 format 2 7 destroy 2 end",
    # conversion of a shallow clone into a live container of another type
    "new 0 0 0 0 3 5 clone 1 0 0 0 new 2 0 1 1 2 9 conv 2 1 0 0 clone 2 0 0 0 destroy 0 destroy 1 destroy 2 end",
    # zero-sized (null) arrays shared by clone / layout / convert (aborted before fix 9210f2976 of /repo)
    "mat 0 2 0 0 2 2 0 1 1 clone 1 0 2 0 destroy 0 destroy 1 end",
    "mat 0 3 1 1 1 1 0 1 1 clone 1 0 0 0 destroy 0 destroy 1 end",
    "mat 0 2 0 0 2 2 0 1 0 lay 0 0 mlay 1 0 2 0 5 clone 2 1 0 0 destroy 0 destroy 1 destroy 2 ldrop 0 end",
    "mat 0 2 0 0 2 2 0 1 1 lay 0 0 ldrop 0 destroy 0 end",
    "mat 0 2 0 0 2 2 0 1 1 mat 1 2 1 0 1 1 1 5 0 clone 1 0 3 7 conv 1 0 1 0 destroy 0 destroy 1 end",
    # a live SparseLayout object is assigned a second layout (leaked before fix eef945341 of /repo: former F-C20-1)
    "mat 0 2 0 0 2 2 1 1 0 mat 1 2 0 0 2 2 1 1 0 lay 0 0 lay 0 1 ldrop 0 destroy 0 destroy 1 end",
    "band 0 0 1 2 1 1 lay 1 0 lay 1 0 destroy 0 ldrop 1 end",
    # dense <-> blocked convert of an empty source: the empty vector (threw std::out_of_range before fix 8f02f23f1)
    "new 0 1 0 1 0 1 xconv 1 0 destroy 0 destroy 1 end",
    "new 0 0 1 0 0 1 xconv 1 0 destroy 0 destroy 1 end",
    "new 0 0 0 0 4 3 move 1 0 xconv 2 0 new 3 1 0 0 2 9 xconv 3 0 destroy 0 destroy 3 destroy 2 destroy 1 end",
    # x.convert(x) is a no-op, also for a shared container and for a range view (emptied x before fix 5f789ddc8)
    "new 0 0 1 0 4 1 clone 1 0 0 0 conv 1 1 0 0 conv 0 0 1 1 range 2 0 2 1 conv 2 2 0 0 destroy 2 destroy 0 format 1 7 destroy 1 end",
    "mat 0 2 0 0 2 3 2 1 0 conv 0 0 1 1 clone 1 0 2 5 conv 1 1 0 0 destroy 0 destroy 1 end",
    # move assignment between a range view and an owner, both directions, dense and blocked
    "new 0 0 0 0 6 10 new 1 0 0 0 3 50 range 2 0 2 1 move 1 2 format 1 7 write 0 0 0 1 9 destroy 1 destroy 2 destroy 0 end",
    "new 0 0 0 0 6 10 range 2 0 2 1 new 1 0 0 0 3 50 move 2 1 format 2 7 write 0 0 0 1 9 destroy 1 destroy 0 destroy 2 end",
    "new 0 1 1 1 4 10 new 1 1 1 1 2 50 range 2 0 2 1 move 1 2 format 1 7 clone 3 1 3 0 destroy 1 destroy 2 destroy 0 destroy 3 end",
    "new 0 1 1 1 4 10 range 2 0 2 1 new 1 1 1 1 2 50 clone 3 1 0 0 move 2 1 format 2 7 destroy 3 destroy 1 destroy 0 destroy 2 end",
    # DenseMatrix, CSCR, SparseVector, SparseVectorBlocked: clone modes, convert same/other type, moves
    "mk 0 5 0 0 2 10 clone 1 0 0 0 conv 2 0 1 1 clone 2 0 2 5 move 3 0 destroy 0 destroy 1 destroy 2 destroy 3 end",
    "mk 0 6 0 1 3 10 clone 1 0 2 0 conv 2 0 1 1 conv 3 0 0 1 clone 2 0 0 5 clear 0 destroy 0 destroy 1 destroy 2 destroy 3 end",
    "mk 0 7 0 0 3 10 clone 1 0 0 0 conv 2 0 0 0 conv 3 0 1 1 clone 3 0 1 5 conv 1 2 0 0 format 1 9 destroy 0 destroy 1 destroy 2 destroy 3 end",
    "mk 0 8 1 1 2 10 clone 1 0 2 0 conv 2 0 1 1 conv 3 0 0 0 move 1 1 destroy 3 destroy 0 destroy 1 destroy 2 end",
    "mk 0 7 0 0 0 10 clone 1 0 0 0 conv 2 0 0 0 destroy 0 destroy 1 destroy 2 end",
    # SparseVector(Blocked)::convert into a cleared / moved-from target: a deep copy (threw std::out_of_range before
    # fix 65c8822e6 of /repo: former F-C20-4)
    "mk 0 7 0 0 2 10 mk 1 7 0 0 1 5 clear 1 conv 1 0 0 0 destroy 0 destroy 1 end",
    "mk 0 8 0 0 2 10 mk 1 8 0 0 1 5 move 2 1 conv 1 0 0 0 destroy 1 destroy 0 destroy 2 end",
    "mk 0 7 1 1 2 10 mk 1 7 0 0 1 5 clear 1 conv 1 0 0 0 destroy 1 destroy 0 end",
    # SparseLayout special members: move construction, move assignment, self-move, std::vector / member round trips
    "mat 0 2 0 0 2 3 2 10 0 lay 0 0 lmove 1 0 lvec 0 lvec 1 mlay 1 1 2 0 5 lmove 0 1 lmove 0 0 lay 1 0 lmove 0 1 lvec 0 ldrop 0 ldrop 1 destroy 0 destroy 1 end",
    "band 0 1 1 3 2 4 lay 2 0 lay 3 0 lmove 3 2 lvec 1 mlay 1 3 4 1 7 ldrop 3 ldrop 2 destroy 0 destroy 1 end",
    "mat 0 2 0 0 2 3 2 10 0 lay 0 0 lmove 1 0 ldrop 0 ldrop 1 write 0 1 0 0 1 destroy 0 end",
    # CSCR layouts (lt_cscr): take, matrix from layout (fresh / assignment), layout moves
    "mk 0 6 0 1 3 10 lay 0 0 mlay 1 0 6 1 5 lmove 1 0 mk 2 6 1 1 2 40 mlay 2 1 0 0 7 clone 3 1 0 0 destroy 0 ldrop 1 ldrop 0 destroy 2 destroy 1 destroy 3 end",
    # cross-type clone (all modes) into a live container
    "mat 0 2 0 0 2 2 1 3 1 mat 1 2 1 1 1 1 1 7 0 clone 1 0 0 5 clone 1 0 2 5 clone 1 0 1 5 clone 1 0 4 5 destroy 0 destroy 1 end",
]

def cross_type_cases():
    """deterministic: clone (every mode) and convert between containers whose data OR index type differs
    (DT equal / IT different and DT different / IT equal), into a live and into a fresh target, followed by writes
    through BOTH sides into the data and the index arrays, format of both, both teardown orders"""
    out = []
    pairs = [((0, 0), (0, 1)), ((0, 0), (1, 0)), ((1, 1), (1, 0)), ((1, 1), (0, 1))]
    n = 0
    for kind in (2, 3, 0):
        for (sd, si), (dd, di) in pairs:
            for opk in ("clone0", "clone1", "clone2", "clone3", "clone4", "conv"):
                for fresh_target in (False, True):
                    n += 1
                    ops = []
                    if kind == 0:
                        ops.append("new 0 0 %d %d 4 10" % (sd, si))
                        if not fresh_target:
                            ops.append("new 1 0 %d %d 2 50" % (dd, di))
                    else:
                        ops.append("mat 0 %d %d %d 2 3 2 10 %d" % (kind, sd, si, n % 2))
                        if not fresh_target:
                            ops.append("mat 1 %d %d %d 1 2 1 50 1" % (kind, dd, di))
                    if opk == "conv":
                        ops.append("conv 1 0 %d %d" % (dd, di))
                    elif fresh_target:
                        # a fresh clone has the source's types: clone, then convert the clone to the other types
                        ops.append("clone 2 0 %s 70" % opk[5])
                        ops.append("conv 1 2 %d %d" % (dd, di))
                    else:
                        ops.append("clone 1 0 %s 70" % opk[5])
                    ops += ["write 0 0 0 1 401", "write 1 0 0 2 402"]
                    if kind != 0:
                        ops += ["write 0 1 0 2 1", "write 1 1 0 3 0", "write 0 1 1 0 5", "write 1 1 1 1 6"]
                    ops += ["format 0 77", "write 1 0 0 0 403", "format 1 88", "write 0 0 0 3 404"]
                    live = [0, 1] + ([2] if (fresh_target and opk != "conv") else [])
                    order = live if n % 2 == 0 else list(reversed(live))
                    ops += ["destroy %d" % x for x in order] + ["end"]
                    out.append(" ".join(ops))
    return out


def small_alphabet(ref):
    """the finite op alphabet of the exhaustive stream at a state: 3 container slots, 1 layout slot; a new container
    always goes to the lowest free slot (slots are interchangeable), every live container is source and target"""
    S = str
    alive = [s for s in range(3) if ref.slots[s] is not None]
    dead = [s for s in range(3) if ref.slots[s] is None]
    ops = []
    if dead:
        d = S(dead[0])
        ops += [["new", d, "0", "0", "0", "2", "10"], ["mat", d, "2", "0", "0", "1", "2", "1", "30", "0"],
                ["mk", d, "7", "0", "0", "1", "50"]]
    for b in alive:
        cb = ref.slots[b]
        for a in alive + dead[:1]:
            ca = ref.slots[a]
            if ca is not None and ca.kind != cb.kind:
                continue
            for m in range(5):
                ops.append(["clone", S(a), S(b), S(m), "70"])
            if ca is None:
                ops += [["conv", S(a), S(b), "0", "0"], ["conv", S(a), S(b), "1", "1"]]
            else:
                ops.append(["conv", S(a), S(b), "0", "0"])
            if ca is None or (ca.dt, ca.it) == (cb.dt, cb.it):
                ops.append(["move", S(a), S(b)])
            if ca is not None and (ca.dt, ca.it) == (cb.dt, cb.it) and cb.kind < 7:
                ops.append(["copy", S(a), S(b), "1"])
        ops += [["clear", S(b)], ["destroy", S(b)], ["format", S(b), "5"]]
        if cb.kind <= 1 and dead:
            d = S(dead[0])
            ops += [["range", d, S(b), "1", "1"], ["adopt", d, S(b)], ["xconv", d, S(b)]]
        if cb.kind >= 2:
            ops.append(["lay", "0", S(b)])
    if ref.lays[0] is not None:
        for a in [x for x in alive if ref.slots[x].kind in (2, 3)] + dead[:1]:
            ops.append(["mlay", S(a), "0", "2", "1", "90"])
        ops.append(["ldrop", "0"])
    return ops


def layout_alphabet(ref):
    """second exhaustive alphabet: 1 matrix (slot 0, plus a second one made from a layout in slot 1), 2 layout slots,
    every special member of SparseLayout: take, move construction / assignment / self-move, std::vector and by-value
    member round trips, matrix construction / assignment from a layout, drop, destruction of the matrices"""
    S = str
    ops = []
    if ref.slots[0] is None and ref.slots[1] is None and all(L is None for L in ref.lays):
        return [["mat", "0", "2", "0", "0", "2", "3", "2", "10", "0"]]
    for a in (0, 1):
        if ref.slots[a] is not None:
            ops += [["lay", "0", S(a)], ["lay", "1", S(a)], ["destroy", S(a)], ["clear", S(a)]]
    for l in (0, 1):
        if ref.lays[l] is not None:
            ops += [["lmove", "0", S(l)], ["lmove", "1", S(l)], ["ldrop", S(l)],
                    ["mlay", "0", S(l), "2", "0", "90"], ["mlay", "1", S(l), "2", "1", "95"]]
    if any(L is not None for L in ref.lays[:2]):
        ops += [["lvec", "0"], ["lvec", "1"]]
    return ops


def teardown(ref):
    ops = []
    views = [s for s in range(NSLOT) if ref.slots[s] is not None and ref.slots[s].foreign]
    owners = [s for s in range(NSLOT) if ref.slots[s] is not None and not ref.slots[s].foreign]
    ops += [["destroy", str(s)] for s in views + owners]
    ops += [["ldrop", str(l)] for l in range(NLAY) if ref.lays[l] is not None]
    return ops + [["end"]]


def exhaustive_histories(maxlen, alphabet=None):
    """ALL op sequences of length <= maxlen over the small alphabet (followed by the teardown); sequences whose last
    op is a documented abort end there; sequences that would use a dangling view are outside the property's guard"""
    out = []

    def rec(ref, prefix):
        if prefix:
            out.append(" ".join(" ".join(t) for t in prefix + teardown(ref)))
        if len(prefix) == maxlen:
            return
        for t in (alphabet or small_alphabet)(ref):
            trial = copy.deepcopy(ref)
            try:
                trial.apply(t)
            except Abort:
                out.append(" ".join(" ".join(x) for x in prefix + [t]))
                continue
            except (Invalid, IndexError):
                continue
            if trial.dangling() or trial.flags:
                continue
            rec(trial, prefix + [t])

    rec(Ref(), [])
    return out


def install_known_findings():
    """known findings of this property live in known_findings_C20.json (same format and matching rule as the shared
    KNOWN_FINDINGS.json: property + signature, status open)"""
    path = os.path.join(vlib.VERIF, "known_findings_C20.json")
    orig = vlib.load_known

    def load(prop):
        lst = list(orig(prop))
        if prop == PROP and os.path.exists(path):
            data = json.load(open(path))
            lst += [e for e in data.get("findings", []) if e.get("property") == prop and e.get("status") == "open"]
        return lst
    vlib.load_known = load


def shared_target_cases():
    """deterministic: the target `y` (slot 1) of clone-into (all modes) / convert-into / move-assign / copy / layout
    assignment is NON-EMPTY, has the same sizes as the source `x` (slot 0) and shares its arrays with a third
    container (slot 2: shallow clone, same-type convert, weak clone, matrix on the same layout); afterwards writes
    through all three and both teardown orders.  A rebinding op must leave slot 2 untouched, copy() writes through"""
    out = []
    n = 0
    for kind in (0, 2):
        mkx = "new 0 0 0 0 4 10" if kind == 0 else "mat 0 2 0 0 2 3 2 10 0"
        mky = "new 1 0 0 0 4 50" if kind == 0 else "mat 1 2 0 0 2 3 2 50 1"
        rels = ["clone 2 1 0 0", "conv 2 1 0 0", "clone 2 1 2 0"]
        if kind == 2:
            rels.append("lay 0 1 mlay 2 0 2 0 90")
        for rel in rels:
            repl = ["clone 1 0 %d 70" % m for m in range(5)] + ["conv 1 0 0 0", "move 1 0", "copy 1 0 0", "copy 1 0 1"]
            if kind == 2:
                repl.append("lay 1 0 mlay 1 1 2 0 95")
            for op in repl:
                n += 1
                ops = [mkx, mky, rel, op, "write 2 0 0 1 401", "write 1 0 0 2 402"]
                if not op.startswith("move"):
                    ops.append("write 0 0 0 3 403")
                ops += ["format 2 7", "format 1 8"]
                order = [0, 1, 2] if n % 2 else [2, 1, 0]
                ops += ["destroy %d" % x for x in order]
                ops += ["ldrop %d" % l for l in (0, 1) if ("lay %d " % l) in " ".join(ops)]
                out.append(" ".join(ops + ["end"]))
    return out


def tuple_cases():
    """deterministic histories over real TupleVector<DenseVector, DenseVector> objects (tuple t = component slots):
    construct, clone fresh / in place in every mode, move construction / assignment / self-move, clear, format, copy,
    mixed with ordinary operations on the components (shallow clones of components into plain containers, writes),
    destruction in different orders"""
    out = []
    def T(t, name, a0, a1):
        return "T2 %d %s %s %s %s" % (t, name, a0, name, a1)
    for dt, it in ((0, 0), (1, 1), (0, 1)):
        new0 = "T2 0 new 0 0 %d %d 3 10 new 1 0 %d %d 2 50" % (dt, it, dt, it)
        for m in range(5):
            # fresh clone, then clone-in-place back, plain relatives of the components in between
            out.append(" ".join([
                new0, T(1, "clone", "2 0 %d 70" % m, "3 1 %d 80" % m), "clone 6 2 0 0", "write 6 0 0 1 401",
                T(1, "clone", "2 0 %d 71" % ((m + 1) % 5), "3 1 %d 81" % ((m + 1) % 5)), "write 0 0 0 0 402",
                T(0, "clone", "0 2 %d 72" % m, "1 3 %d 82" % m), T(1, "format", "2 7", "3 7"),
                T(0, "destroy", "0", "1"), "destroy 6", T(1, "destroy", "2", "3"), "end"]))
        out.append(" ".join([
            new0, T(1, "move", "2 0", "3 1"), T(1, "move", "2 2", "3 3"), T(0, "clone", "0 2 0 0", "1 3 0 0"),
            T(2, "clone", "4 2 3 0", "5 3 3 0"), T(2, "copy", "4 0 0", "5 1 0"), T(0, "copy", "0 4 1", "1 5 1"),
            T(1, "clear", "2", "3"), "adopt 6 4", "range 7 4 2 1", "write 7 0 0 0 9", "destroy 7",
            T(2, "move", "4 0", "5 1"), T(0, "destroy", "0", "1"), T(2, "destroy", "4", "5"), "destroy 6",
            T(1, "destroy", "2", "3"), "end"]))
        out.append(" ".join([
            "T2 0 new 0 0 %d %d 0 10 new 1 0 %d %d 4 50" % (dt, it, dt, it), T(1, "clone", "2 0 2 0", "3 1 2 0"),
            "conv 6 3 %d %d" % (1 - dt, it), "clone 3 6 3 0", T(1, "clone", "2 0 0 0", "3 1 0 0"),
            "move 7 3", T(0, "destroy", "0", "1"), "destroy 7", "destroy 6", T(1, "destroy", "2", "3"), "end"]))
    return out


def boundary_cases(seed):
    """pool at boundary sizes: >= 256 live arrays at once, one array with >= 256 owners (reference counter 258 through
    257 shallow clones), arrays of 65536 elements (shared, deep-copied, viewed at the very end)"""
    rng = random.Random(seed)
    out = []
    n = 260
    order = list(range(n))
    rng.shuffle(order)
    out.append(" ".join(["SLOTS 300"] + ["new %d %d %d %d %d %d" % (i, i % 2, i % 2, (i // 2) % 2, 1 + i % 3, i)
                                        for i in range(n)] + ["destroy %d" % i for i in order] + ["end"]))
    order = list(range(n))
    rng.shuffle(order)
    ops = ["SLOTS 300", "new 0 0 0 0 2 5"] + ["clone %d 0 0 0" % i for i in range(1, n)] + ["write 17 0 0 1 9"]
    half = order[:n // 2]
    ops += ["destroy %d" % i for i in half] + ["format %d 3" % order[-1]] + ["destroy %d" % i for i in order[n // 2:]]
    out.append(" ".join(ops + ["end"]))
    out.append("new 0 0 0 0 65536 1 clone 1 0 0 0 clone 2 0 3 0 write 1 0 0 65535 7 range 3 0 4 65532 destroy 0 "
               "conv 4 2 1 1 destroy 3 destroy 1 destroy 2 destroy 4 end")
    return out


def nontrivial(case):
    """a history in which an array with >= 2 owners loses an owner that is not the youngest live container"""
    ops = split_ops(case)
    if ops is None:
        return False
    ref = Ref()
    birth = {}
    clock = 0
    try:
        for t in ops:
            if t[0] == "end":
                break
            clock += 1
            if t[0] == "T2":
                ref.apply(t)
                continue
            if t[0] in ("destroy", "clear", "move", "conv", "clone", "mlay", "xconv"):
                s = int(t[1])
                c = ref.slots[s] if 0 <= s < len(ref.slots) else None
                if c is not None and not c.foreign:
                    cnt = ref.owners()
                    shared = any(e[0] is not None and cnt.get(id(e[0]), 0) >= 2 for e in c.elems + c.inds)
                    youngest = max((birth.get(x, 0) for x in range(len(ref.slots)) if ref.slots[x] is not None), default=0)
                    if shared and birth.get(s, 0) < youngest:
                        return True
            before = [x is not None for x in ref.slots]
            ref.apply(t)
            for x in range(len(ref.slots)):
                if ref.slots[x] is not None and not before[x]:
                    birth[x] = clock
    except (Abort, Invalid, IndexError):
        return False
    return False


def describe(case):
    ops = split_ops(case) or []
    keys = set()
    for t in ops:
        keys.add("op:" + t[0])
        if t[0] == "T2":
            keys.add("tuple-op:" + t[2][0])
            continue
        if t[0] == "clone":
            keys.add("clone-mode:" + t[3])
        if t[0] in ("new", "mat", "mk"):
            keys.add("kind:" + t[2])
        if t[0] == "band":
            keys.add("kind:4")
        if t[0] in ("move", "conv") and t[1] == t[2]:
            keys.add("self-" + t[0])
    # zero-sized (null) arrays / range views present at some point of the history
    ref = Ref()
    try:
        for t in ops:
            if t[0] == "end":
                break
            if t[0] == "lay" and 0 <= int(t[1]) < NLAY and ref.lays[int(t[1])] is not None and \
                    any(e[0] is not None for e in ref.lays[int(t[1])].inds):
                keys.add("layout-reassigned-while-holding-arrays")
            ref.apply(t)
            if ref.has_null():
                keys.add("zero-sized-array-present")
            if any(c is not None and c.foreign for c in ref.slots):
                keys.add("range-view-present")
            if any(v >= 3 for v in ref.owners().values()):
                keys.add("array-with->=3-owners")
    except (Abort, Invalid, IndexError):
        pass
    n = len(ops)
    keys.add("len:%s" % ("<=10" if n <= 10 else "<=30" if n <= 30 else "<=80" if n <= 80 else ">80"))
    return sorted(keys)


def signature(case, out, why):
    return "%s" % ((why or "")[:60])


def main(argv):
    args = vlib.std_args(argv)
    install_known_findings()
    t0 = time.time()
    rng = random.Random(args.seed * 1000003 + 20)
    src = os.path.join(vlib.VERIF, "harness", "c20", "main.cpp")
    with ThreadPoolExecutor(max_workers=3) as ex:
        f_lean = ex.submit(lambda: None if args.no_lean else vlib.lean_check(PROP, leanchecker=(args.tier == "thorough")))
        f_plain = ex.submit(vlib.build_harness, "c20", src)
        f_asan = ex.submit(vlib.build_harness, "c20-asan", src, ("-O1", "-g"),
                           ("-fsanitize=address,undefined", "-fno-omit-frame-pointer", "-fno-sanitize-recover=all"))
        lean = f_lean.result()
        binary, err = f_plain.result()
        asan, err2 = f_asan.result()
    if binary is None or asan is None:
        v = [{"property": PROP, "kind": "harness-build-failure", "detail": err or err2, "failing_input": None,
              "broken": "harness c20 does not compile against the current tree"}]
        return vlib.finish(PROP, args.tier, args.seed, t0, lean, [], [], v, [])
    drv = vlib.driver_cmd(PROP)
    if args.replay:
        case = json.load(open(args.replay))["input"]
        streams = [vlib.Stream("lifetimes", [case], [binary], drv, oracle=oracle, canon=canon, nontrivial=nontrivial,
                               describe=describe, signature=signature),
                   vlib.Stream("lifetimes-asan", [case], [asan], drv, oracle=oracle, canon=canon,
                               nontrivial=nontrivial, describe=describe, signature=signature)]
        return vlib.run_pipeline(PROP, args.tier, args.seed, lean, streams, t0, replay_mode=True)
    quick = args.tier == "quick"
    n_hist = 1500 if quick else 16000
    cross = cross_type_cases() + shared_target_cases() + tuple_cases()
    for c in CORPUS + cross:      # deterministic cases must be histories the oracle really judges
        r = Ref()
        for t in split_ops(c):
            if t[0] != "end":
                r.apply(t)
        assert not r.live_arrays(), "deterministic case does not tear everything down: " + c
    cases = list(CORPUS) + cross
    for i in range(n_hist):
        u = rng.random()
        length = rng.randrange(3, 12) if u < 0.25 else rng.randrange(12, 60) if u < 0.9 else rng.randrange(60, 200 if quick else 600)
        cases.append(gen_history(rng, length))
    null_cases = [gen_history(rng, rng.randrange(4, 40), selfbias=0.15) for _ in range(300 if quick else 3000)]
    abort_cases = ["mk 0 7 0 0 2 10 conv 0 0 0 0", "mk 0 8 1 0 1 10 clone 1 0 0 0 conv 1 1 0 0"] + \
        [gen_abort_case(rng) for _ in range(200 if quick else 2000)]
    asan_cases = cases[:len(CORPUS) + len(cross) + (500 if quick else 6000)] + null_cases[:100 if quick else 1000] + abort_cases[:60 if quick else 600]
    exh = exhaustive_histories(4) + exhaustive_histories(5, layout_alphabet)
    exh_describe = lambda c: ["exh-len:%d" % sum(1 for t in (split_ops(c) or []) if t[0] != "end")]
    streams = [
        vlib.Stream("lifetimes", cases, [binary], drv, oracle=oracle, canon=canon, nontrivial=nontrivial,
                    describe=describe, signature=signature),
        vlib.Stream("selfconvert", null_cases, [binary], drv, oracle=oracle, canon=canon,
                    nontrivial=nontrivial, describe=describe, signature=signature),
        vlib.Stream("documented-aborts", abort_cases, [binary], drv, oracle=oracle, canon=canon,
                    nontrivial=lambda c: True, describe=describe, signature=signature),
        vlib.Stream("lifetimes-asan", asan_cases, [asan], drv, oracle=oracle, canon=canon, nontrivial=nontrivial,
                    describe=describe, signature=signature),
        vlib.Stream("exhaustive-small", exh, [binary], drv, oracle=oracle, canon=canon,
                    nontrivial=lambda c: True, describe=exh_describe, signature=signature),
    ]
    bnd = boundary_cases(args.seed)
    streams.append(vlib.Stream("pool-boundary", bnd, [binary], drv, oracle=oracle, canon=canon,
                               nontrivial=lambda c: True, describe=lambda c: ["boundary"], signature=signature))
    if not quick:
        streams.append(vlib.Stream("pool-boundary-asan", bnd, [asan], drv, oracle=oracle, canon=canon,
                                   nontrivial=lambda c: False, describe=lambda c: ["boundary"], signature=signature))
    if not quick:
        streams.append(vlib.Stream("exhaustive-small-asan", exh, [asan], drv, oracle=oracle, canon=canon,
                                   nontrivial=lambda c: False, describe=exh_describe, signature=signature))
    rule = ("random histories (3..600 ops) over 8 container slots (DenseVector, DenseVectorBlocked<2>, CSR, BCSR<2,2>, "
            "Banded, DenseMatrix, CSCR, SparseVector, SparseVectorBlocked<2>; data Q/float, index u32/u64) and 4 SparseLayout slots: construct/adopt/range/clone(5 modes, same "
            "and cross type)/convert/move(self, ctor, assign)/clear/destroy/format/write/layout take/make/assign/drop, "
            "random teardown order, MemoryPool::finalize at the end; plus 144 deterministic cross-type clone(5 modes)/convert "
            "cases (DT equal/IT different and vice versa, live and fresh target, writes through both sides) and "
            "view<->owner move assignments, 67 cases with a NON-EMPTY target that shares its arrays with a third container "
            "(clone-into 5 modes / convert-into / move-assign / copy / layout assignment, equal sizes), 21 histories over real "
            "TupleVector<DenseVector, DenseVector> objects (each tuple op = its two component ops); plus EVERY op sequence of length <= 4 "
            "over 3 containers + 1 layout from a finite alphabet (new DV/CSR, clone 5 modes, convert same/other type, "
            "move, clear, destroy, format, range, adopt, dense<->blocked, layout take/make/drop, incl. self and aborting "
            "ops) and every sequence of length <= 4 after the creation of 1 matrix over 2 layout slots with all special "
            "members of SparseLayout (take, move construction/assignment/self-move, std::vector and by-value-member round "
            "trips, matrix from layout, drop); plus 3 boundary-size histories (260 live arrays, reference counter 258 "
            "for one array, 65536-element arrays); full pool+container state compared after every "
            "op; non-trivial = an array with >= 2 owners loses an owner that is not the youngest live container")
    rc = vlib.run_pipeline(PROP, args.tier, args.seed, lean, streams, t0, assumptions=[
        "chunk identity up to renaming by first appearance (malloc addresses are not modelled)",
        "heap safety inside kernels is observed (ASan/UBSan stream), not proved",
        "range views are only used while an owner of the viewed array lives (the guard of the property; "
        "DESIGN F14)",
        "moved-from std::vector is empty (libstdc++)"],
        extra_cov={"rule": rule})
    return rc
